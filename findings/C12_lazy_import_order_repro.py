"""Reproduction of the C12 defect fixed by the `fix: sort lazy imports` commit in /repo.

Run with a checkout on PYTHONPATH:  PYTHONPATH=<checkout> /venv/bin/python C12_lazy_import_order_repro.py
Generates one document (a model that references three other models) under several PYTHONHASHSEED values,
each in a fresh interpreter, without post hooks, and compares the trees.  Exit 1 if they differ.
"""
import hashlib, json, os, subprocess, sys, tempfile

DOC = {"openapi": "3.1.0", "info": {"title": "t", "version": "1"}, "paths": {}, "components": {"schemas": {
    "Holder": {"type": "object", "properties": {"a": {"$ref": "#/components/schemas/Alpha"}, "b": {"$ref": "#/components/schemas/Beta"},
                                                "c": {"$ref": "#/components/schemas/Gamma"}, "d": {"$ref": "#/components/schemas/Delta"}}},
    "Alpha": {"type": "object"}, "Beta": {"type": "object"}, "Gamma": {"type": "object"}, "Delta": {"type": "object"}}}}

CHILD = r'''
import sys, json, hashlib, os, io, contextlib
from pathlib import Path
from openapi_python_client import Project, GeneratorData
from openapi_python_client.config import Config, ConfigFile, MetaType
doc = json.load(open(sys.argv[1])); out = Path(sys.argv[2])
cfg = Config.from_sources(ConfigFile(post_hooks=[]), MetaType.NONE, document_source=Path("x.json"), file_encoding="utf-8", overwrite=True, output_path=out)
with contextlib.redirect_stdout(io.StringIO()):
    Project(openapi=GeneratorData.from_dict(doc, config=cfg), config=cfg).build()
h = hashlib.sha256()
for r, _d, fs in sorted(os.walk(out)):
    for f in sorted(fs):
        h.update(os.path.relpath(os.path.join(r, f), out).encode()); h.update(open(os.path.join(r, f), "rb").read())
print(h.hexdigest())
'''

def main():
    hashes = {}
    with tempfile.TemporaryDirectory() as td:
        docp = os.path.join(td, "doc.json")
        json.dump(DOC, open(docp, "w"))
        for seed in range(8):
            out = os.path.join(td, f"o{seed}")
            env = dict(os.environ, PYTHONHASHSEED=str(seed))
            r = subprocess.run([sys.executable, "-c", CHILD, docp, out], env=env, capture_output=True, text=True)
            hashes[seed] = r.stdout.strip() or r.stderr[-300:]
    print(hashes)
    distinct = len(set(hashes.values()))
    print("distinct trees:", distinct)
    return 0 if distinct == 1 else 1

if __name__ == "__main__":
    sys.exit(main())
