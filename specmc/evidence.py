"""Evidence files (DESIGN §2.7): written by every run, validated against EVIDENCE.schema.json."""
from __future__ import annotations

import json
import os
import shutil
import subprocess

ROOT = os.path.dirname(os.path.dirname(os.path.abspath(__file__)))
EVID_DIR = os.environ.get("SPECMC_EVIDENCE_DIR") or os.path.join(ROOT, "evidence")
SCHEMA = os.path.join(ROOT, "schemas", "EVIDENCE.schema.json")


def _mini_validate(ev):
    """Structural fallback when jsonschema is not reachable (python3-vt missing)."""
    for k in ("property_id", "tier", "seed", "level", "coverage", "wall_s"):
        if k not in ev:
            return f"missing key {k}"
    cov = ev["coverage"]
    if ev["level"] == "model_checking":
        for k in ("states", "transitions", "traces_validated_against_impl", "samples"):
            if k not in cov:
                return f"coverage missing {k}"
        if cov["states"] < 1 or cov["transitions"] < 1 or not cov["samples"]:
            return "model_checking counts must be >= 1 and samples non-empty"
    else:
        for k in ("evaluations", "distinct_nontrivial", "rule", "samples"):
            if k not in cov:
                return f"coverage missing {k}"
        if cov["evaluations"] < 1 or cov["distinct_nontrivial"] < 2 or not cov["samples"]:
            return "generic counts too small"
    return None


def validate(path):
    vt = shutil.which("python3-vt")
    if vt and os.path.exists(SCHEMA):
        code = ("import json,sys,jsonschema;"
                "jsonschema.validate(json.load(open(sys.argv[1])), json.load(open(sys.argv[2])))")
        r = subprocess.run([vt, "-W", "ignore", "-c", code, path, SCHEMA], capture_output=True, text=True)
        if r.returncode != 0:
            return (r.stderr or r.stdout).strip().splitlines()[-1] if (r.stderr or r.stdout) else "schema validation failed"
        return None
    with open(path) as f:
        return _mini_validate(json.load(f))


def write(prop, ev):
    os.makedirs(EVID_DIR, exist_ok=True)
    path = os.path.join(EVID_DIR, f"{prop}.json")
    tmp = path + ".tmp"
    with open(tmp, "w") as f:
        json.dump(ev, f, indent=1, sort_keys=False, default=str)
        f.write("\n")
    os.replace(tmp, path)
    # a per-tier copy, so that the record of the deepest run survives the next quick run
    tdir = os.path.join(EVID_DIR, "tiers")
    os.makedirs(tdir, exist_ok=True)
    shutil.copyfile(path, os.path.join(tdir, f"{prop}.{ev.get('tier', 'quick')}.json"))
    return path
