"""Owned set-iteration order (DESIGN §2.5): load openapi_python_client.* with every set display, set
comprehension and every use of the name ``set`` outside annotations rewritten to ``VSet``, a set subclass
whose iteration order is decided by the explorer.  The order is a function of the set's *contents*.

Must be installed BEFORE openapi_python_client is imported (used by C12 in dedicated worker processes).
"""
from __future__ import annotations

import ast
import builtins
import importlib.abc
import importlib.machinery
import sys


class Ctl:
    forced = {}      # frozenset -> tuple order
    seen = {}        # frozenset -> number of iterations


CTL = Ctl()


def _typed_key(x):
    return (type(x).__name__, x)


class VSet(set):
    __slots__ = ()

    def __iter__(self):
        if set.__len__(self) < 2:
            return set.__iter__(self)
        try:
            key = frozenset(set.__iter__(self))
        except TypeError:
            return set.__iter__(self)
        CTL.seen[key] = CTL.seen.get(key, 0) + 1
        order = CTL.forced.get(key)
        if order is not None:
            return iter(order)
        try:
            return iter(sorted(set.__iter__(self), key=_typed_key))
        except TypeError:
            return iter(sorted(set.__iter__(self), key=repr))

    def _wrap(self, r):
        return VSet(r) if type(r) is set else r

    def __or__(self, o): return self._wrap(set.__or__(self, o))
    def __ror__(self, o): return self._wrap(set.__ror__(self, o))
    def __and__(self, o): return self._wrap(set.__and__(self, o))
    def __rand__(self, o): return self._wrap(set.__rand__(self, o))
    def __sub__(self, o): return self._wrap(set.__sub__(self, o))
    def __rsub__(self, o): return self._wrap(set.__rsub__(self, o))
    def __xor__(self, o): return self._wrap(set.__xor__(self, o))
    def __rxor__(self, o): return self._wrap(set.__rxor__(self, o))
    def copy(self): return VSet(set.copy(self))
    def union(self, *o): return VSet(set.union(self, *o))
    def difference(self, *o): return VSet(set.difference(self, *o))
    def intersection(self, *o): return VSet(set.intersection(self, *o))
    def symmetric_difference(self, o): return VSet(set.symmetric_difference(self, o))
    def __reduce__(self): return (VSet, (list(set.__iter__(self)),))
    def __deepcopy__(self, memo):
        import copy
        return VSet([copy.deepcopy(x, memo) for x in set.__iter__(self)])
    def pop(self):
        # set.pop takes "an arbitrary element": hash-order dependent, so owned as well
        for x in self:
            set.discard(self, x)
            return x
        raise KeyError("pop from an empty set")


class Rewriter(ast.NodeTransformer):
    def __init__(self):
        self.count = 0
        self.in_ann = 0

    def _mk(self, elts_node):
        self.count += 1
        return ast.Call(func=ast.Name(id="__vset__", ctx=ast.Load()), args=[elts_node], keywords=[])

    def visit_Set(self, node):
        self.generic_visit(node)
        return ast.copy_location(self._mk(ast.List(elts=node.elts, ctx=ast.Load())), node)

    def visit_SetComp(self, node):
        self.generic_visit(node)
        return ast.copy_location(self._mk(ast.ListComp(elt=node.elt, generators=node.generators)), node)

    def visit_Name(self, node):
        if node.id == "set" and isinstance(node.ctx, ast.Load) and not self.in_ann:
            self.count += 1
            return ast.copy_location(ast.Name(id="__vset__", ctx=ast.Load()), node)
        return node

    def visit_AnnAssign(self, node):
        self.in_ann += 1
        node.annotation = self.visit(node.annotation)
        self.in_ann -= 1
        if node.value is not None:
            node.value = self.visit(node.value)
        node.target = self.visit(node.target)
        return node

    def visit_arg(self, node):
        if node.annotation is not None:
            self.in_ann += 1
            node.annotation = self.visit(node.annotation)
            self.in_ann -= 1
        return node

    def visit_FunctionDef(self, node):
        if node.returns is not None:
            self.in_ann += 1
            node.returns = self.visit(node.returns)
            self.in_ann -= 1
        self.generic_visit(node)
        return node

    visit_AsyncFunctionDef = visit_FunctionDef

    def visit_Subscript(self, node):
        # set[...] used as a generic alias in a runtime expression (e.g. cast(set[str], x)): leave alone
        if isinstance(node.value, ast.Name) and node.value.id == "set":
            node.slice = self.visit(node.slice)
            return node
        self.generic_visit(node)
        return node


class Loader(importlib.machinery.SourceFileLoader):
    stats = {}

    def source_to_code(self, data, path, *, _optimize=-1):
        tree = ast.parse(data, filename=path)
        rw = Rewriter()
        tree = rw.visit(tree)
        ast.fix_missing_locations(tree)
        Loader.stats[str(path)] = rw.count
        return compile(tree, path, "exec", dont_inherit=True, optimize=_optimize)

    def get_code(self, fullname):           # never read or write .pyc for rewritten modules
        path = self.get_filename(fullname)
        return self.source_to_code(self.get_data(path), path)


class Finder(importlib.abc.MetaPathFinder):
    def find_spec(self, fullname, path, target=None):
        if not (fullname == "openapi_python_client" or fullname.startswith("openapi_python_client.")):
            return None
        spec = importlib.machinery.PathFinder.find_spec(fullname, path)
        if spec is None or not isinstance(spec.loader, importlib.machinery.SourceFileLoader):
            return spec
        spec.loader = Loader(spec.loader.name, spec.loader.path)
        return spec


def install():
    if "openapi_python_client" in sys.modules:
        raise RuntimeError("vset.install() must run before openapi_python_client is imported")
    builtins.__vset__ = VSet
    sys.meta_path.insert(0, Finder())


def selftest():
    src = "def f(a: set[str]) -> set[int]:\n    x = {1, 2, 3}\n    y = {i for i in a}\n    z = set()\n    z |= x\n    return x | set(y), z\n"
    tree = Rewriter().visit(ast.parse(src))
    ast.fix_missing_locations(tree)
    ns = {}
    builtins.__vset__ = VSet
    exec(compile(tree, "<t>", "exec"), ns)
    r, z = ns["f"](["b", "a"])
    assert isinstance(r, VSet) and isinstance(z, VSet), (type(r), type(z))
    CTL.forced[frozenset([1, 2, 3])] = (3, 1, 2)
    try:
        assert list(z) == [3, 1, 2]
    finally:
        CTL.forced.clear()
        CTL.seen.clear()
    assert list(z) == [1, 2, 3]
