"""Wire capture (DESIGN §2.3): call generated endpoint functions against httpx.MockTransport."""
from __future__ import annotations

import asyncio
import urllib.parse

import httpx

_LOOP = None


def loop():
    global _LOOP
    if _LOOP is None or _LOOP.is_closed():
        _LOOP = asyncio.new_event_loop()
    return _LOOP


class Capture:
    """Records every request; answers with ``responder(request)`` or 200 / empty JSON object."""

    def __init__(self, responder=None):
        self.requests = []
        self.responder = responder

    def handler(self, request: httpx.Request) -> httpx.Response:
        raw = request.url.raw_path.decode("ascii", "replace")
        path, _, query = raw.partition("?")
        try:
            content = request.content
        except httpx.RequestNotRead:
            content = request.read()
        hdrs = [(k.decode("latin-1").lower(), v.decode("latin-1")) for k, v in request.headers.raw]
        cookies = {}
        for k, v in hdrs:
            if k == "cookie":
                for part in v.split(";"):
                    n, _, val = part.strip().partition("=")
                    cookies[n] = val
        self.requests.append({
            "method": request.method, "path": path, "raw_query": query, "origin": f"{request.url.scheme}://{request.url.netloc.decode('ascii', 'replace')}",
            "query": urllib.parse.parse_qsl(query, keep_blank_values=True),
            "headers": hdrs, "cookies": cookies, "content": content,
            "content_type": dict(hdrs).get("content-type"),
        })
        if self.responder is not None:
            return self.responder(request)
        return httpx.Response(200, json={})

    def take(self):
        r, self.requests = self.requests, []
        return r


def make_client(sb, capture, *, authenticated=False, raise_on_unexpected_status=False, token="tok3n", **kw):
    cm = sb.mod("client")
    args = dict(base_url="http://testserver", httpx_args={"transport": httpx.MockTransport(capture.handler)},
                raise_on_unexpected_status=raise_on_unexpected_status)
    args.update(kw)
    if authenticated:
        return cm.AuthenticatedClient(token=token, **args)
    return cm.Client(**args)


VARIANTS = ("sync_detailed", "sync", "asyncio_detailed", "asyncio")


def call(mod, variant, client_factory, capture, kwargs):
    """Call one variant with a fresh client; -> {"ok": bool, "value"|"exc", "requests": [...]}.

    A fresh client per call keeps the sync and async httpx clients independent."""
    fn = getattr(mod, variant, None)
    if fn is None:
        return None
    capture.take()
    client = client_factory()
    try:
        if variant.startswith("asyncio"):
            async def run():
                try:
                    return await fn(client=client, **kwargs)
                finally:
                    ac = getattr(client, "_async_client", None)
                    if ac is not None:
                        await ac.aclose()
            value = loop().run_until_complete(run())
        else:
            try:
                value = fn(client=client, **kwargs)
            finally:
                sc = getattr(client, "_client", None)
                if sc is not None:
                    sc.close()
        return {"ok": True, "value": value, "requests": capture.take()}
    except BaseException as exc:  # noqa: BLE001
        if type(exc).__name__ == "CaseTimeout":
            raise
        return {"ok": False, "exc": exc, "requests": capture.take()}


def call_seq(steps, asynchronous, client_factory, capture):
    """Run ``steps`` = [(fn, kwargs), ...] through ONE client object; -> [{"ok", "value"|"exc", "requests"}, ...]."""
    capture.take()
    client = client_factory()
    out = []

    def record(thunk):
        try:
            v = thunk()
            out.append({"ok": True, "value": v, "requests": capture.take()})
        except BaseException as exc:  # noqa: BLE001
            if type(exc).__name__ == "CaseTimeout":
                raise
            out.append({"ok": False, "exc": exc, "requests": capture.take()})

    if asynchronous:
        async def run():
            try:
                for fn, kwargs in steps:
                    try:
                        v = await fn(client=client, **kwargs)
                        out.append({"ok": True, "value": v, "requests": capture.take()})
                    except Exception as exc:  # noqa: BLE001
                        out.append({"ok": False, "exc": exc, "requests": capture.take()})
            finally:
                ac = getattr(client, "_async_client", None)
                if ac is not None:
                    await ac.aclose()
        loop().run_until_complete(run())
    else:
        try:
            for fn, kwargs in steps:
                record(lambda fn=fn, kwargs=kwargs: fn(client=client, **kwargs))
        finally:
            sc = getattr(client, "_client", None)
            if sc is not None:
                sc.close()
    return out


def endpoint_module(sb, ep):
    return sb.mod(f"api.{ep['tag']}.{ep['module']}")


def req_summary(r):
    """JSON-able canonical summary of a captured request (for differentials)."""
    headers = sorted((k, v) for k, v in r["headers"] if k not in ("host", "accept", "accept-encoding", "connection", "user-agent", "content-length"))
    content = r["content"].decode("latin-1")
    # httpx draws a random multipart boundary per request: name it, so that two runs of one call compare equal
    import re
    for k, v in headers:
        m = re.search(r"boundary=([0-9a-f]{16,})", v) if k == "content-type" else None
        if m:
            headers = [(k2, v2.replace(m.group(1), "BOUNDARY") if k2 == "content-type" else v2) for k2, v2 in headers]
            content = content.replace(m.group(1), "BOUNDARY")
    return {"method": r["method"], "path": r["path"], "query": sorted(r["query"]), "headers": headers, "content": content}
