"""Developer aid (not registered in MANIFEST.json): run a check and print every violation signature,
explained or not, clustered with its minimal-deviation witness."""
from __future__ import annotations

import collections
import json
import multiprocessing as mp

from . import findings, runner
from .explorer import canon


def main(check_id, tier, seed, full=False):
    prop = check_id.upper()
    mod = runner.load_check(prop)
    if hasattr(mod, "prepare"):
        mod.prepare(tier)
    pool = mp.get_context("fork").Pool(runner.NPROC, initializer=runner._init_worker, initargs=(prop,))
    ctx = runner.Ctx(prop, tier, seed, pool)
    try:
        if hasattr(mod, "drive"):
            cases, results, _info = mod.drive(ctx)
        else:
            seen, cases = set(), []
            for c in mod.cases(tier):
                k = canon(c["payload"])
                if k not in seen:
                    seen.add(k)
                    cases.append(c)
            results = ctx.map([c["payload"] for c in cases])
    finally:
        pool.terminate()
        pool.join()
    known = findings.load(prop)
    by = collections.OrderedDict()
    outcomes = collections.Counter()
    for case, res in zip(cases, results):
        outcomes[res["outcome"]] += 1
        if res.get("harness_error"):
            print("HARNESS ERROR", case.get("labels"), res["harness_error"])
        for v in res["violations"]:
            sig = runner.signature(prop, v)
            s = by.setdefault(sig, {"n": 0, "w": None, "v": None, "expl": 0})
            s["n"] += 1
            if findings.explain(known, sig, case.get("labels", [])):
                s["expl"] += 1
            if s["w"] is None or len(case.get("labels", [])) < len(s["w"].get("labels", [])):
                s["w"], s["v"] = case, v
    print(f"{prop}: {len(cases)} cases, {len(by)} signatures; outcomes: {dict(outcomes.most_common(12))}")
    for sig, s in sorted(by.items()):
        tag = "known" if s["expl"] == s["n"] else ("PARTLY" if s["expl"] else "NEW")
        print(f"\n[{tag}] {sig}   x{s['n']}")
        print(f"    labels: {s['w'].get('labels')}")
        print(f"    detail: {str(s['v'].get('detail', ''))[:700 if not full else 5000]}")
        if full:
            print("    payload:", json.dumps(s["w"]["payload"], default=str)[:3000])
    return 0
