"""Execution seam: the real generator, in process (DESIGN §2.2).

The generator is imported from /repo's working tree (editable install) or, for mutation
experiments, from the checkout named by SPECMC_REPO (put first on sys.path).
"""
from __future__ import annotations

import contextlib
import functools
import io
import os
import shutil
import sys
import traceback
from pathlib import Path

REPO = os.environ.get("SPECMC_REPO", "/repo")
if REPO not in sys.path[:1]:
    sys.path.insert(0, REPO)
os.environ.setdefault("OPENAPI_PYTHON_CLIENT_VERIF", "1")
if REPO != "/repo":      # child interpreters (CLI subprocesses, hash-seed sweeps) must import the same checkout
    os.environ["PYTHONPATH"] = REPO + (os.pathsep + os.environ["PYTHONPATH"] if os.environ.get("PYTHONPATH") else "")  # guard name (no hooks exist, see MANIFEST.hooks)

from jinja2.bccache import BytecodeCache  # noqa: E402


class MemCache(BytecodeCache):
    """In-memory Jinja bytecode cache: keyed by template name + source checksum (Jinja's own key)."""

    def __init__(self):
        self.d = {}

    def load_bytecode(self, bucket):
        b = self.d.get(bucket.key)
        if b is not None:
            bucket.bytecode_from_string(b)

    def dump_bytecode(self, bucket):
        self.d[bucket.key] = bucket.bytecode_to_string()


import openapi_python_client as opc  # noqa: E402

_real_file = os.path.realpath(opc.__file__)
if not _real_file.startswith(os.path.realpath(REPO) + os.sep):
    raise SystemExit(f"specmc: openapi_python_client imported from {_real_file}, expected under {REPO}")

_ORIG_ENV = opc.Environment
_CACHE = MemCache()


def enable_cache(on=True):
    opc.Environment = functools.partial(_ORIG_ENV, bytecode_cache=_CACHE) if on else _ORIG_ENV


enable_cache(True)

from openapi_python_client import GeneratorData, Project  # noqa: E402
from openapi_python_client.config import Config, ConfigFile, MetaType  # noqa: E402
from openapi_python_client.parser.errors import ErrorLevel, GeneratorError  # noqa: E402

_SCRATCH_ROOT = None
_counter = [0]


def scratch_root() -> Path:
    global _SCRATCH_ROOT
    if _SCRATCH_ROOT is None or not _SCRATCH_ROOT.exists() or _SCRATCH_ROOT.name != f"specmc-{os.getpid()}":
        base = Path("/dev/shm") if os.path.isdir("/dev/shm") and os.access("/dev/shm", os.W_OK) else Path(
            __import__("tempfile").gettempdir())
        _SCRATCH_ROOT = base / f"specmc-{os.getpid()}"
        shutil.rmtree(_SCRATCH_ROOT, ignore_errors=True)
        _SCRATCH_ROOT.mkdir(parents=True)
        import atexit
        atexit.register(shutil.rmtree, str(_SCRATCH_ROOT), True)
    return _SCRATCH_ROOT


def fresh_dir(prefix="o") -> Path:
    _counter[0] += 1
    p = scratch_root() / f"{prefix}{_counter[0]}"
    shutil.rmtree(p, ignore_errors=True)
    return p


def mkconfig(out, meta="none", overwrite=True, encoding="utf-8", source=None, **options) -> Config:
    options.setdefault("post_hooks", [])
    cf = ConfigFile(**options)
    return Config.from_sources(cf, MetaType(meta), document_source=source or Path("spec.json"),
                               file_encoding=encoding, overwrite=overwrite, output_path=Path(out) if out else None)


def read_tree(root) -> dict:
    tree = {}
    root = str(root)
    for r, _d, files in os.walk(root):
        for x in files:
            p = os.path.join(r, x)
            with open(p, "rb") as f:
                tree[os.path.relpath(p, root)] = f.read()
    return tree


class Diag:
    __slots__ = ("level", "header", "detail", "data", "kind")

    def __init__(self, e):
        self.level = e.level.name if isinstance(e.level, ErrorLevel) else str(e.level)
        self.header = e.header or ""
        self.detail = e.detail or ""
        d = getattr(e, "data", None)
        try:
            self.data = "" if d is None else str(d)
        except Exception:  # noqa: BLE001
            self.data = "<unprintable>"
        self.kind = type(e).__name__

    def text(self):
        return f"{self.header}\n{self.detail}\n{self.data}"

    def short(self):
        return f"{self.level}:{self.header.strip()[:80]}|{self.detail.strip()[:160]}"

    def as_dict(self):
        return {"level": self.level, "header": self.header, "detail": self.detail[:2000], "kind": self.kind}


class GenResult:
    """Outcome of one generator run."""

    def __init__(self):
        self.diags: list[Diag] = []
        self.tree: dict | None = None      # {relpath: bytes} (None when the document was rejected / crashed)
        self.crash: dict | None = None     # {"type","where","msg"} for an escaping exception
        self.data = None                   # GeneratorData (harness-side calling convention only)
        self.rejected = False              # document-level GeneratorError
        self.pkg_prefix = ""               # relative dir of the python package inside the tree ("" for meta none)
        self.models, self.enums, self.endpoints = [], [], []

    @property
    def ok(self):
        return self.crash is None and not self.rejected

    @property
    def has_error(self):
        return any(d.level == "ERROR" for d in self.diags)

    def diag_text(self):
        return "\n".join(d.text() for d in self.diags)

    def pkg_tree(self):
        """The python package part of the tree, keys relative to the package directory."""
        if self.tree is None:
            return {}
        if not self.pkg_prefix:
            return dict(self.tree)
        pre = self.pkg_prefix + "/"
        return {k[len(pre):]: v for k, v in self.tree.items() if k.startswith(pre)}


def crash_info(exc: BaseException) -> dict:
    tb = traceback.extract_tb(exc.__traceback__)
    where = "?"
    for fr in reversed(tb):
        if "openapi_python_client" in fr.filename and "/verif/" not in fr.filename:
            where = f"{os.path.basename(fr.filename)}:{fr.name}"
            break
    else:
        if tb:
            where = f"{os.path.basename(tb[-1].filename)}:{tb[-1].name}"
    return {"type": type(exc).__name__, "where": where, "msg": str(exc)[:300]}


class CaseTimeout(BaseException):
    """Raised by the per-case watchdog (BaseException so broad excepts in the code under test do not eat it)."""


def generate(doc, *, meta="none", out=None, overwrite=True, encoding="utf-8", custom_template_path=None,
             keep_dir=False, **options) -> GenResult:
    """What openapi_python_client.generate() does after loading the document."""
    res = GenResult()
    own_dir = out is None
    out = Path(out) if out is not None else fresh_dir()
    try:
        cfg = mkconfig(out, meta, overwrite=overwrite, encoding=encoding, **options)
        with contextlib.redirect_stdout(io.StringIO()):
            data = GeneratorData.from_dict(doc, config=cfg)
            if isinstance(data, GeneratorError):
                res.diags = [Diag(data)]
                res.rejected = True
                return res
            res.data = data
            _record_claims(res, data, cfg)
            proj = Project(openapi=data, config=cfg,
                           custom_template_path=Path(custom_template_path) if custom_template_path else None)
            errs = proj.build()
        res.diags = [Diag(e) for e in errs]
        res.tree = read_tree(out)
        if proj.package_dir != proj.project_dir:
            res.pkg_prefix = os.path.relpath(proj.package_dir, proj.project_dir)
        return res
    except CaseTimeout:
        raise
    except Exception as exc:  # noqa: BLE001
        res.crash = crash_info(exc)
        return res
    finally:
        if own_dir and not keep_dir:
            shutil.rmtree(out, ignore_errors=True)


def _record_claims(res, data, cfg):
    """The generator's own claims about which class/module/function belongs to which document item
    (harness-side calling convention only; every *observation* is made on the generated tree)."""
    models, enums = list(data.models), list(data.enums)
    data.models, data.enums = iter(models), iter(enums)      # still one-shot iterators, as the generator built them
    res.models = [{"name": m.name, "class": str(m.class_info.name), "module": str(m.class_info.module_name)}
                  for m in models]
    res.enums = [{"name": e.name, "class": str(e.class_info.name), "module": str(e.class_info.module_name)}
                 for e in enums]
    eps = []
    for tag, coll in data.endpoint_collections_by_tag.items():
        for ep in coll.endpoints:
            def plist(ps):
                return [{"name": p.name, "py": str(p.python_name), "required": p.required} for p in ps]
            eps.append({"tag": str(tag), "name": ep.name, "module": str(opc.utils.PythonIdentifier(ep.name, cfg.field_prefix)), "method": ep.method, "path": ep.path,
                        "path_params": plist(ep.path_parameters), "query_params": plist(ep.query_parameters),
                        "header_params": plist(ep.header_parameters), "cookie_params": plist(ep.cookie_parameters),
                        "bodies": [{"content_type": b.content_type, "body_type": str(b.body_type.value)} for b in ep.bodies],
                        "n_responses": len(ep.responses), "requires_security": ep.requires_security})
    res.endpoints = eps


def as_30(doc):
    """The same document declared as OpenAPI 3.0.3, or None when it uses a 3.1-only construct (const, null type, type lists)."""
    import copy as _copy
    import json as _json
    text = _json.dumps(doc)
    if doc.get("openapi", "").startswith("3.0") or '"const"' in text or '"type": "null"' in text or '"type": [' in text or '"summary": "s"' in text:
        return None
    d = _copy.deepcopy(doc)
    d["openapi"] = "3.0.3"
    return d


def base_doc(schemas=None, paths=None, version="3.1.0", **extra):
    d = {"openapi": version, "info": {"title": "t", "version": "1"}, "paths": paths if paths is not None else {}}
    if schemas is not None:
        d["components"] = {"schemas": schemas}
    for k, v in extra.items():
        if k == "components":
            d.setdefault("components", {}).update(v)
        else:
            d[k] = v
    return d


def tree_digest(tree) -> str:
    import hashlib
    h = hashlib.sha256()
    for k in sorted(tree):
        h.update(k.encode()); h.update(b"\0"); h.update(tree[k]); h.update(b"\0")
    return h.hexdigest()[:16]


# --------------------------------------------------------------------------------------------- sources (files, URLs)

_HTTP = {"server": None, "files": {}}


def http_base():
    """Loopback HTTP server owned by the harness (one per process), serving _HTTP['files'][path] = (status, headers, body)."""
    if _HTTP["server"] is None:
        import http.server
        import threading

        class H(http.server.BaseHTTPRequestHandler):
            def do_GET(self):  # noqa: N802
                ent = _HTTP["files"].get(self.path)
                if ent is None:
                    self.send_response(404)
                    self.send_header("Content-Length", "0")
                    self.end_headers()
                    return
                status, headers, body = ent
                self.send_response(status)
                for k, v in headers.items():
                    self.send_header(k, v)
                self.send_header("Content-Length", str(len(body)))
                self.end_headers()
                self.wfile.write(body)

            def log_message(self, *a):
                pass
        srv = http.server.ThreadingHTTPServer(("127.0.0.1", 0), H)
        threading.Thread(target=srv.serve_forever, daemon=True).start()
        _HTTP["server"] = srv
        _HTTP["pid"] = os.getpid()
    elif _HTTP.get("pid") != os.getpid():       # forked child: start its own
        _HTTP["server"] = None
        return http_base()
    return f"http://127.0.0.1:{_HTTP['server'].server_address[1]}"


def serve(path, body, content_type=None, status=200):
    headers = {"Content-Type": content_type} if content_type else {}
    base = http_base()
    _HTTP["files"][path] = (status, headers, body)
    return base + path


def generate_from_source(source, *, meta="none", out=None, overwrite=True, encoding="utf-8", **options) -> GenResult:
    """The real ``openapi_python_client.generate`` (loader included) on a Path or URL source."""
    res = GenResult()
    own = out is None
    out = Path(out) if out is not None else fresh_dir()
    try:
        cfg = mkconfig(out, meta, overwrite=overwrite, encoding=encoding, source=source, **options)
        with contextlib.redirect_stdout(io.StringIO()):
            errs = opc.generate(config=cfg)
        res.diags = [Diag(e) for e in errs]
        if out.exists():
            res.tree = read_tree(out)
        else:
            res.rejected = True
        return res
    except CaseTimeout:
        raise
    except Exception as exc:  # noqa: BLE001
        res.crash = crash_info(exc)
        return res
    finally:
        if own:
            shutil.rmtree(out, ignore_errors=True)
