"""Stateless, deviation-bounded choice-sequence explorer (DESIGN §2.1).

A *case builder* is an ordinary function ``build(ch) -> payload`` that calls
``ch.pick(label, options)`` at every decision; option 0 is the default.  ``explore`` enumerates
every choice vector with at most ``bound`` non-default choices (``None`` = full product),
exactly once each, in order of increasing deviation count.
"""
from __future__ import annotations

import json
from collections import deque


class ReplayDivergence(Exception):
    """The builder was not deterministic while replaying a prefix (hard error)."""


class Chooser:
    def __init__(self, prefix):
        self.prefix = prefix
        self.points = []          # (label, n_options)
        self.choices = []         # (label, index)
        self.picked = []          # (label, repr of chosen option) for non-default picks

    def pick(self, label, options):
        options = list(options)
        if not options:
            raise ValueError(f"empty option list at {label}")
        i = len(self.choices)
        if i < len(self.prefix):
            want_label, c = self.prefix[i]
            if want_label != label:
                raise ReplayDivergence(f"divergent label at point {i}: {label!r} != {want_label!r}")
            if not 0 <= c < len(options):
                raise ReplayDivergence(f"choice {c} out of range at {label!r} ({len(options)} options)")
        else:
            c = 0
        self.points.append((label, len(options)))
        self.choices.append((label, c))
        if c != 0:
            self.picked.append(f"{label}={_short(options[c])}")
        return options[c]

    def flag(self, label):
        """Boolean deviation: default False."""
        return self.pick(label, [False, True])

    def labels(self):
        return list(self.picked)


def _short(o):
    if isinstance(o, str):
        return o
    if isinstance(o, (int, float, bool)) or o is None:
        return json.dumps(o)
    if isinstance(o, (tuple, list)) and o and isinstance(o[0], str):
        return o[0]
    if isinstance(o, dict) and "id" in o:
        return str(o["id"])
    s = json.dumps(o, sort_keys=True, default=str)
    return s if len(s) <= 40 else s[:37] + "..."


def explore(build, bound=None, limit=None):
    """Yield (labels, payload, n_deviations) for every choice vector within ``bound``.

    Breadth-first over the number of deviations, so the first counterexample found has the
    fewest non-default features.  ``limit`` caps the number of cases (the caller must report
    the cap as hit: see ``explore.stats``).
    """
    stats = {"cases": 0, "edges": 0, "cap_hit": False, "max_dev": 0}
    explore.stats = stats
    queue = deque([[]])
    while queue:
        prefix = queue.popleft()
        ch = Chooser(prefix)
        payload = build(ch)
        devs = sum(1 for _, c in ch.choices if c != 0)
        stats["cases"] += 1
        stats["max_dev"] = max(stats["max_dev"], devs)
        yield ch.labels(), payload, devs
        if limit is not None and stats["cases"] >= limit:
            stats["cap_hit"] = bool(queue)
            return
        pdevs = sum(1 for _, c in ch.choices[: len(prefix)] if c != 0)
        if bound is not None and pdevs + 1 > bound:
            continue
        for i in range(len(prefix), len(ch.points)):
            label, n = ch.points[i]
            for alt in range(1, n):
                stats["edges"] += 1
                queue.append(ch.choices[:i] + [(label, alt)])


def canon(obj):
    """Identity of a case for de-duplication.  Map ORDER is part of the identity: the generator reads documents in order."""
    return json.dumps(obj, sort_keys=False, default=str, ensure_ascii=True)
