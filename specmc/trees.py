"""Oracles on generated trees that only Python itself decides: parse, name binding, import closure."""
from __future__ import annotations

import ast
import builtins
import posixpath
import symtable

_BUILTINS = set(dir(builtins)) | {"__file__", "__name__", "__doc__", "__package__", "__spec__", "__loader__", "__path__"}


def py_files(tree):
    return {k: v for k, v in tree.items() if k.endswith(".py")}


def decode(b):
    return b.decode("utf-8") if isinstance(b, (bytes, bytearray)) else b


def syntax_errors(tree):
    out = []
    for k, v in sorted(py_files(tree).items()):
        try:
            compile(v, k, "exec", dont_inherit=True)
        except (SyntaxError, ValueError) as exc:
            out.append((k, f"{type(exc).__name__}: {getattr(exc, 'msg', exc)} (line {getattr(exc, 'lineno', '?')})"))
    return out


def _top_level_bindings(mod: ast.Module):
    """Names bound at module top level (following if/try/with blocks, incl. `if TYPE_CHECKING:`)."""
    names = set()

    def visit(stmts):
        for st in stmts:
            if isinstance(st, (ast.FunctionDef, ast.AsyncFunctionDef, ast.ClassDef)):
                names.add(st.name)
            elif isinstance(st, ast.Import):
                for a in st.names:
                    names.add((a.asname or a.name).split(".")[0])
            elif isinstance(st, ast.ImportFrom):
                for a in st.names:
                    names.add(a.asname or a.name)
            elif isinstance(st, (ast.Assign, ast.AnnAssign, ast.AugAssign)):
                targets = st.targets if isinstance(st, ast.Assign) else [st.target]
                for t in targets:
                    for n in ast.walk(t):
                        if isinstance(n, ast.Name):
                            names.add(n.id)
            elif isinstance(st, (ast.If, ast.Try, ast.With, ast.For, ast.While)):
                for field in ("body", "orelse", "finalbody"):
                    visit(getattr(st, field, []) or [])
                for h in getattr(st, "handlers", []) or []:
                    visit(h.body)
    visit(mod.body)
    return names


def _module_file(tree, dotted_parts):
    base = "/".join(dotted_parts)
    if base and base + ".py" in tree:
        return base + ".py"
    init = (base + "/__init__.py") if base else "__init__.py"
    if init in tree:
        return init
    return None


_FILE_CACHE = {}


def _file_facts(k, v):
    """(ast, top-level bindings, [(name, scope type, scope name)] unbound globals) cached on path+content."""
    ck = (k, hash(v))
    hit = _FILE_CACHE.get(ck)
    if hit is not None and hit[0] == v:
        return hit[1]
    try:
        mod = ast.parse(v, filename=k)
    except (SyntaxError, ValueError):
        facts = None
    else:
        top = _top_level_bindings(mod)
        unbound = []
        try:
            st = symtable.symtable(decode(v), k, "exec")
        except (SyntaxError, ValueError):
            st = None

        def walk(tab):
            for sym in tab.get_symbols():
                name = sym.get_name()
                if not sym.is_referenced():
                    continue
                if tab.get_type() == "module":
                    ub = not (sym.is_assigned() or sym.is_imported() or name in top)
                else:
                    ub = sym.is_global() and name not in top
                if ub and name not in _BUILTINS:
                    unbound.append((name, tab.get_type(), tab.get_name()))
            for ch in tab.get_children():
                walk(ch)
        if st is not None:
            walk(st)
        imports = [n for n in ast.walk(mod) if isinstance(n, ast.ImportFrom) and n.level > 0]
        facts = (mod, top, unbound, imports)
    if len(_FILE_CACHE) > 4000:
        _FILE_CACHE.clear()
    _FILE_CACHE[ck] = (v, facts)
    return facts


def closure_problems(tree):
    """Static closure of a generated package (keys relative to the package dir):
    every relative import resolves to a generated module that binds the imported name; every global
    name read in any scope is bound in its module or is a builtin."""
    problems = []
    facts = {k: _file_facts(k, v) for k, v in py_files(tree).items()}
    tops = {k: f[1] for k, f in facts.items() if f is not None}
    broken = {k for k, f in facts.items() if f is None}
    for k, f in facts.items():
        if f is None:
            continue
        _mod, top, unbound, imports = f
        pkg_parts = k.split("/")[:-1]
        for node in imports:
            up = node.level - 1
            if up > len(pkg_parts):
                problems.append((k, "import-escapes-package", f"line {node.lineno}: from {'.' * node.level}{node.module or ''}"))
                continue
            base = pkg_parts[: len(pkg_parts) - up]
            target_parts = base + (node.module.split(".") if node.module else [])
            target = _module_file(tree, target_parts)
            if target is None:
                problems.append((k, "import-missing-module", f"line {node.lineno}: from {'.' * node.level}{node.module or ''} import ... -> no generated module {'/'.join(target_parts)}"))
                continue
            if target in broken:
                continue        # the target does not parse: reported by the syntax oracle
            for a in node.names:
                if a.name == "*":
                    continue
                if a.name in tops.get(target, set()):
                    continue
                if target.endswith("__init__.py") and _module_file(tree, target_parts + [a.name]):
                    continue
                problems.append((k, "import-missing-name", f"line {node.lineno}: from {'.' * node.level}{node.module or ''} import {a.name} -> {target} does not bind it"))
        for name, ttype, tname in unbound:
            problems.append((k, "unbound-name", f"{name} (read in {ttype} {tname})"))
    # de-duplicate
    seen, out = set(), []
    for p in problems:
        if p not in seen:
            seen.add(p)
            out.append(p)
    return out


class _Erase(ast.NodeTransformer):
    """Replace every string constant (docstrings and f-string literal parts included) by a placeholder."""

    def visit_Constant(self, node):
        if isinstance(node.value, (str, bytes)):
            return ast.copy_location(ast.Constant(value="S"), node)
        return node

    def visit_JoinedStr(self, node):
        # keep the *expressions* of an f-string (they are code), erase its literal parts
        vals = []
        for v in node.values:
            if isinstance(v, ast.FormattedValue):
                vals.append(self.visit(v))
        return ast.copy_location(ast.JoinedStr(values=vals), node)


def erased_dump(src):
    """AST dump with all string contents erased: equal dumps <=> same code modulo the text of literals."""
    t = ast.parse(src)
    t = _Erase().visit(t)
    return ast.dump(t, annotate_fields=False, include_attributes=False)


def names_in(src):
    """All Name ids and Attribute attrs occurring as AST nodes."""
    out = set()
    for n in ast.walk(ast.parse(src)):
        if isinstance(n, ast.Name):
            out.add(n.id)
        elif isinstance(n, ast.Attribute):
            out.add(n.attr)
        elif isinstance(n, (ast.FunctionDef, ast.AsyncFunctionDef, ast.ClassDef)):
            out.add(n.name)
        elif isinstance(n, ast.arg):
            out.add(n.arg)
        elif isinstance(n, ast.keyword) and n.arg:
            out.add(n.arg)
        elif isinstance(n, ast.alias):
            out.add(n.name.split(".")[0])
            if n.asname:
                out.add(n.asname)
    return out
