"""Shared document builders: put a schema of a given kind at a given position (DESIGN §3 positions)."""
from __future__ import annotations

import copy

from .. import gen
from . import kinds as K

POSITIONS = ["prop", "item", "union1", "union2", "addl", "allof", "query", "header", "cookie", "path",
             "json", "form", "multipart", "octet", "resp",
             "item-query", "item-header", "item-cookie"]      # declared at path-item level, shared by two operations with no parameter of their own
MEDIA = {"json": "application/json", "form": "application/x-www-form-urlencoded", "multipart": "multipart/form-data",
         "octet": "application/octet-stream"}
OK = {"200": {"description": "ok"}}


def place(kind, pos, required=True, version="3.1.0", prop_name="p", op_id="theOp"):
    """Document with one schema of ``kind`` at position ``pos``.  Returns (doc, info)."""
    comps, paths = {}, {}
    sch = K.schema(kind, comps)

    def model(p):
        m = {"type": "object", "properties": {prop_name: p}}
        if required:
            m["required"] = [prop_name]
        return m

    if pos == "prop":
        comps["M"] = model(sch)
    elif pos == "item":
        comps["M"] = model({"type": "array", "items": sch})
    elif pos == "union1":
        comps["M"] = model({"oneOf": [sch, {"type": "integer"}]})
    elif pos == "union2":
        comps["M"] = model({"oneOf": [{"type": "string"}, sch]})
    elif pos == "addl":
        comps["M"] = {"type": "object", "additionalProperties": sch}
    elif pos == "allof":
        comps["Parent"] = model(sch)
        comps["M"] = {"allOf": [{"$ref": "#/components/schemas/Parent"}, {"type": "object", "properties": {"w": {"type": "string"}}}]}
    elif pos in ("query", "header", "cookie", "path"):
        path = "/x/{" + prop_name + "}" if pos == "path" else "/x"
        paths[path] = {"get": {"operationId": op_id, "parameters": [
            {"name": prop_name, "in": pos, "required": bool(required or pos == "path"), "schema": sch}], "responses": copy.deepcopy(OK)}}
    elif pos.startswith("item-"):
        paths["/x"] = {"parameters": [{"name": prop_name, "in": pos[5:], "required": bool(required), "schema": sch}],
                       "get": {"operationId": op_id, "responses": copy.deepcopy(OK)},
                       "delete": {"operationId": op_id + "Del", "responses": {"204": {"description": "n"}}}}
    elif pos in MEDIA:
        body_schema = sch if pos in ("json", "octet") else model(sch)
        paths["/x"] = {"post": {"operationId": op_id, "requestBody": {"required": True, "content": {MEDIA[pos]: {"schema": body_schema}}},
                                "responses": copy.deepcopy(OK)}}
    elif pos == "resp":
        paths["/x"] = {"get": {"operationId": op_id, "responses": {"200": {"description": "ok", "content": {"application/json": {"schema": sch}}}}}}
    else:
        raise ValueError(pos)
    return gen.base_doc(comps or None, paths=paths, version=version)
