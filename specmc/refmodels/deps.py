"""RM-deps: reverse reachability over the document's $ref graph (DESIGN §2.4).

Units are component schemas and operations; the *cone* of a set of carriers is every unit that depends on one
of them directly or transitively.
"""
from __future__ import annotations

import copy
import json
import re

METHODS = ("get", "put", "post", "delete", "options", "head", "patch", "trace")


def units(doc):
    u = {("schema", k) for k in (doc.get("components", {}).get("schemas") or {})}
    for p, item in (doc.get("paths") or {}).items():
        for m in item:
            if m in METHODS:
                u.add(("op", m, p))
    return u


def unit_json(doc, u):
    if u[0] == "schema":
        return doc["components"]["schemas"][u[1]]
    item = doc["paths"][u[2]]
    return {"op": item[u[1]], "item_params": item.get("parameters", [])}


_REF = re.compile(r'"\$ref": "#/components/(schemas|parameters|responses|requestBodies)/([^"]+)"')


def refs_in(x):
    return set(_REF.findall(json.dumps(x)))


def _expand(doc, refs):
    """Schema names reachable through parameter/response/body components (which are not units themselves)."""
    out, todo, seen = set(), list(refs), set()
    comps = doc.get("components", {})
    while todo:
        sec, name = todo.pop()
        if (sec, name) in seen:
            continue
        seen.add((sec, name))
        if sec == "schemas":
            out.add(name)
        else:
            target = (comps.get(sec) or {}).get(name)
            if target is not None:
                todo += list(refs_in(target))
    return out


def cone(doc, carriers):
    c = set(carriers)
    changed = True
    all_units = units(doc)
    while changed:
        changed = False
        for u in all_units - c:
            names = _expand(doc, refs_in(unit_json(doc, u)))
            if any(("schema", r) in c for r in names):
                c.add(u)
                changed = True
    return c


def remove_units(doc, us):
    d = copy.deepcopy(doc)
    for u in us:
        if u[0] == "schema":
            d["components"]["schemas"].pop(u[1], None)
        else:
            d["paths"].get(u[2], {}).pop(u[1], None)
    for p in list(d.get("paths", {})):
        if not any(m in d["paths"][p] for m in METHODS):
            del d["paths"][p]
    return d
