"""Reference graphs: every small directed multigraph over object schemas, each edge realised by one way a schema can
refer to another (property, array items, union member, additionalProperties, allOf parent).

Bounded-exhaustive: n nodes, at most ``max_edges`` of the n*n ordered node pairs carry an edge (deviation = an edge),
every edge kind per chosen pair, declaration order forward / reversed."""
from __future__ import annotations

import itertools

R = "#/components/schemas/"
EDGE_KINDS = ("prop", "array", "union", "addl", "allof")
NODE_NAMES = ("Alpha", "Beta", "Gamma")
# naming as a dimension: unrelated names; each name a SUFFIX of the next (Pet / NewPet / MyNewPet); each a PREFIX of the next
NAMINGS = {"plain": ("Alpha", "Beta", "Gamma"), "suffix": ("Pet", "NewPet", "MyNewPet"), "prefix": ("Item", "ItemBase", "ItemBaseX"),
           "suffix-rev": ("MyNewPet", "NewPet", "Pet")}


def ref(n):
    return {"$ref": R + n}


def graphs(n, max_edges, orders=("fwd", "rev")):
    """yield (label, edges, order) with edges = ((i, j, kind), ...)"""
    pairs = [(i, j) for i in range(n) for j in range(n)]
    for k in range(0, max_edges + 1):
        for chosen in itertools.combinations(pairs, k):
            kind_sets = [[x for x in EDGE_KINDS if not (x == "allof" and i == j)] for i, j in chosen]
            for kinds in itertools.product(*kind_sets):
                edges = tuple((i, j, kd) for (i, j), kd in zip(chosen, kinds))
                # at most one allOf parent per (child, parent) pair is implied by construction; several parents are allowed
                for order in orders:
                    label = f"n{n}:" + ",".join(f"{i}-{kd}->{j}" for i, j, kd in edges) + f"/{order}"
                    yield label, edges, order


def components(n, edges, order, naming="plain"):
    """components.schemas for the graph: every node has a scalar property first, its edges next, an inline object last."""
    names = NAMINGS[naming][:n]
    out = {}
    for i, name in enumerate(names):
        props = {"v": {"type": "integer"}}
        addl, parents = [], []
        for (a, b, kd) in edges:
            if a != i:
                continue
            t = names[b]
            if kd == "prop":
                props[f"to_{t.lower()}"] = ref(t)
            elif kd == "array":
                props[f"many_{t.lower()}"] = {"type": "array", "items": ref(t)}
            elif kd == "union":
                props[f"either_{t.lower()}"] = {"oneOf": [ref(t), {"type": "integer"}]}
            elif kd == "addl":
                addl.append(ref(t))
            elif kd == "allof":
                parents.append(ref(t))
        props["meta"] = {"type": "object", "properties": {"m": {"type": "string"}}}
        own = {"type": "object", "properties": props}
        if addl:
            own["additionalProperties"] = addl[0] if len(addl) == 1 else {"anyOf": addl}
        out[name] = {"allOf": parents + [own]} if parents else own
    if order == "rev":
        out = {k: out[k] for k in reversed(list(out))}
    return out


def paths(n, naming="plain"):
    names = NAMINGS[naming][:n]
    return {"/g": {"post": {"operationId": "postG", "requestBody": {"required": True, "content": {"application/json": {"schema": ref(names[-1])}}},
                            "responses": {"200": {"description": "d", "content": {"application/json": {"schema": ref(names[0])}}}}}}}
