"""RM-inst part 1: the kind algebra (DESIGN §3, Appendix A).

A kind is a JSON-able value: an atom name ("str", "date", ...) or a list
["array", k] | ["union", k1, k2, ...] | ["nullable", k, notation] | ["addl", k] (object with typed additionalProperties).
``schema(kind, comps)`` gives the OpenAPI 3.1 (or 3.0 where the notation asks) schema and registers the
components it refers to in ``comps``; ``samples(kind)`` gives canonical valid JSON instances (each tagged
with a class such as "value", "null", "branch0"); ``rejects(kind)`` gives values every decoder must refuse.
"""
from __future__ import annotations

import copy

ATOMS = ["str", "int", "num", "bool", "date", "datetime", "uuid", "enum_str", "enum_int", "const", "null", "any",
         "model_ref", "enum_ref", "inline_object"]
SCALARS = ["str", "int", "num", "bool", "date", "datetime", "uuid", "enum_str", "enum_int"]
# kinds whose decoder constructs a Python object (needs from_dict / isoparse / UUID / Enum)
CONSTRUCTED = {"date", "datetime", "uuid", "enum_str", "enum_int", "model_ref", "enum_ref", "inline_object"}

REF_COMPONENT = {"type": "object", "properties": {"z": {"type": "integer"}}}
ENUM_COMPONENT = {"type": "string", "enum": ["x", "y"]}
NULL_NOTATIONS = ["t30", "t31", "oneof", "anyof"]   # nullable:true | type list | oneOf null member | anyOf null member

UUID1 = "12345678-1234-5678-1234-567812345678"
UUID2 = "00000000-0000-4000-8000-000000000001"


def kstr(kind) -> str:
    if isinstance(kind, str):
        return kind
    head = kind[0]
    if head == "array":
        return f"array({kstr(kind[1])})"
    if head == "union":
        return "union(" + ",".join(kstr(k) for k in kind[1:]) + ")"
    if head == "nullable":
        return f"nullable[{kind[2]}]({kstr(kind[1])})"
    if head == "addl":
        return f"addl({kstr(kind[1])})"
    raise ValueError(kind)


def _atom_schema(kind, comps):
    if kind == "str":
        return {"type": "string"}
    if kind == "int":
        return {"type": "integer"}
    if kind == "num":
        return {"type": "number"}
    if kind == "bool":
        return {"type": "boolean"}
    if kind == "date":
        return {"type": "string", "format": "date"}
    if kind == "datetime":
        return {"type": "string", "format": "date-time"}
    if kind == "uuid":
        return {"type": "string", "format": "uuid"}
    if kind == "file":
        return {"type": "string", "format": "binary"}
    if kind == "enum_str":
        return {"type": "string", "enum": ["a", "b"]}
    if kind == "enum_int":
        return {"type": "integer", "enum": [1, -2]}
    if kind == "enum_str0":          # a member that is falsy in Python
        return {"type": "string", "enum": ["", "a"]}
    if kind == "enum_int0":
        return {"type": "integer", "enum": [0, 5]}
    if kind == "const":
        return {"const": "k"}
    if kind == "const_int":
        return {"const": 3}
    if kind == "null":
        return {"type": "null"}
    if kind == "any":
        return {}
    if kind == "model_ref":
        comps.setdefault("Ref", copy.deepcopy(REF_COMPONENT))
        return {"$ref": "#/components/schemas/Ref"}
    if kind == "enum_ref":
        comps.setdefault("EnumRef", copy.deepcopy(ENUM_COMPONENT))
        return {"$ref": "#/components/schemas/EnumRef"}
    if kind == "inline_object":
        return {"type": "object", "properties": {"z": {"type": "integer"}}}
    raise ValueError(f"unknown kind {kind!r}")


def schema(kind, comps) -> dict:
    if isinstance(kind, str):
        return _atom_schema(kind, comps)
    head = kind[0]
    if head == "array":
        return {"type": "array", "items": schema(kind[1], comps)}
    if head == "union":
        return {"oneOf": [schema(k, comps) for k in kind[1:]]}
    if head == "union_anyof":
        return {"anyOf": [schema(k, comps) for k in kind[1:]]}
    if head == "addl":
        return {"type": "object", "additionalProperties": schema(kind[1], comps)}
    if head == "nullable":
        inner, notation = schema(kind[1], comps), kind[2]
        if notation == "t30":
            if "$ref" in inner:      # 3.0: nullable wrapper around a reference
                return {"nullable": True, "allOf": [inner]}
            s = dict(inner)
            s["nullable"] = True
            return s
        if notation == "t31":
            if "type" in inner and isinstance(inner["type"], str):
                s = dict(inner)
                s["type"] = [inner["type"], "null"]
                return s
            return {"oneOf": [inner, {"type": "null"}]}
        if notation == "oneof":
            return {"oneOf": [inner, {"type": "null"}]}
        if notation == "anyof":
            return {"anyOf": [inner, {"type": "null"}]}
        if notation == "enumnull":   # null listed among the enum values
            s = dict(inner)
            s["enum"] = list(inner["enum"]) + [None]
            if isinstance(s.get("type"), str):
                s["type"] = [s["type"], "null"]
            return s
        raise ValueError(notation)
    raise ValueError(kind)


def is_nullable(kind) -> bool:
    if kind == "null" or kind == "any":
        return True
    if isinstance(kind, str):
        return False
    if kind[0] == "nullable":
        return True
    if kind[0] in ("union", "union_anyof"):
        return any(is_nullable(k) for k in kind[1:])
    return False


def samples(kind, depth=0):
    """[(class, value)] canonical valid instances; classes name which part of the schema the value exercises."""
    if isinstance(kind, str):
        vals = {
            "str": ["s", ""],
            "int": [0, 7],
            "num": [1.5, 2],
            "bool": [True, False],
            "date": ["2020-01-02"],
            "datetime": ["2020-01-02T03:04:05+00:00", "2021-12-31T23:59:59"],
            "uuid": [UUID1],
            "enum_str": ["a", "b"],
            "enum_int": [1, -2],
            "enum_str0": ["", "a"],
            "enum_int0": [0, 5],
            "const": ["k"],
            "const_int": [3],
            "null": [None],
            "any": [1, "x", None, [1], {"a": 1}],
            "model_ref": [{"z": 1}, {}, {"z": 1, "extra": "e"}],
            "enum_ref": ["x", "y"],
            "inline_object": [{"z": 1}, {}, {"z": 2, "extra": [1]}],
        }[kind]
        out = []
        for v in vals:
            cls = "null" if v is None else "value"
            out.append((cls, v))
        return out
    head = kind[0]
    if head == "array":
        inner = [v for _c, v in samples(kind[1], depth + 1)]
        out = [("empty", [])]
        if inner:
            out.append(("one", [copy.deepcopy(inner[0])]))
            if len(inner) > 1:
                out.append(("two", [copy.deepcopy(inner[0]), copy.deepcopy(inner[1])]))
            else:
                out.append(("two", [copy.deepcopy(inner[0]), copy.deepcopy(inner[0])]))
        return out
    if head in ("union", "union_anyof"):
        out = []
        for i, k in enumerate(kind[1:]):
            for c, v in samples(k, depth + 1)[:2]:
                out.append((f"branch{i}" if c != "null" else "null", v))
        return out
    if head == "addl":
        inner = [v for _c, v in samples(kind[1], depth + 1)]
        out = [("empty", {})]
        if inner:
            out.append(("one", {"k1": copy.deepcopy(inner[0])}))
            out.append(("two", {"k1": copy.deepcopy(inner[0]), "k 2": copy.deepcopy(inner[-1])}))
        return out
    if head == "nullable":
        return samples(kind[1], depth + 1) + [("null", None)]
    raise ValueError(kind)


def rejects(kind):
    """Values that are NOT valid for the kind and that the decoder is required to refuse (enum/const only)."""
    if kind == "enum_str":
        return ["A", "c", "a ", 1]
    if kind == "enum_int":
        return [2, -1, "1"]
    if kind == "enum_ref":
        return ["X", "z"]
    if kind == "const":
        return ["K", "kk", 1]
    return []


def json_eq(a, b) -> bool:
    """Equality of JSON values: bool is not a number; integers and floats compare by value."""
    if isinstance(a, bool) or isinstance(b, bool):
        return isinstance(a, bool) and isinstance(b, bool) and a == b
    if isinstance(a, (int, float)) and isinstance(b, (int, float)):
        return a == b
    if type(a) is not type(b):
        return False
    if isinstance(a, dict):
        return a.keys() == b.keys() and all(json_eq(a[k], b[k]) for k in a)
    if isinstance(a, list):
        return len(a) == len(b) and all(json_eq(x, y) for x, y in zip(a, b))
    return a == b


PLAIN = (dict, list, str, int, float, bool, type(None))


def non_plain(v, path="$"):
    """First position holding something that is not exact plain JSON data, else None."""
    if type(v) not in PLAIN:
        return f"{path}: {type(v).__name__}"
    if type(v) is dict:
        for k, x in v.items():
            if type(k) is not str:
                return f"{path}: key {type(k).__name__}"
            r = non_plain(x, f"{path}.{k}")
            if r:
                return r
    elif type(v) is list:
        for i, x in enumerate(v):
            r = non_plain(x, f"{path}[{i}]")
            if r:
                return r
    return None
