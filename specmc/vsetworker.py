"""Subprocess entry points for C12: they need a process whose environment the harness controls
(the VSet loader must be installed before the generator is imported; a real PYTHONHASHSEED is per process).

    python -m specmc.vsetworker vset   < job.json   -> {"sets": n, "deviations": n, "candidates": [...]}
    python -m specmc.vsetworker digest < job.json   -> {"digests": {doc_id: {"digest":..., "files": {...}}}}
"""
from __future__ import annotations

import hashlib
import itertools
import json
import sys


def _digests(tree):
    # .ruff_cache is ruff's own cache (keyed by absolute paths), not part of the generated client
    return {k: hashlib.sha1(v).hexdigest()[:12] for k, v in tree.items() if not k.startswith(".ruff_cache")}


def _gen(gen, job_doc):
    r = gen.generate(job_doc["doc"], meta=job_doc.get("meta", "none"), **job_doc.get("options", {}))
    if r.crash:
        return {"crash": r.crash}
    if r.tree is None:
        return {"rejected": True}
    return {"files": _digests(r.tree), "diags": sorted(d.short()[:120] for d in r.diags)}


def main_digest(job):
    from specmc import gen
    out = {}
    for jd in job["docs"]:
        out[jd["id"]] = _gen(gen, jd)
    print(json.dumps({"digests": out}))


def _orders(elems, mode):
    """Alternative iteration orders of one set: all permutations up to 4 elements, else adjacent swaps + reversal."""
    base = list(elems)
    if len(base) <= 4:
        for p in itertools.permutations(base):
            if list(p) != base:
                yield list(p)
        return
    yield base[::-1]
    for i in range(len(base) - 1):
        o = list(base)
        o[i], o[i + 1] = o[i + 1], o[i]
        yield o
    yield base[1:] + base[:1]


def main_vset(job):
    from specmc import vset
    vset.install()
    from specmc import gen            # imports the generator through the rewriting loader
    CTL = vset.CTL
    jd = job["doc"]
    CTL.forced.clear()
    CTL.seen.clear()
    base = _gen(gen, jd)
    if "files" not in base:
        print(json.dumps({"sets": 0, "deviations": 0, "candidates": [], "base": base}))
        return
    seen = [k for k in CTL.seen if len(k) >= 2]
    rewritten = sum(vset.Loader.stats.values())
    cands, ndev = [], 0

    def sort_key(x):
        return (type(x).__name__, repr(x))
    singles = []
    for key in seen:
        default = sorted(key, key=sort_key)
        for order in _orders(default, "all"):
            singles.append((key, order))
    for key, order in singles:
        CTL.forced.clear()
        CTL.forced[key] = tuple(order)
        r = _gen(gen, jd)
        ndev += 1
        if r.get("files") != base["files"]:
            diff = sorted(f for f in set(r.get("files", {})) | set(base["files"]) if r.get("files", {}).get(f) != base["files"].get(f))
            cands.append({"set": [repr(x)[:80] for x in sorted(key, key=sort_key)], "order": [repr(x)[:80] for x in order], "files": diff[:6]})
    if job.get("pairs") and len(seen) >= 2:
        # two deviations at once (thorough): every pair of sets, each in its reversed order
        for (k1, k2) in itertools.combinations(seen, 2):
            CTL.forced.clear()
            CTL.forced[k1] = tuple(sorted(k1, key=sort_key)[::-1])
            CTL.forced[k2] = tuple(sorted(k2, key=sort_key)[::-1])
            r = _gen(gen, jd)
            ndev += 1
            if r.get("files") != base["files"]:
                diff = sorted(f for f in set(r.get("files", {})) | set(base["files"]) if r.get("files", {}).get(f) != base["files"].get(f))
                cands.append({"set": ["<pair>"], "order": [], "files": diff[:6]})
    CTL.forced.clear()
    print(json.dumps({"sets": len(seen), "deviations": ndev, "candidates": cands, "rewritten_sites": rewritten,
                      "set_sizes": sorted(len(k) for k in seen)}))


if __name__ == "__main__":
    mode = sys.argv[1]
    job = json.load(sys.stdin)
    if mode == "vset":
        main_vset(job)
    else:
        main_digest(job)
