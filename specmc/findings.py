"""Known findings (DESIGN §2.6): hand-maintained /verif/known_findings.json, never written at run time."""
from __future__ import annotations

import fnmatch
import json
import os

PATH = os.path.join(os.path.dirname(os.path.dirname(os.path.abspath(__file__))), "known_findings.json")


def load(prop):
    try:
        with open(PATH) as f:
            data = json.load(f)
    except FileNotFoundError:
        return []
    return [e for e in data.get("findings", []) if e.get("property") == prop]


def is_open(entry):
    return entry.get("status", "open") == "open"


def match(entry, signature, labels):
    """An open entry explains a violation iff the signature matches (exact or glob) and the entry's
    witness labels are a subset of the case's labels."""
    if not is_open(entry):
        return False
    pats = entry["signature"]
    if isinstance(pats, str):
        pats = [pats]
    if not any(pat == signature or fnmatch.fnmatchcase(signature, pat) for pat in pats):
        return False
    need = entry.get("witness_labels") or []
    have = list(labels)
    return all(any(n == h or fnmatch.fnmatchcase(h, n) for h in have) for n in need)


def explain(entries, signature, labels):
    for e in entries:
        if match(e, signature, labels):
            return e
    return None
