"""specmc - bounded-exhaustive exploration of openapi-python-client, directly on the implementation.

See /verif/DESIGN.md.  Run with /venv/bin/python -m specmc <command>.
"""
