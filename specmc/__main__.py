import sys
from .cli import main
sys.exit(main())
