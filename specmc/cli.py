"""Command line: check / replay / selftest / triage (DESIGN §11)."""
from __future__ import annotations

import argparse
import json
import os
import sys

ROOT = os.path.dirname(os.path.dirname(os.path.abspath(__file__)))


def _reexec_with_hashseed(seed):
    """Workers (forked from this process) inherit its string-hash seed; derive it from VERIF_SEED."""
    if os.environ.get("SPECMC_NO_REEXEC") == "1":
        return
    want = str(seed % 4294967295)
    if os.environ.get("PYTHONHASHSEED") == want:
        return
    env = dict(os.environ, PYTHONHASHSEED=want, SPECMC_NO_REEXEC="1")
    os.execve(sys.executable, [sys.executable, "-m", "specmc"] + sys.argv[1:], env)


def main(argv=None):
    ap = argparse.ArgumentParser(prog="specmc")
    sub = ap.add_subparsers(dest="cmd", required=True)
    c = sub.add_parser("check")
    c.add_argument("id")
    c.add_argument("--tier", default=None, choices=["quick", "thorough"])
    r = sub.add_parser("replay")
    r.add_argument("path")
    r.add_argument("--json", action="store_true")
    sub.add_parser("selftest")
    t = sub.add_parser("triage")
    t.add_argument("id")
    t.add_argument("--tier", default="quick")
    t.add_argument("--full", action="store_true")
    args = ap.parse_args(argv)

    seed = int(os.environ.get("VERIF_SEED", "0") or 0)
    if args.cmd == "check":
        tier = args.tier or os.environ.get("VERIF_TIER") or "quick"
        if tier not in ("quick", "thorough"):
            tier = "quick"
        _reexec_with_hashseed(seed)
        from . import runner
        return runner.run_check(args.id, tier, seed)
    if args.cmd == "replay":
        from . import runner
        return runner.replay_file(args.path, as_json=args.json)
    if args.cmd == "selftest":
        from . import selftest
        return selftest.main()
    if args.cmd == "triage":
        _reexec_with_hashseed(seed)
        from . import triage
        return triage.main(args.id, args.tier, seed, args.full)
    return 2


if __name__ == "__main__":
    sys.exit(main())
