"""Turn a canonical JSON sample into the Python value a generated API expects, guided by the annotation
the generated code itself declares (harness-side calling convention; the *observation* never uses it)."""
from __future__ import annotations

import datetime
import enum
import io
import typing
import uuid

from dateutil.parser import isoparse


class NoFit(Exception):
    pass


def _is_unset_type(t):
    return isinstance(t, type) and t.__name__ == "Unset"


def pythonize(ann, v, depth=0):
    """Best-effort construction of a value of annotation ``ann`` from JSON value ``v``."""
    if ann is typing.Any or ann is object or ann is None and v is None:
        return v
    origin = typing.get_origin(ann)
    args = typing.get_args(ann)
    if origin is typing.Union:
        last = None
        for a in args:
            if _is_unset_type(a):
                continue
            try:
                return pythonize(a, v, depth + 1)
            except NoFit as exc:
                last = exc
        raise NoFit(str(last))
    if origin is typing.Literal:
        if v in args and any(type(v) is type(a) for a in args):
            return v
        raise NoFit(f"{v!r} not in {args}")
    if origin in (list, typing.List):  # noqa: UP006
        if not isinstance(v, list):
            raise NoFit("not a list")
        inner = args[0] if args else typing.Any
        return [pythonize(inner, x, depth + 1) for x in v]
    if origin is dict:
        if not isinstance(v, dict):
            raise NoFit("not a dict")
        return v
    if ann is type(None):
        if v is None:
            return None
        raise NoFit("not None")
    if isinstance(ann, str):          # unresolved forward reference: give up, pass the JSON through
        return v
    if isinstance(ann, type):
        if issubclass(ann, enum.Enum):
            try:
                if isinstance(v, bool):
                    raise ValueError
                return ann(v)
            except ValueError as exc:
                raise NoFit(str(exc)) from None
        if ann is datetime.datetime:
            if isinstance(v, str) and "T" in v:
                return isoparse(v)
            raise NoFit("not a datetime")
        if ann is datetime.date:
            if isinstance(v, str) and "T" not in v:
                try:
                    return datetime.date.fromisoformat(v)
                except ValueError as exc:
                    raise NoFit(str(exc)) from None
            raise NoFit("not a date")
        if ann is uuid.UUID:
            try:
                return uuid.UUID(v)
            except (ValueError, AttributeError, TypeError) as exc:
                raise NoFit(str(exc)) from None
        if ann.__name__ == "File" and hasattr(ann, "to_tuple"):
            if isinstance(v, (bytes, bytearray)):
                return ann(payload=io.BytesIO(bytes(v)), file_name="f.bin", mime_type="application/octet-stream")
            raise NoFit("not bytes")
        if hasattr(ann, "from_dict"):
            if isinstance(v, dict):
                try:
                    return ann.from_dict(v)
                except Exception as exc:  # noqa: BLE001
                    raise NoFit(f"from_dict: {exc}") from None
            raise NoFit("not a dict")
        if ann is bool:
            if isinstance(v, bool):
                return v
            raise NoFit("not bool")
        if ann is int:
            if isinstance(v, int) and not isinstance(v, bool):
                return v
            raise NoFit("not int")
        if ann is float:
            if isinstance(v, (int, float)) and not isinstance(v, bool):
                return v
            raise NoFit("not number")
        if ann is str:
            if isinstance(v, str):
                return v
            raise NoFit("not str")
        if ann is bytes:
            if isinstance(v, (bytes, bytearray)):
                return bytes(v)
            raise NoFit("not bytes")
    return v


def _resolve(ann, ns, depth=0):
    """Evaluate forward references WITHOUT typing's ForwardRef cache (typing interns Union['A', 'B'] across all
    generated packages of one process, and a ForwardRef remembers the first class it was evaluated to)."""
    if depth > 12:
        return ann
    if isinstance(ann, str):
        try:
            return _resolve(eval(ann, ns), ns, depth + 1)  # noqa: S307
        except Exception:  # noqa: BLE001
            return typing.ForwardRef(ann) if ann.isidentifier() else ann
    if isinstance(ann, typing.ForwardRef):
        try:
            return _resolve(eval(ann.__forward_arg__, ns), ns, depth + 1)  # noqa: S307
        except Exception:  # noqa: BLE001
            return ann
    origin = typing.get_origin(ann)
    args = typing.get_args(ann)
    if origin is None or not args or origin is typing.Literal:
        return ann
    new = tuple(_resolve(a, ns, depth + 1) for a in args)
    try:
        if origin is typing.Union:
            return typing.Union[new]
        if origin in (list, set, frozenset, type):
            return origin[new[0]]
        if origin is tuple or origin is dict:
            return origin[new]
        import collections.abc
        if origin is collections.abc.Mapping:
            return typing.Mapping[new]
        return origin[new if len(new) > 1 else new[0]]
    except Exception:  # noqa: BLE001
        return ann


def hints(fn_or_cls):
    """Annotations of a generated function or class with forward references resolved against the defining module and,
    for names imported only under TYPE_CHECKING, against the sibling ``models`` package."""
    import sys
    raw = dict(getattr(fn_or_cls, "__annotations__", {}) or {})
    modname = getattr(fn_or_cls, "__module__", None)
    mod = sys.modules.get(modname) if modname else None
    ns = dict(vars(mod)) if mod is not None else {}
    if modname:
        top = modname.split(".")[0]
        models = sys.modules.get(top + ".models")
        if models is not None:
            for k, v in vars(models).items():
                ns.setdefault(k, v)
    if isinstance(fn_or_cls, type):
        ns.setdefault(fn_or_cls.__name__, fn_or_cls)
    return {k: _resolve(v, ns) for k, v in raw.items()}
