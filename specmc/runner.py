"""Generic check driver: enumerate -> execute on a worker pool -> aggregate -> triage against known
findings -> confirm in fresh processes -> evidence + verdict lines (DESIGN §2.1, §2.6, §2.7)."""
from __future__ import annotations

import collections
import hashlib
import importlib
import copy
import json
import multiprocessing as mp
import os
import random
import signal
import subprocess
import sys
import time
import traceback

from . import evidence, findings
from .explorer import canon

ROOT = os.path.dirname(os.path.dirname(os.path.abspath(__file__)))
REPLAY_DIR = os.environ.get("SPECMC_REPLAY_DIR") or os.path.join(ROOT, "replays")
NPROC = int(os.environ.get("SPECMC_PROCS", "0")) or min(16, os.cpu_count() or 4)
CASE_LIMIT_S = float(os.environ.get("SPECMC_CASE_LIMIT", "20"))
MAX_REPORT = 20


def load_check(check_id):
    if ROOT not in sys.path:
        sys.path.insert(0, ROOT)
    return importlib.import_module(f"checks.{check_id.lower()}")


# ----------------------------------------------------------------------------- worker side

_MOD = None


def _alarm(_sig, _frm):
    from .gen import CaseTimeout
    raise CaseTimeout()


def _init_worker(check_id):
    global _MOD
    _MOD = load_check(check_id)
    signal.signal(signal.SIGALRM, _alarm)
    if hasattr(_MOD, "init_worker"):
        _MOD.init_worker()


def run_one(mod, payload, limit=None, fn="run_case"):
    """Execute one case under the watchdog; never raises."""
    from .gen import CaseTimeout
    if limit is None:
        limit = getattr(mod, "CASE_LIMIT", CASE_LIMIT_S)
    t0 = time.time()
    try:
        signal.setitimer(signal.ITIMER_REAL, limit)
        try:
            res = getattr(mod, fn)(payload)
        finally:
            signal.setitimer(signal.ITIMER_REAL, 0)
    except CaseTimeout:
        res = {"timeout": True, "violations": [], "outcome": "TIMEOUT", "nontrivial": False}
        if getattr(mod, "OWNS_TIMEOUTS", False):
            what = mod.timeout_key(payload) if hasattr(mod, "timeout_key") else "case"
            res["violations"] = [{"oracle": "hang", "site": "-", "key": what, "detail": f"no termination within {limit} s: {what}"}]
            res["nontrivial"] = True
    except Exception as exc:  # harness-side error: never a violation  # noqa: BLE001
        res = {"harness_error": f"{type(exc).__name__}: {exc}\n{traceback.format_exc()[-1500:]}",
               "violations": [], "outcome": "HARNESS_ERROR", "nontrivial": False}
    res.setdefault("violations", [])
    res.setdefault("outcome", "ok")
    res.setdefault("nontrivial", True)
    res.setdefault("steps", 1)
    res["wall"] = time.time() - t0
    return res


_SEQ = [0]


def _work(task):
    idx, fn, payload = task
    _SEQ[0] += 1
    res = run_one(_MOD, payload, fn=fn)
    res["_where"] = (os.getpid(), _SEQ[0])       # which worker ran it, and as its how-manieth case (for history replays)
    return idx, res


# ----------------------------------------------------------------------------- parent side

class Ctx:
    """Handed to a check's ``drive`` function: a pool-backed map over JSON-able payloads."""

    def __init__(self, check_id, tier, seed, pool):
        self.check_id, self.tier, self.seed, self.pool = check_id, tier, seed, pool
        self.rng = random.Random(seed)

    def map(self, payloads, fn="run_case", shuffle=True):
        """Run ``fn(payload)`` for every payload on the pool; results in input order."""
        payloads = list(payloads)
        order = list(range(len(payloads)))
        if shuffle:
            self.rng.shuffle(order)       # dispatch order derived from VERIF_SEED; results must not depend on it
        out = [None] * len(payloads)
        tasks = [(i, fn, payloads[i]) for i in order]
        chunk = max(1, min(32, len(tasks) // (NPROC * 8) or 1))
        for i, res in self.pool.imap_unordered(_work, tasks, chunksize=chunk):
            out[i] = res
        return out


def signature(prop, v):
    return f"{prop}:{v['oracle']}:{v.get('site', '-')}:{v.get('key', '-')}"


def _write_replay(prop, tier, case, sig, v):
    d = os.path.join(REPLAY_DIR, prop)
    os.makedirs(d, exist_ok=True)
    h = hashlib.sha256((sig + canon(case["payload"])).encode()).hexdigest()[:12]
    path = os.path.join(d, f"{h}.json")
    with open(path, "w") as f:
        json.dump({"property": prop, "tier": tier, "labels": case.get("labels", []), "fn": case.get("fn", "run_case"),
                   "payload": case["payload"], "signature": sig, "oracle": v["oracle"], "site": v.get("site"),
                   "detail": v.get("detail", "")[:4000], "confirmed_runs": 0}, f, indent=1, default=str)
        f.write("\n")
    return path


def replay_file(path, as_json=False):
    """Re-run exactly one recorded case on the current tree, twice; print the verdict."""
    with open(path) as f:
        rec = json.load(f)
    if "history" in rec:
        return replay_history(path, as_json)
    prop = rec["property"]
    mod = load_check(prop)
    signal.signal(signal.SIGALRM, _alarm)
    if hasattr(mod, "init_worker"):
        mod.init_worker()
    runs = []
    for _ in range(2):
        factor = 3 if getattr(mod, "OWNS_TIMEOUTS", False) else 10     # a hang is re-run alone with a larger limit before it is believed
        res = run_one(mod, copy.deepcopy(rec["payload"]), limit=getattr(mod, "CASE_LIMIT", CASE_LIMIT_S) * factor, fn=rec.get("fn", "run_case"))
        runs.append(sorted({signature(prop, v) for v in res["violations"]})
                    + (["<timeout>"] if res.get("timeout") else [])
                    + (["<harness_error>"] if res.get("harness_error") else []))
        if res.get("harness_error") and not as_json:
            print(res["harness_error"])
    identical = runs[0] == runs[1]
    reproduced = identical and rec["signature"] in runs[0]
    if as_json:
        print(json.dumps({"identical": identical, "reproduced": reproduced, "signatures": runs[0]}))
    else:
        print(f"replay {path}")
        print(f"  labels: {rec.get('labels')}")
        print(f"  recorded signature: {rec['signature']}")
        print(f"  run 1: {runs[0]}\n  run 2: {runs[1]}")
        print(f"  identical observations: {identical}; violation reproduced: {reproduced}")
        if reproduced:
            print(f"VIOLATION property={prop} replay={path}")
    return 1 if reproduced else 0


def replay_history(path, as_json=False):
    """Re-run a recorded HISTORY (the cases one worker ran, in order) in this fresh process, then the case itself, once."""
    with open(path) as f:
        rec = json.load(f)
    prop = rec["property"]
    mod = load_check(prop)
    signal.signal(signal.SIGALRM, _alarm)
    if hasattr(mod, "init_worker"):
        mod.init_worker()
    for h in rec["history"]:
        run_one(mod, copy.deepcopy(h), fn=rec.get("fn", "run_case"))
    res = run_one(mod, copy.deepcopy(rec["payload"]), fn=rec.get("fn", "run_case"))
    sigs = sorted({signature(prop, v) for v in res["violations"]})
    reproduced = rec["signature"] in sigs
    if as_json:
        print(json.dumps({"reproduced": reproduced, "signatures": sigs}))
    else:
        print(f"history replay {path}: {len(rec['history'])} earlier cases, then the case")
        print(f"  recorded signature: {rec['signature']}\n  observed: {sigs}")
        if reproduced:
            print(f"VIOLATION property={prop} replay={path}")
    return 1 if reproduced else 0


def _confirm_history(path):
    """Two fresh subprocesses, each replaying the whole history once: both must show the violation."""
    env = dict(os.environ)
    env["SPECMC_NO_REEXEC"] = "1"
    ok = 0
    for _ in range(2):
        try:
            r = subprocess.run([sys.executable, "-m", "specmc", "replay", path, "--json"], cwd=ROOT, env=env, capture_output=True, text=True, timeout=3600)
            line = [x for x in r.stdout.splitlines() if x.startswith("{")][-1]
            ok += bool(json.loads(line).get("reproduced"))
        except Exception:  # noqa: BLE001
            pass
    return ok == 2


def _confirm(path):
    """Fresh subprocess, twice inside it (two executions, identical observations required)."""
    env = dict(os.environ)
    env["SPECMC_NO_REEXEC"] = "1"
    try:
        r = subprocess.run([sys.executable, "-m", "specmc", "replay", path, "--json"], cwd=ROOT, env=env,
                           capture_output=True, text=True, timeout=max(CASE_LIMIT_S * 25, 1800))
        line = [x for x in r.stdout.splitlines() if x.startswith("{")][-1]
        return json.loads(line)
    except Exception as exc:  # noqa: BLE001
        return {"identical": False, "reproduced": False, "error": f"{type(exc).__name__}: {exc}"}


def _sweep_scratch():
    """Remove the scratch directories of processes that no longer exist (terminated pool workers never reach their atexit hook)."""
    import shutil
    from . import gen
    base = gen.scratch_root().parent
    for d in base.glob("specmc-*"):
        try:
            pid = int(d.name.split("-", 1)[1])
        except ValueError:
            continue
        if pid == os.getpid():
            continue
        try:
            os.kill(pid, 0)
        except ProcessLookupError:
            shutil.rmtree(d, ignore_errors=True)
        except OSError:
            pass


def run_check(check_id, tier, seed):
    t0 = time.time()
    prop = check_id.upper()
    mod = load_check(prop)
    if hasattr(mod, "prepare"):
        mod.prepare(tier)
    pool = mp.get_context("fork").Pool(NPROC, initializer=_init_worker, initargs=(prop,))
    ctx = Ctx(prop, tier, seed, pool)
    info = {}
    try:
        if hasattr(mod, "drive"):
            cases, results, info = mod.drive(ctx)
        else:
            raw = list(mod.cases(tier))
            seen, cases = set(), []
            for c in raw:
                k = canon(c["payload"])
                if k in seen:
                    continue
                seen.add(k)
                cases.append(c)
            info = dict(getattr(mod.cases, "info", {}) or {})
            info["generated_cases"] = len(raw)
            results = ctx.map([c["payload"] for c in cases])
    finally:
        pool.terminate()
        pool.join()
        _sweep_scratch()

    # ---- aggregate
    known = findings.load(prop)
    by_sig, explained, unexplained = {}, {}, {}
    outcomes = collections.Counter()
    stats = collections.Counter()
    n_nontrivial = n_timeout = n_crash = transitions = units = 0
    harness_errors = []
    for case, res in zip(cases, results):
        outcomes[res["outcome"]] += 1
        transitions += int(res.get("steps", 1))
        units += int(res.get("units", 1))
        for k, v in (res.get("stats") or {}).items():
            stats[k] += v
        if res.get("nontrivial"):
            n_nontrivial += 1
        if res.get("timeout"):
            n_timeout += 1
        if res.get("skipped_crash"):
            n_crash += 1
        if res.get("harness_error"):
            harness_errors.append((case.get("labels"), res["harness_error"]))
        for v in res["violations"]:
            sig = signature(prop, v)
            by_sig[sig] = by_sig.get(sig, 0) + 1
            labels = case.get("labels", [])
            entry = findings.explain(known, sig, labels)
            if entry is not None:
                e = explained.setdefault(id(entry), (entry, {}))
                e[1][sig] = e[1].get(sig, 0) + 1
                continue
            slot = unexplained.setdefault(sig, {"count": 0, "witness": None, "v": None})
            slot["count"] += 1
            w = slot["witness"]
            if w is None or (len(labels), canon(labels)) < (len(w.get("labels", [])), canon(w.get("labels", []))):
                slot["witness"], slot["v"] = case, v

    # timeouts in a check that does not own hangs are C06's business, but they must not go unnoticed
    own_timeouts = getattr(mod, "OWNS_TIMEOUTS", False)

    # ---- confirm unexplained violations in fresh processes
    confirmed, unreproduced = [], []
    sigs = list(unexplained)[: MAX_REPORT * 2]
    paths = {s: _write_replay(prop, tier, unexplained[s]["witness"], s, unexplained[s]["v"]) for s in sigs}
    if sigs:
        from concurrent.futures import ThreadPoolExecutor
        with ThreadPoolExecutor(max_workers=min(8, len(sigs))) as ex:
            verdicts = list(ex.map(_confirm, [paths[s] for s in sigs]))
        for s, vd in zip(sigs, verdicts):
            if vd.get("reproduced"):
                confirmed.append(s)
                try:
                    with open(paths[s]) as f:
                        rec = json.load(f)
                    rec["confirmed_runs"] = 2
                    with open(paths[s], "w") as f:
                        json.dump(rec, f, indent=1, default=str)
                except OSError:
                    pass
            else:
                unreproduced.append((s, vd))
    # a violation that a fresh process does not show alone may depend on what the SAME process generated before it (state that leaks
    # from one generation into the next): replay the worker's history in fresh processes; reproduced twice => it is a violation
    history_note = {}
    if unreproduced and not hasattr(mod, "drive"):
        by_worker = {}
        for i, res in enumerate(results):
            w = res.get("_where")
            if w:
                by_worker.setdefault(w[0], []).append((w[1], i))
        still = []
        for n_done, (s_, vd) in enumerate(unreproduced):
            if n_done >= 3:
                still.append((s_, vd))
                continue
            wit = unexplained[s_]["witness"]
            idx = next((i for i, c in enumerate(cases) if c is wit), None)
            w = results[idx].get("_where") if idx is not None else None
            if not w:
                still.append((s_, vd))
                continue
            earlier = [i for seq, i in sorted(by_worker[w[0]]) if seq < w[1]]
            hp = paths[s_].replace(".json", ".history.json")
            with open(hp, "w") as f:
                json.dump({"property": prop, "tier": tier, "labels": wit.get("labels", []), "fn": wit.get("fn", "run_case"), "signature": s_,
                           "history": [cases[i]["payload"] for i in earlier], "payload": wit["payload"],
                           "note": "the violation depends on the cases this process ran before it"}, f, default=str)
            if _confirm_history(hp):
                confirmed.append(s_)
                paths[s_] = hp
                history_note[s_] = len(earlier)
            else:
                still.append((s_, vd))
        unreproduced = still

    # ---- verdict lines
    for entry, esigs in explained.values():
        n = sum(esigs.values())
        print(f"KNOWN-FINDING: property={prop} {entry['what_fails']} [{len(esigs)} signature(s), {n} case(s)]")
    for s in confirmed[:MAX_REPORT]:
        slot = unexplained[s]
        print(f"VIOLATION property={prop} replay={paths[s]}")
        print(f"    signature: {s}")
        print(f"    labels: {slot['witness'].get('labels')}  cases: {slot['count']}")
        print(f"    detail: {str(slot['v'].get('detail', ''))[:600]}")
        if s in history_note:
            print(f"    note: not shown by a fresh process running this case alone; reproduced twice by replaying the {history_note[s]} cases the same process ran before it (state leaks between generations)")
    if len(confirmed) > MAX_REPORT:
        print(f"... and {len(confirmed) - MAX_REPORT} more confirmed violation signatures")
    if len(unexplained) > len(sigs):
        print(f"... {len(unexplained) - len(sigs)} further unexplained signatures were not confirmed (report cap)")
    for s, vd in unreproduced:
        print(f"UNREPRODUCED (harness problem, not reported as violation): {s} {vd}")
    for lab, he in harness_errors[:5]:
        print(f"HARNESS-ERROR in case {lab}: {he[:1200]}")

    # ---- non-vacuity
    floor = getattr(mod, "FLOOR", 0.2)
    n_cases = len(cases)
    vacuous = n_cases == 0 or n_nontrivial < max(2, int(floor * n_cases))

    # ---- evidence
    sample_idx = sorted(set([0, n_cases // 3, (2 * n_cases) // 3, n_cases - 1])) if n_cases else []
    samples = [{"labels": cases[i].get("labels", []), "outcome": results[i]["outcome"],
                "payload": _clip(cases[i]["payload"])} for i in sample_idx]
    level = getattr(mod, "LEVEL", "model_checking")
    cov = {
        "states": int(info.get("states", max(units, n_cases))),
        "transitions": int(info.get("transitions", transitions)) or 1,
        "traces_validated_against_impl": int(info.get("traces", max(units, n_cases))),
        "evaluations": n_cases,
        "distinct_nontrivial": n_nontrivial,
        "rule": getattr(mod, "RULE", ""),
        "samples": samples,
        "exhaustive": bool(info.get("exhaustive", True)) and not info.get("cap_hit", False),
        "bounds": info.get("bounds", {}),
        "caps_hit": info.get("caps", []),
        "distinct_outcomes": len(outcomes),
        "outcome_histogram": dict(outcomes.most_common(40)),
        "counters": dict(stats),
        "skipped_crash": n_crash,
        "timeouts": n_timeout,
        "known_findings_matched": [{"what_fails": e["what_fails"], "signatures": len(s)} for e, s in explained.values()],
        "violation_signatures_total": len(by_sig),
        "unexplained_confirmed": len(confirmed),
        "unreproduced": len(unreproduced),
        "explanation": info.get("explanation", ""),
    }
    for k, v in (info.get("extra") or {}).items():
        cov[k] = v
    ev = {"property_id": prop, "tier": tier, "seed": seed, "level": level, "coverage": cov,
          "assumptions": list(getattr(mod, "ASSUMPTIONS", [])), "wall_s": round(time.time() - t0, 2),
          "violations": len(confirmed)}
    path = evidence.write(prop, ev)
    err = evidence.validate(path)

    print(f"[{prop}] tier={tier} seed={seed} cases={n_cases} nontrivial={n_nontrivial} transitions={cov['transitions']} "
          f"outcomes={len(outcomes)} signatures={len(by_sig)} known={sum(len(s) for _, s in explained.values())} "
          f"violations={len(confirmed)} crashes_skipped={n_crash} timeouts={n_timeout} wall={ev['wall_s']}s")
    if err:
        print(f"EVIDENCE-INVALID: {err}")
        return 2
    if confirmed:
        return 1
    if unreproduced or harness_errors or vacuous or (n_timeout and not own_timeouts and n_timeout > n_cases // 50):
        if vacuous:
            print(f"NON-VACUITY floor missed: {n_nontrivial} of {n_cases} cases reached the oracle")
        return 2
    return 0


def _clip(o, n=1500):
    s = canon(o)
    if len(s) <= n:
        return o
    return {"clipped": s[:n] + "..."}
