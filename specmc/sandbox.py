"""Import and execute a generated package straight from an in-memory {relpath: bytes} tree (DESIGN §2.3)."""
from __future__ import annotations

import builtins
import importlib
import importlib.abc
import importlib.util
import sys

ALLOWED_THIRD_PARTY = {"httpx", "attrs", "attr", "dateutil"}
_STDLIB = set(sys.stdlib_module_names)


class ImportGuardError(ImportError):
    pass


class TreeFinder(importlib.abc.MetaPathFinder, importlib.abc.Loader):
    def __init__(self, pkg, tree, guard=True):
        self.pkg, self.tree, self.guard = pkg, tree, guard
        self._builtins = None

    def _path(self, fullname):
        rel = fullname.split(".")[1:]
        base = "/".join(rel)
        init = (base + "/__init__.py") if base else "__init__.py"
        if init in self.tree:
            return init, True
        if base and base + ".py" in self.tree:
            return base + ".py", False
        return None, False

    def find_spec(self, fullname, path, target=None):
        if fullname != self.pkg and not fullname.startswith(self.pkg + "."):
            return None
        p, is_pkg = self._path(fullname)
        if p is None:
            return None
        return importlib.util.spec_from_loader(fullname, self, origin=f"<{self.pkg}>/{p}", is_package=is_pkg)

    def create_module(self, spec):
        return None

    def _guarded_builtins(self):
        if self._builtins is None:
            real_import = builtins.__import__

            def guarded_import(name, globals=None, locals=None, fromlist=(), level=0):
                if level == 0:
                    top = name.split(".")[0]
                    if top not in _STDLIB and top not in ALLOWED_THIRD_PARTY and top != self.pkg:
                        raise ImportGuardError(f"undeclared dependency imported by generated code: {name}")
                return real_import(name, globals, locals, fromlist, level)

            d = dict(vars(builtins))
            d["__import__"] = guarded_import
            self._builtins = d
        return self._builtins

    def exec_module(self, module):
        p, _ = self._path(module.__name__)
        code = compile(self.tree[p], f"<{self.pkg}>/{p}", "exec", dont_inherit=True)
        if self.guard:
            module.__dict__["__builtins__"] = self._guarded_builtins()
        exec(code, module.__dict__)


class Sandbox:
    """Context manager: ``with Sandbox(tree) as sb: sb.mod("models")``."""

    n = 0

    def __init__(self, tree, guard=True):
        Sandbox.n += 1
        self.pkg = f"gen_{Sandbox.n}"
        self.tree = tree
        self.finder = TreeFinder(self.pkg, tree, guard)

    def __enter__(self):
        sys.meta_path.insert(0, self.finder)
        return self

    def __exit__(self, *a):
        try:
            sys.meta_path.remove(self.finder)
        except ValueError:
            pass
        for m in [m for m in sys.modules if m == self.pkg or m.startswith(self.pkg + ".")]:
            del sys.modules[m]

    def mod(self, rel=""):
        return importlib.import_module(self.pkg + ("." + rel if rel else ""))

    def module_names(self):
        """Dotted names (relative to the package) of every module in the tree."""
        out = []
        for k in sorted(self.tree):
            if not k.endswith(".py"):
                continue
            parts = k[:-3].split("/")
            if parts[-1] == "__init__":
                parts = parts[:-1]
            out.append(".".join(parts))
        return out

    def import_all(self):
        """Import every module; return list of (module, exception) for failures."""
        failures = []
        for rel in self.module_names():
            try:
                self.mod(rel)
            except BaseException as exc:  # noqa: BLE001
                if type(exc).__name__ == "CaseTimeout":
                    raise
                failures.append((rel, exc))
        return failures
