"""C02 — model decode/encode is a lossless JSON round trip (DESIGN §C02).

Programs: every model generated from the kind algebra (atoms, arrays, ordered union pairs, nullable
notations, typed additionalProperties, recursive / mutually recursive / allOf-composed models), required
and optional.  Inputs: every RM-inst instance of each program (full product).  Oracle: reference model
"the same JSON comes back".
"""
from __future__ import annotations

import copy
import itertools

from specmc import gen
from specmc.refmodels import kinds as K
from specmc.sandbox import Sandbox

ID = "C02"
LEVEL = "model_checking"
RULE = ("programs = one document per (property kind, required?, literal_enums?) over the kind algebra "
        "(atoms, array(k), ordered union pairs, nullable notations, typed additionalProperties, two-property "
        "models, recursive/mutual/allOf shapes); plus model usage contexts (multipart / form / JSON body, both orders, response) x typed additionalProperties with undeclared keys, allOf families (parent, stricter child, sibling as targets, all 6 declaration orders, 7 child modes), nested unions whose later member would swallow an earlier member's values, 3.0.3 twins of the single-kind documents; inputs = full product of RM-inst instances per program; a case is "
        "non-trivial when the model class was generated and at least one instance was round-tripped; unions of two objects giving one required key different kinds (12 x 11 ordered pairs), builtin-named properties next to union / array / nullable siblings, properties declaring a default (16 kind/value pairs x required x declared first/last x sibling required) whose omission must survive the round trip")
FLOOR = 0.6
ASSUMPTIONS = ["RM-inst generates canonical forms only (ISO dates as Python prints them, lower-case UUIDs)",
               "oneOf is treated like anyOf (generated code validates neither exclusivity nor formats)"]


def _model_doc(props, required, comps=None, addl=None, version="3.1.0"):
    comps = comps if comps is not None else {}
    schema = {"type": "object", "properties": {}}
    for name, kind in props:
        schema["properties"][name] = K.schema(kind, comps)
    if required:
        schema["required"] = list(required)
    if addl is not None:
        schema["additionalProperties"] = addl
    comps["M"] = schema
    return gen.base_doc(comps, version=version)


def _instances(props, required, extras_ok=True, extra_value=5):
    """Full product over properties of (absent if optional) + every sample."""
    axes = []
    for name, kind in props:
        opts = [(name, c, v) for c, v in K.samples(kind)]
        if name not in required:
            opts = [(name, "absent", None)] + opts
        axes.append(opts)
    out = []
    for combo in itertools.product(*axes):
        inst, classes = {}, []
        for name, c, v in combo:
            classes.append(c)
            if c != "absent":
                inst[name] = copy.deepcopy(v)
        out.append({"cls": "+".join(classes), "value": inst})
    if extras_ok and out:
        e = copy.deepcopy(out[-1]["value"])
        e["extra_1"] = extra_value
        out.append({"cls": out[-1]["cls"] + "+extra", "value": e})
    return out


def _single_cases(tier):
    atoms = K.ATOMS
    kinds = list(atoms)
    kinds += [["array", k] for k in atoms]
    kinds += [["union", a, b] for a in atoms for b in atoms if a != b]
    for n in K.NULL_NOTATIONS:
        for k in atoms:
            if k in ("null", "any"):
                continue
            if k in ("enum_str", "enum_int", "const") and n in ("t30", "t31"):
                continue      # ambiguous: enum/const flagged nullable without listing null (DESIGN §2.4)
            kinds.append(["nullable", k, n])
    kinds += [["nullable", "enum_str", "enumnull"], ["nullable", "enum_int", "enumnull"]]
    kinds += [["array", ["array", k]] for k in atoms]
    # COUNTS: unions of ONE member (a one-member oneOf), alone and as array items; unions of three members
    kinds += [["union", k] for k in atoms if k != "null"] + [["array", ["union", k]] for k in atoms if k != "null"]      # (a union of null alone is the null type: C11 knows it)
    kinds += [["union", a, b, c] for a, b, c in (("date", "int", "model_ref"), ("model_ref", "date", "int"), ("int", "model_ref", "date"), ("enum_str", "uuid", "bool"), ("uuid", "enum_str", "null"))]
    if tier == "thorough":
        kinds += [["array", ["array", ["array", k]]] for k in ("date", "uuid", "model_ref", "enum_str", "int")]
        kinds += [["array", ["union", a, b]] for a in atoms for b in atoms if a < b]
        kinds += [["union", ["array", a], b] for a in atoms for b in atoms]
        kinds += [["nullable", ["array", k], n] for k in atoms for n in ("t30", "t31", "oneof")]
        kinds += [["array", ["nullable", k, "t31"]] for k in K.SCALARS]
        kinds += [["union", a, b, c] for a in K.SCALARS for b in ("model_ref", "null", "any") for c in
                  ("enum_ref", "inline_object", "date") if len({a, b, c}) == 3]
    for kind in kinds:
        for req in (True, False):
            for lit in ((False, True) if _has_enum(kind) else (False,)):
                version = "3.0.3" if _uses_30(kind) else "3.1.0"
                doc = _model_doc([("p", kind)], ["p"] if req else [], version=version)
                labels = [f"kind={K.kstr(kind)}", "req" if req else "opt"] + (["literal_enums"] if lit else [])
                yield {"labels": labels, "payload": {
                    "doc": doc, "options": {"literal_enums": lit},
                    "targets": [{"component": "M", "key": f"{K.kstr(kind)}/{'req' if req else 'opt'}",
                                 "props": {"p": [K.kstr(kind), req]},
                                 "instances": _instances([("p", kind)], ["p"] if req else [])}]}}
                d30 = gen.as_30(doc)
                if d30 is not None and not lit:
                    yield {"labels": labels + ["v=3.0.3"], "payload": {
                        "doc": d30, "options": {"literal_enums": lit},
                        "targets": [{"component": "M", "key": f"{K.kstr(kind)}/{'req' if req else 'opt'}",
                                     "props": {"p": [K.kstr(kind), req]},
                                     "instances": _instances([("p", kind)], ["p"] if req else [])}]}}


def _has_enum(kind):
    return "enum" in K.kstr(kind) or "const" in K.kstr(kind)


def _uses_30(kind):
    return "[t30]" in K.kstr(kind)


def _addl_cases(tier):
    # typed / untyped / forbidden additionalProperties next to one declared property
    composite = [["array", k] for k in K.ATOMS] + [["union", "model_ref", "int"], ["union", "int", "model_ref"], ["union", "date", "model_ref"], ["nullable", "model_ref", "oneof"],
                                                  ["nullable", "date", "t31"], ["array", ["array", "model_ref"]], ["array", ["union", "model_ref", "int"]]]
    for k in list(K.ATOMS) + composite:
        comps = {}
        addl = K.schema(k, comps)
        doc = _model_doc([("p", "int")], [], comps=comps, addl=addl)
        insts = []
        vals = [v for _c, v in K.samples(k)]
        insts.append({"cls": "absent", "value": {}})
        insts.append({"cls": "value", "value": {"p": 1}})
        for i, v in enumerate(vals[:3]):
            insts.append({"cls": f"value+extra{i}", "value": {"p": 1, "k1": copy.deepcopy(v)}})
        if vals:
            insts.append({"cls": "absent+extra2", "value": {"k1": copy.deepcopy(vals[0]), "k 2": copy.deepcopy(vals[-1])}})
        yield {"labels": [f"addl={K.kstr(k)}"], "payload": {"doc": doc, "options": {}, "targets": [
            {"component": "M", "key": f"addl({K.kstr(k)})/opt", "instances": insts}]}}
        if not isinstance(k, str):
            # the same value type on a model that declares NO property of its own (nothing else imports the member classes)
            doc2 = _model_doc([], [], comps=copy.deepcopy(comps), addl=copy.deepcopy(addl))
            yield {"labels": [f"addl={K.kstr(k)}", "only-additional"], "payload": {"doc": doc2, "options": {}, "targets": [
                {"component": "M", "key": f"addl({K.kstr(k)})/only", "instances": [{"cls": i["cls"], "value": {kk: vv for kk, vv in i["value"].items() if kk != "p"}} for i in insts]}]}}
    for addl, name in ((True, "true"), (False, "false"), ({}, "empty")):
        doc = _model_doc([("p", "str")], ["p"], addl=addl)
        insts = _instances([("p", "str")], ["p"], extras_ok=addl is not False, extra_value={"n": [1, None]})
        yield {"labels": [f"addl={name}"], "payload": {"doc": doc, "options": {}, "targets": [
            {"component": "M", "key": f"addl-{name}/req", "instances": insts}]}}


def _pair_cases(tier):
    # two properties in one model: presence patterns interact through the shared to_dict/from_dict body
    pool = ["str", "date", "enum_str", "model_ref", ["array", "model_ref"], ["array", "int"], ["union", "int", "model_ref"],
            ["nullable", "str", "t31"], "any", "const"]
    if tier == "thorough":
        pool = pool + ["datetime", "uuid", "enum_ref", "inline_object", ["array", "date"], ["nullable", "model_ref", "oneof"],
                       ["union", "date", "str"], "null"]
    for a, b in itertools.product(pool, pool):
        for reqs in ([], ["a"], ["a", "b"]):
            doc = _model_doc([("a", a), ("b", b)], reqs)
            insts = _instances([("a", a), ("b", b)], reqs)
            if tier == "quick" and len(insts) > 30:
                insts = insts[:30]
            yield {"labels": [f"a={K.kstr(a)}", f"b={K.kstr(b)}", "req=" + "".join(reqs)], "payload": {
                "doc": doc, "options": {}, "targets": [
                    {"component": "M", "key": f"pair({K.kstr(a)};{K.kstr(b)})/{''.join(reqs) or 'none'}",
                     "props": {"a": [K.kstr(a), "a" in reqs], "b": [K.kstr(b), "b" in reqs]}, "instances": insts}]}}


def _shape_cases(tier):
    ref = lambda n: {"$ref": f"#/components/schemas/{n}"}  # noqa: E731
    # self-recursive via property / array / union / additionalProperties
    rec_insts = [{"cls": "leaf", "value": {"v": 1}}, {"cls": "nest1", "value": {"v": 1, "next": {"v": 2}}},
                 {"cls": "nest2", "value": {"v": 1, "next": {"v": 2, "next": {}}}}]
    yield _shape("rec-prop", {"M": {"type": "object", "properties": {"v": {"type": "integer"}, "next": ref("M")}}}, rec_insts)
    arr_insts = [{"cls": "leaf", "value": {"v": 1}}, {"cls": "empty", "value": {"kids": []}},
                 {"cls": "nest", "value": {"v": 1, "kids": [{"v": 2}, {"kids": [{}]}]}}]
    yield _shape("rec-array", {"M": {"type": "object", "properties": {"v": {"type": "integer"},
                                                                       "kids": {"type": "array", "items": ref("M")}}}}, arr_insts)
    uni_insts = [{"cls": "int", "value": {"u": 3}}, {"cls": "self", "value": {"u": {"u": 4}}}, {"cls": "absent", "value": {}}]
    yield _shape("rec-union", {"M": {"type": "object", "properties": {"u": {"oneOf": [{"type": "integer"}, ref("M")]}}}}, uni_insts)
    ad_insts = [{"cls": "empty", "value": {}}, {"cls": "nest", "value": {"k": {"j": {}}}}]
    yield _shape("rec-addl", {"M": {"type": "object", "additionalProperties": ref("M")}}, ad_insts)
    # mutual recursion, both declaration orders
    for order in (("M", "B"), ("B", "M")):
        comps = {"M": {"type": "object", "properties": {"b": ref("B"), "n": {"type": "integer"}}},
                 "B": {"type": "object", "properties": {"m": ref("M"), "day": {"type": "string", "format": "date"}}}}
        comps = {k: comps[k] for k in order}
        insts = [{"cls": "leaf", "value": {"n": 1}}, {"cls": "deep", "value": {"b": {"day": "2020-01-02", "m": {"n": 2, "b": {}}}}}]
        yield _shape(f"mutual-{order[0]}first", comps, insts)
    # allOf composition: parent before / after child; inline member; chain
    parent = {"type": "object", "required": ["id"], "properties": {"id": {"type": "integer"}, "when": {"type": "string", "format": "date"}}}
    child_members = [ref("P"), {"type": "object", "properties": {"tag": {"type": "string", "enum": ["a", "b"]}}}]
    insts = [{"cls": "min", "value": {"id": 1}}, {"cls": "full", "value": {"id": 1, "when": "2020-01-02", "tag": "a"}},
             {"cls": "extra", "value": {"id": 2, "tag": "b", "zz": None}}]
    yield _shape("allof-parent-first", {"P": parent, "M": {"allOf": child_members}}, insts)
    yield _shape("allof-child-first", {"M": {"allOf": child_members}, "P": parent}, insts)
    yield _shape("allof-chain", {"M": {"allOf": [ref("Mid")]}, "Mid": {"allOf": [ref("P"), {"type": "object", "properties": {
        "tag": {"type": "string", "enum": ["a", "b"]}}}]}, "P": parent}, insts) if False else _shape(
        "allof-chain", {"M": {"allOf": [ref("Mid"), {"type": "object", "properties": {"more": {"type": "boolean"}}}]},
                        "Mid": {"allOf": child_members}, "P": parent},
        insts + [{"cls": "more", "value": {"id": 3, "more": False}}])
    # nested inline objects and arrays of inline objects
    nested = {"M": {"type": "object", "properties": {"inner": {"type": "object", "required": ["x"], "properties": {
        "x": {"type": "string", "format": "uuid"}, "deep": {"type": "object", "properties": {"y": {"type": "number"}}}}},
        "rows": {"type": "array", "items": {"type": "object", "properties": {"r": {"type": "string", "format": "date-time"}}}}}}}
    ninsts = [{"cls": "absent", "value": {}}, {"cls": "inner", "value": {"inner": {"x": K.UUID1}}},
              {"cls": "deep", "value": {"inner": {"x": K.UUID2, "deep": {"y": 1.5}, "q": 1}, "rows": [{"r": "2020-01-02T03:04:05+00:00"}, {}]}}]
    yield _shape("nested-inline", nested, ninsts)
    # property names that need pythonisation keep their document spelling on the wire
    odd = {"M": {"type": "object", "required": ["first-name"], "properties": {
        "first-name": {"type": "string"}, "Last Name": {"type": "string"}, "class": {"type": "integer"}, "1st": {"type": "boolean"},
        "_private": {"type": "string", "format": "date"}, "camelCase": {"type": "array", "items": {"type": "integer"}}}}}
    # ... names holding quote characters, required and optional, in a closed model (an undeclared key is not absorbed)
    q1, q2, q3 = 'size 15"', '"note"', "it's"
    quoted = {"M": {"type": "object", "required": [q1, q3], "additionalProperties": False, "properties": {
        q1: {"type": "integer"}, q2: {"type": "string"}, q3: {"type": "string"}}}}
    yield _shape("quoted-names", quoted, [{"cls": "min", "value": {q1: 1, q3: "x"}}, {"cls": "full", "value": {q1: 2, q2: "n", q3: "y"}}])
    oinsts = [{"cls": "min", "value": {"first-name": "a"}},
              {"cls": "full", "value": {"first-name": "a", "Last Name": "b", "class": 1, "1st": True, "_private": "2020-01-02", "camelCase": [1, 2]}}]
    yield _shape("odd-names", odd, oinsts)


def _shape(name, comps, insts):
    return {"labels": [f"shape={name}"], "payload": {"doc": gen.base_doc(comps), "options": {}, "targets": [
        {"component": "M", "key": f"shape:{name}", "instances": insts}]}}


def _family_cases(tier):
    """allOf families: a parent, a child that re-states inherited properties more strictly, and a sibling that only inherits —
    every class of the family is a target (a child must not change what its parent or sibling accept), all declaration orders."""
    ref = lambda n: {"$ref": f"#/components/schemas/{n}"}  # noqa: E731
    parent = {"type": "object", "required": ["id"], "properties": {"id": {"type": "integer"}, "when": {"type": "string", "format": "date"},
                                                                    "label": {"type": "string"}}}
    sib = {"allOf": [ref("P"), {"type": "object", "properties": {"s": {"type": "string"}}}]}
    modes = {
        "plain": ({"allOf": [ref("P"), {"type": "object", "properties": {"tag": {"type": "string", "enum": ["a", "b"]}}}]}, []),
        "requires-top": ({"allOf": [ref("P")], "required": ["label"]}, ["label"]),
        "requires-inline": ({"allOf": [ref("P"), {"required": ["label", "when"]}]}, ["label", "when"]),
        "redeclares-required": ({"allOf": [ref("P"), {"type": "object", "required": ["when"], "properties": {"when": {"type": "string", "format": "date"}}}]}, ["when"]),
        "redeclares-default": ({"allOf": [ref("P"), {"type": "object", "properties": {"label": {"type": "string", "default": "x"}}}]}, ["label"]),
        "narrows": ({"allOf": [ref("P"), {"type": "object", "properties": {"label": {"type": "string", "enum": ["a", "b"]}}}]}, []),
        "chain": ({"allOf": [ref("S"), {"type": "object", "required": ["s", "label"], "properties": {"s": {"type": "string"}}}]}, ["s", "label"]),
    }
    pprops = [("id", "int"), ("when", "date"), ("label", "str")]
    for mode, (child, must) in modes.items():
        for order in itertools.permutations(("P", "M", "S")):
            comps = {"P": parent, "M": child, "S": sib}
            comps = copy.deepcopy({k: comps[k] for k in order})
            label_vals = "enum" if mode == "narrows" else "str"
            m_insts = [i for i in _family_insts(pprops + ([("s", "str")] if mode == "chain" else []), ["id"] + must)]
            if label_vals == "enum":
                for i in m_insts:
                    if "label" in i["value"]:
                        i["value"]["label"] = "a"
            targets = [{"component": "P", "key": f"family:{mode}/parent", "instances": _family_insts(pprops, ["id"])},
                       {"component": "S", "key": f"family:{mode}/sibling", "instances": _family_insts(pprops + [("s", "str")], ["id"])},
                       {"component": "M", "key": f"family:{mode}/child", "instances": m_insts}]
            yield {"labels": [f"family={mode}", "order=" + "".join(order)],
                   "payload": {"doc": gen.base_doc(comps), "options": {}, "targets": targets}}


def _family_insts(props, required):
    out = []
    for combo in itertools.product(*[([True] if n in required else [False, True]) for n, _k in props]):
        v = {n: copy.deepcopy(K.samples(k)[0][1]) for (n, k), on in zip(props, combo) if on}
        out.append({"cls": "+".join(n for (n, _k), on in zip(props, combo) if on) or "none", "value": v})
    return out


def _nested_union_cases(tier):
    """Unions whose members are themselves unions (inline or by reference): flattening must keep the members' order, which is
    observable when a later member would also accept (lossily) what an earlier one decodes exactly."""
    ref = lambda n: {"$ref": f"#/components/schemas/{n}"}  # noqa: E731
    cat = {"type": "object", "required": ["meow"], "properties": {"meow": {"type": "integer"}}}
    dog = {"type": "object", "required": ["bark"], "properties": {"bark": {"type": "string"}}}
    # Loose accepts any object (no required keys) and keeps unknown keys; Closed has additionalProperties: false and no
    # required key, so the generated decoder accepts any object for it: it must stay AFTER the members listed before it.
    loose = {"type": "object", "properties": {"note": {"type": "string"}}}
    closed = {"type": "object", "additionalProperties": False, "properties": {"note": {"type": "string"}}}
    base = {"Cat": cat, "Dog": dog, "Loose": loose, "Closed": closed, "Pet": {"oneOf": [ref("Cat"), ref("Dog")]},
            "PetA": {"anyOf": [ref("Cat"), ref("Dog")]}}
    values = [("cat", {"meow": 1}), ("dog", {"bark": "w"}), ("note", {"note": "n"}), ("int", 7), ("str", "s")]
    forms = {
        "ref-union-then-closed": ([ref("Pet"), ref("Closed")], ["cat", "dog", "note"]),
        "ref-anyof-then-closed": ([ref("PetA"), ref("Closed")], ["cat", "dog", "note"]),
        "inline-union-then-closed": ([{"oneOf": [ref("Cat"), ref("Dog")]}, ref("Closed")], ["cat", "dog", "note"]),
        "inline-anyof-then-closed": ([{"anyOf": [ref("Cat"), ref("Dog")]}, ref("Closed")], ["cat", "dog", "note"]),
        "ref-union-then-loose": ([ref("Pet"), ref("Loose")], ["cat", "dog", "note"]),
        "int-then-ref-union-then-closed": ([{"type": "integer"}, ref("Pet"), ref("Closed")], ["int", "cat", "dog", "note"]),
        "ref-union-then-str-then-closed": ([ref("Pet"), {"type": "string"}, ref("Closed")], ["cat", "dog", "str", "note"]),
        "double-nesting-then-closed": ([{"oneOf": [{"oneOf": [ref("Cat")]}, ref("Dog")]}, ref("Closed")], ["cat", "dog", "note"]),
        "two-ref-unions": ([ref("Pet"), {"oneOf": [{"type": "integer"}, ref("Closed")]}], ["cat", "dog", "int", "note"]),
    }
    vals = dict(values)
    for name, (members, ok) in forms.items():
        for comb in ("oneOf", "anyOf"):
            for where in ("prop", "items"):
                sch = {comb: copy.deepcopy(members)}
                prop = sch if where == "prop" else {"type": "array", "items": sch}
                comps = copy.deepcopy(base)
                comps["M"] = {"type": "object", "properties": {"p": prop}}
                insts = [{"cls": "absent", "value": {}}]
                for v in ok:
                    insts.append({"cls": v, "value": {"p": copy.deepcopy(vals[v]) if where == "prop" else [copy.deepcopy(vals[v])]}})
                if where == "items":
                    insts.append({"cls": "all", "value": {"p": [copy.deepcopy(vals[v]) for v in ok]}})
                yield {"labels": [f"nested-union={name}", comb, where], "payload": {"doc": gen.base_doc(comps), "options": {}, "targets": [
                    {"component": "M", "key": f"nested-union:{name}/{comb}/{where}", "instances": insts}]}}


def _usage_cases(tier):
    """The model is ALSO the body of an operation (multipart / form / JSON, or JSON in one operation and multipart in another):
    how a class is used must not change its plain JSON round trip (undeclared keys included)."""
    ok = {"204": {"description": "n"}}
    mref = {"$ref": "#/components/schemas/M"}
    body = lambda m: {"required": True, "content": {m: {"schema": mref}}}  # noqa: E731
    usages = {
        "multipart": {"/b": {"post": {"operationId": "sendM", "requestBody": body("multipart/form-data"), "responses": ok}}},
        "form": {"/b": {"post": {"operationId": "sendF", "requestBody": body("application/x-www-form-urlencoded"), "responses": ok}}},
        "json-then-multipart": {"/j": {"post": {"operationId": "sendJ", "requestBody": body("application/json"), "responses": ok}},
                                "/m": {"post": {"operationId": "sendM", "requestBody": body("multipart/form-data"), "responses": ok}}},
        "multipart-then-json": {"/m": {"post": {"operationId": "sendM", "requestBody": body("multipart/form-data"), "responses": ok}},
                                "/j": {"post": {"operationId": "sendJ", "requestBody": body("application/json"), "responses": ok}}},
        "response": {"/r": {"get": {"operationId": "getM", "responses": {"200": {"description": "d", "content": {"application/json": {"schema": mref}}}}}}},
    }
    kinds = list(K.ATOMS) + [["array", "str"], ["array", "model_ref"], ["union", "int", "str"], ["nullable", "str", "t31"]]
    for kind in kinds:
        for addl, aname in ((None, "default"), ({"type": "string"}, "typed-str"), ({"$ref": "#/components/schemas/Ref"}, "typed-model")):
            for usage, paths in usages.items():
                comps = {}
                if aname == "typed-model":
                    K.schema("model_ref", comps)
                doc = _model_doc([("p", kind), ("q", "int")], ["q"], comps=comps, addl=copy.deepcopy(addl))
                doc["paths"] = copy.deepcopy(paths)
                extra = {"default": {"n": [1, None]}, "typed-str": "ev", "typed-model": {"z": 5}}[aname]
                insts = _instances([("p", kind), ("q", "int")], ["q"], extras_ok=True, extra_value=extra)
                if len(insts) > 12:
                    insts = insts[:11] + insts[-1:]
                yield {"labels": [f"kind={K.kstr(kind)}", f"addl={aname}", f"used-as={usage}"], "payload": {"doc": doc, "options": {}, "targets": [
                    {"component": "M", "key": f"usage:{usage}/{K.kstr(kind)}/{aname}", "props": {"p": [K.kstr(kind), False], "q": ["int", True]}, "instances": insts}]}}


def _discriminated_union_cases(tier):
    """A union of two object schemas that give the SAME required property different kinds: an instance of the later member makes the
    earlier member's decoder fail in whatever way that kind fails (wrong JSON type, bad format, unknown member ...)."""
    kinds = ["str", "int", "num", "bool", "date", "datetime", "uuid", "enum_str", "enum_int", "model_ref", ["array", "int"], ["array", "date"]]
    for k1, k2 in itertools.permutations(kinds, 2):
        comps = {}
        comps["First"] = {"type": "object", "required": ["id"], "properties": {"id": K.schema(k1, comps), "a": {"type": "string"}}}
        comps["Second"] = {"type": "object", "required": ["id"], "properties": {"id": K.schema(k2, comps), "b": {"type": "integer"}}}
        comps["M"] = {"type": "object", "properties": {"link": {"oneOf": [{"$ref": "#/components/schemas/First"}, {"$ref": "#/components/schemas/Second"}]},
                                                       "links": {"type": "array", "items": {"anyOf": [{"$ref": "#/components/schemas/First"}, {"$ref": "#/components/schemas/Second"}]}}}}
        pick = lambda k: next((v for _c, v in K.samples(k) if v not in ([], {}, "", 0)), K.samples(k)[0][1])  # noqa: E731  (a non-degenerate sample)
        v1, v2 = pick(k1), pick(k2)
        insts = [{"cls": "second", "value": {"link": {"id": copy.deepcopy(v2), "b": 1}, "links": []}},
                 {"cls": "first", "value": {"link": {"id": copy.deepcopy(v1), "a": "x"}, "links": []}},
                 {"cls": "both-in-array", "value": {"links": [{"id": copy.deepcopy(v2), "b": 2}, {"id": copy.deepcopy(v1), "a": "y"}, {"id": copy.deepcopy(v2)}]}}]
        yield {"labels": [f"union-members-share-key", f"first={K.kstr(k1)}", f"second={K.kstr(k2)}"], "payload": {"doc": gen.base_doc(comps), "options": {}, "targets": [
            {"component": "M", "key": f"shared-key-union/{K.kstr(k1)}|{K.kstr(k2)}", "instances": insts}]}}


BUILTIN_NAMES = ["object", "type", "list", "dict", "str", "int", "float", "bool", "bytes", "id", "input", "format", "filter", "property", "len", "set", "tuple", "print"]


def _builtin_name_cases(tier):
    """Properties named like Python builtins that the generated code itself spells (annotations such as `data: object`, `list[...]`,
    `dict[...]`), next to a union / array / model sibling declared before or after them."""
    siblings = {"union": {"oneOf": [{"type": "integer"}, {"type": "string", "format": "date"}]}, "array-model": None, "nullable": {"type": ["string", "null"]}}
    for name in BUILTIN_NAMES:
        for sib, ssch in siblings.items():
            for order in ("sibling-first", "sibling-last"):
                for req in ([], [name], ["sib"]):
                    comps = {}
                    ssch_ = ssch if ssch is not None else {"type": "array", "items": K.schema("model_ref", comps)}
                    props = {"sib": copy.deepcopy(ssch_), name: {"type": "integer"}} if order == "sibling-first" else {name: {"type": "integer"}, "sib": copy.deepcopy(ssch_)}
                    comps["M"] = {"type": "object", "properties": props, **({"required": req} if req else {})}
                    sval = {"union": "2020-01-02", "array-model": [{"z": 1}], "nullable": None}[sib]
                    insts = [{"cls": "both", "value": {name: 5, "sib": copy.deepcopy(sval)}}, {"cls": "both+extra", "value": {name: 0, "sib": copy.deepcopy(sval), "extra_1": 1}}]
                    if not req:
                        insts.append({"cls": "none", "value": {}})
                    yield {"labels": [f"builtin-name={name}", f"sibling={sib}", order, "req=" + ",".join(req)], "payload": {"doc": gen.base_doc(comps), "options": {}, "targets": [
                        {"component": "M", "key": f"builtin-name/{sib}", "instances": insts}]}}


DEFAULTED = [("str", "dflt"), ("str", ""), ("int", 3), ("int", 0), ("num", 1.5), ("bool", True), ("bool", False), ("date", "2020-01-02"),
             ("datetime", "2020-01-02T03:04:05+00:00"), ("uuid", K.UUID2), ("enum_str", "b"), ("enum_int", -2), ("enum_ref", "y"),
             (["nullable", "str", "t31"], "dflt"), (["nullable", "int", "t30"], 3), (["array", "int"], [1, 2])]


def _default_cases(tier):
    """Properties that declare a `default`: a valid instance that omits them (or spells them out) re-encodes to itself."""
    for kind, dflt in DEFAULTED:
        for req in (False, True):
            for where in ("first", "last"):
                for other_req in (True, False):
                    comps = {}
                    sch = K.schema(kind, comps)
                    if "$ref" in sch:
                        sch = {"allOf": [sch]}
                    sch = dict(sch, default=dflt)
                    other = ("o", "int")
                    props = [("p", kind), other] if where == "first" else [other, ("p", kind)]
                    required = [n for n, r in (("p", req), ("o", other_req)) if r]
                    version = "3.0.3" if _uses_30(kind) else "3.1.0"
                    doc = _model_doc(props, required, comps=comps, version=version)
                    doc["components"]["schemas"]["M"]["properties"]["p"] = sch
                    key = f"default/{K.kstr(kind)}/{'req' if req else 'opt'}"
                    yield {"labels": [f"kind={K.kstr(kind)}", f"default={dflt!r}", "req" if req else "opt", f"declared-{where}",
                                      "other-req" if other_req else "other-opt"],
                           "payload": {"doc": doc, "options": {}, "targets": [{"component": "M", "key": key,
                                       "props": {"p": [K.kstr(kind), req], "o": ["int", other_req]},
                                       "instances": _instances(props, required)}]}}


def _twin_cases(tier):
    """Two places of one model that share ONE generated class (inline enums with the same title and members, the same referenced
    enum / model, directly or as array items / union member) x requiredness of each place x declaration order x every presence
    pattern: what one place is (required, nullable) must not travel to the other through the shared class."""
    ref = lambda n: {"$ref": f"#/components/schemas/{n}"}  # noqa: E731
    shared = {
        "titled-enum": (lambda: {"type": "string", "title": "Country", "enum": ["de", "fr"]}, "de", {}),
        "titled-int-enum": (lambda: {"type": "integer", "title": "Level", "enum": [1, 2]}, 2, {}),
        "enum-ref": (lambda: ref("Kind"), "x", {"Kind": {"type": "string", "enum": ["x", "y"]}}),
        "model-ref": (lambda: ref("Ref"), {"z": 1}, {"Ref": {"type": "object", "properties": {"z": {"type": "integer"}}}}),
    }
    wraps = {"plain": lambda sch, v: (sch, v), "array": lambda sch, v: ({"type": "array", "items": sch}, [v]),
             "union": lambda sch, v: ({"oneOf": [sch, {"type": "integer", "maximum": -5}]}, v),
             "nullable": lambda sch, v: ({"oneOf": [sch, {"type": "null"}]}, v)}
    for sname, (mk, val, comps0) in shared.items():
        for w1, w2 in itertools.product(wraps, repeat=2):
            if tier == "quick" and w1 != "plain" and w2 != "plain":
                continue
            for reqs in ([], ["first"], ["second"], ["first", "second"]):
                s1, v1 = wraps[w1](mk(), val)
                s2, v2 = wraps[w2](mk(), val)
                comps = copy.deepcopy(comps0)
                comps["M"] = {"type": "object", "properties": {"first": s1, "second": s2}, **({"required": reqs} if reqs else {})}
                insts = []
                for has1, has2 in itertools.product((True, False), repeat=2):
                    if (not has1 and "first" in reqs) or (not has2 and "second" in reqs):
                        continue
                    value = {**({"first": copy.deepcopy(v1)} if has1 else {}), **({"second": copy.deepcopy(v2)} if has2 else {})}
                    insts.append({"cls": ("first" if has1 else "") + "+" + ("second" if has2 else "") if (has1 or has2) else "absent", "value": value})
                for nm, w in (("first", w1), ("second", w2)):
                    if w == "nullable":
                        insts.append({"cls": f"{nm}-null", "value": {**{k: copy.deepcopy(v) for k, v in (("first", v1), ("second", v2)) if k in reqs}, nm: None}})
                yield {"labels": [f"twin={sname}", f"first={w1}", f"second={w2}", "req=" + ",".join(reqs)], "payload": {
                    "doc": gen.base_doc(comps), "options": {}, "targets": [
                        {"component": "M", "key": f"twin:{sname}/{w1}+{w2}/{'+'.join(reqs) or 'none'}", "instances": insts}]}}


def _related_name_cases(tier):
    """The model's class name is a suffix / prefix / case variant of the class it refers to (Item -> OrderItem, Item -> ItemOrder),
    the reference being a property, array items, a nullable union member or typed additionalProperties; the referenced class is a
    model or an enum; instances populate the reference."""
    ref = lambda n: {"$ref": f"#/components/schemas/{n}"}  # noqa: E731
    for other in ("OrderItem", "ItemOrder", "Items", "XItem", "item_", "ITEM2"):
        for okind in ("model", "enum"):
            osch, oval = ({"type": "object", "properties": {"z": {"type": "integer"}}}, {"z": 1}) if okind == "model" else ({"type": "string", "enum": ["x", "y"]}, "y")
            for via in ("prop", "array", "nullable", "addl", "union"):
                if via == "prop":
                    item, insts = {"type": "object", "properties": {"o": ref(other)}}, [{"o": oval}, {}]
                elif via == "array":
                    item, insts = {"type": "object", "properties": {"o": {"type": "array", "items": ref(other)}}}, [{"o": [oval, oval]}, {"o": []}, {}]
                elif via == "nullable":
                    item, insts = {"type": "object", "properties": {"o": {"oneOf": [ref(other), {"type": "null"}]}}}, [{"o": oval}, {"o": None}, {}]
                elif via == "union":
                    item, insts = {"type": "object", "properties": {"o": {"oneOf": [ref(other), {"type": "integer"}]}}}, [{"o": oval}, {"o": 3}, {}]
                else:
                    item, insts = {"type": "object", "additionalProperties": ref(other)}, [{"k": oval, "j": oval}, {}]
                for order in ("item-first", "item-last"):
                    comps = {"Item": item, other: osch} if order == "item-first" else {other: osch, "Item": item}
                    yield {"labels": [f"related-name={other}", f"kind={okind}", f"via={via}", order], "payload": {
                        "doc": gen.base_doc(comps), "options": {}, "targets": [
                            {"component": "Item", "key": f"related-name:{okind}/{via}", "instances": [{"cls": "populated" if i else "empty", "value": i} for i in insts]}]}}


def cases(tier):
    yield from _twin_cases(tier)
    yield from _related_name_cases(tier)
    yield from _default_cases(tier)
    yield from _discriminated_union_cases(tier)
    yield from _builtin_name_cases(tier)
    yield from _usage_cases(tier)
    yield from _family_cases(tier)
    yield from _nested_union_cases(tier)
    yield from _single_cases(tier)
    yield from _addl_cases(tier)
    yield from _pair_cases(tier)
    yield from _shape_cases(tier)


def _cls_of(tag):
    parts = tag.split("+")
    extra = "+extra" if "extra" in parts else ""
    parts = [x for x in parts if x != "extra"]
    for want in ("absent", "null"):
        if want in parts:
            return want + extra
    return (parts[0] if len(parts) == 1 else "value") + extra


_WORD = __import__("re").compile(r"[A-Za-z_]+")


def err_class(exc):
    """Exception type + the words of its message (values, digits and quoted text dropped)."""
    msg = __import__("re").sub(r"'[^']*'|\"[^\"]*\"", "", str(exc))
    words = [w for w in _WORD.findall(msg) if not w.startswith("gen_")][:6]
    return f"{type(exc).__name__}:{'_'.join(words)}"


def _vclass(v):
    if v is None:
        return "null"
    if v == [] or v == {}:
        return repr(v)
    return type(v).__name__


def _leaf_change(a, b):
    """Classify the first (deepest) difference between expected a and observed b."""
    if isinstance(a, dict) and isinstance(b, dict):
        for k in sorted(set(a) | set(b)):
            if k not in a:
                return f"absent->{_vclass(b[k])}"
            if k not in b:
                return f"{_vclass(a[k])}->absent"
            if not K.json_eq(a[k], b[k]):
                return _leaf_change(a[k], b[k])
    if isinstance(a, list) and isinstance(b, list) and len(a) == len(b):
        for x, y in zip(a, b):
            if not K.json_eq(x, y):
                return _leaf_change(x, y)
    if a is None:
        return "null->value"
    if b is None:
        return "value->null"
    return "value-changed"


def _diff_props(v, e, props, key):
    """Attribute a round-trip difference to top-level properties: [(prop-key, change-class)]."""
    out = []
    for name in sorted(set(v) | set(e)):
        kind, req = props.get(name, (None, None))
        pk = f"{kind}/{'req' if req else 'opt'}" if kind else (f"{key}/{name}" if name in props or not props else f"{key}/<undeclared>")
        if name not in v:
            out.append((pk, f"absent->{_vclass(e[name])}"))
        elif name not in e:
            out.append((pk, f"{_vclass(v[name])}->absent"))
        elif not K.json_eq(v[name], e[name]):
            out.append((pk, _leaf_change(v[name], e[name])))
    return out or [(key, "?")]


def roundtrip_violations(cls, target, site="models"):
    """The C02 oracle for one class and its instances; shared with C15/C20."""
    out = []
    key = target["key"]
    props = {n: tuple(x) for n, x in (target.get("props") or {}).items()}
    single = next(iter(props.values())) if len(props) == 1 else None
    base = f"{single[0]}/{'req' if single[1] else 'opt'}" if single else key
    for inst in target["instances"]:
        v = inst["value"]
        ic = _cls_of(inst["cls"])
        arg = copy.deepcopy(v)
        try:
            o = cls.from_dict(arg)
        except Exception as exc:  # noqa: BLE001
            out.append({"oracle": "decode-raises", "site": site, "key": f"{base}/{ic}/{err_class(exc)}",
                        "detail": f"from_dict({v!r}) raised {type(exc).__name__}: {exc}"})
            continue
        if not K.json_eq(arg, v):
            out.append({"oracle": "mutates-input", "site": site, "key": f"{base}/{ic}", "detail": f"{v!r} became {arg!r}"})
        try:
            e = o.to_dict()
        except Exception as exc:  # noqa: BLE001
            out.append({"oracle": "encode-raises", "site": site, "key": f"{base}/{ic}/{err_class(exc)}",
                        "detail": f"to_dict() of from_dict({v!r}) raised {type(exc).__name__}: {exc}"})
            continue
        bad = K.non_plain(e)
        if bad:
            out.append({"oracle": "plain-json", "site": site, "key": f"{base}/{ic}", "detail": f"{v!r} encodes with {bad}"})
            continue
        if not K.json_eq(e, v):
            for pk, change in _diff_props(v, e, props, key):
                out.append({"oracle": "roundtrip-encode", "site": site, "key": f"{pk}/{change}", "detail": f"{v!r} -> {e!r}"})
            continue
        try:
            o2 = cls.from_dict(copy.deepcopy(e))
            same = o2 == o
        except Exception as exc:  # noqa: BLE001
            same, o2 = False, f"raised {type(exc).__name__}: {exc}"
        if not same:
            out.append({"oracle": "redecode-equal", "site": site, "key": f"{base}/{ic}", "detail": f"{v!r}: {o!r} != {o2!r}"})
    return out


def find_class(res, sb, component):
    """Class generated for /components/schemas/<component>, by the generator's own claim, verified on the tree."""
    for m in res.models:
        if m["name"] == f"/components/schemas/{component}":
            mod = sb.mod(f"models.{m['module']}")
            return getattr(mod, m["class"])
    # a schema used as a multipart body is re-registered by the generator under the body's name: find it by class name
    norm = lambda t: "".join(ch for ch in t if ch.isalnum()).lower()  # noqa: E731
    alt = [m for m in res.models if not m["name"].startswith("/components/") and norm(m["class"]) == norm(component)]
    if len(alt) == 1:
        return getattr(sb.mod(f"models.{alt[0]['module']}"), alt[0]["class"])
    return None


def run_case(p):
    res = gen.generate(p["doc"], **p.get("options", {}))
    if res.crash:
        return {"skipped_crash": True, "outcome": f"crash:{res.crash['type']}", "nontrivial": False}
    if res.rejected:
        return {"outcome": "rejected", "nontrivial": False}
    viol, steps, reached = [], 1, False
    with Sandbox(res.pkg_tree()) as sb:
        for t in p["targets"]:
            try:
                cls = find_class(res, sb, t["component"])
            except Exception as exc:  # noqa: BLE001
                # the model was generated (no diagnostic removed it) but its module cannot be imported: no instance can be decoded or encoded
                return {"violations": [{"oracle": "model-unusable", "site": "import", "key": f"{t['key']}/{type(exc).__name__}",
                                        "detail": f"the module of {t['component']} does not import: {type(exc).__name__}: {str(exc)[:160]}"}],
                        "outcome": f"import-fails:{type(exc).__name__}", "nontrivial": True, "stats": {"import_fail": 1}}
            if cls is None:
                continue
            reached = True
            steps += 3 * len(t["instances"])
            viol += roundtrip_violations(cls, t)
    if not reached:
        return {"outcome": "pruned:" + (res.diags[0].short()[:60] if res.diags else "?"), "nontrivial": False}
    return {"violations": viol, "outcome": "ok" if not viol else "viol:" + ",".join(sorted({v['oracle'] for v in viol})),
            "nontrivial": True, "steps": steps, "stats": {"instances": sum(len(t["instances"]) for t in p["targets"])}}
