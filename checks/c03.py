"""C03 — requests put every argument where the document says it goes (DESIGN §C03)."""
from __future__ import annotations

import copy
import re
import inspect
import itertools
import json
import typing
import urllib.parse

from specmc import gen, pyval, wire
from specmc.explorer import explore
from specmc.refmodels import kinds as K
from specmc.sandbox import Sandbox

ID = "C03"
LEVEL = "model_checking"
RULE = ("the URL: 11 path forms (root, trailing slash, colon segments, parameters glued to text) x 6 base_url spellings x 5 path values, sync and async; operations: full product location x kind x required (parameter matrix), media type x body kind (body matrix), "
        "deviation-bounded builder over method, path shape, hostile names, same name in two locations, path-item "
        "override, two media types, security; plus security requirement forms (operation / document level, cleared, replaced, alternatives, api key, basic), path items whose shared parameters each operation inherits or re-declares (all combinations over 3-4 methods), content_type_overrides bodies, reusable parameters with names equal after normalisation, all call sequences of length 3 (thorough 4) over 7 actions through ONE client compared with fresh-client calls, all sequences of length 4 (thorough 5) over 10 client actions (with_headers / with_cookies / with_timeout / touch / enter / calls) on an authenticated client against a reference model of the accumulated extras; inputs: every argument in {unset, v1, v2} one at a time over a base "
        "vector + all-set + all-unset; non-trivial = the operation was generated and at least one request captured")
FLOOR = 0.5
ASSUMPTIONS = ["httpx request encoding and MockTransport are trusted",
               "inside URL paths and cookies any of str(v)/JSON text/ISO text is accepted for scalars (DESIGN §C03 latitude)"]

PARAM_KINDS = ["str", "int", "num", "bool", "date", "datetime", "uuid", "enum_str", "enum_int", "enum_ref",
               ["array", "str"], ["array", "int"], ["array", "enum_str"], "model_ref", ["union", "int", "str"],
               ["nullable", "str", "t31"], "any", "const"]
P_SAMPLES = {
    "str": ["sv1", "s-v.2"], "int": [7, 0], "num": [1.5, 2], "bool": [True, False], "date": ["2020-01-02", "1999-12-31"],
    "datetime": ["2020-01-02T03:04:05+00:00", "2021-12-31T23:59:59"], "uuid": [K.UUID1, K.UUID2],
    "enum_str": ["a", "b"], "enum_int": [1, -2], "enum_ref": ["x", "y"], "model_ref": [{"z": 1}, {"z": 2}],
    "any": ["anyv", 5], "const": ["k"],
}


def p_samples(kind):
    if isinstance(kind, str):
        return P_SAMPLES[kind]
    if kind[0] == "array":
        s = P_SAMPLES[kind[1]]
        return [[s[0], s[1]], [s[1]]]
    if kind[0] == "union":
        return [P_SAMPLES[kind[1]][0], P_SAMPLES[kind[2]][0]]
    if kind[0] == "nullable":
        return P_SAMPLES[kind[1]]
    raise ValueError(kind)


def scalar_text(v):
    return v if isinstance(v, str) else json.dumps(v)


def expected_pairs(name, kind, v):
    """RM-wire: the query pairs an argument must produce."""
    if isinstance(v, list):
        return [(name, scalar_text(x)) for x in v]
    if isinstance(v, dict):
        return [(k, scalar_text(x)) for k, x in v.items()]
    return [(name, scalar_text(v))]


def lenient_texts(v, py=None):
    if isinstance(v, list):
        return None
    out = {scalar_text(v), str(v)}
    if py is not None:
        out.add(str(py))
        if hasattr(py, "isoformat"):
            out.add(py.isoformat())
        if hasattr(py, "value"):
            out.add(str(py.value))
    return out


# ------------------------------------------------------------------------------------------------- documents

def _op(method="get", path="/p", params=(), body=None, security=False, op_id="theOp", item_params=(), responses=None):
    op = {"operationId": op_id, "responses": responses or {"200": {"description": "ok"}}}
    if params:
        op["parameters"] = [dict(p) for p in params]
    if body is not None:
        op["requestBody"] = body
    if security:
        op["security"] = [{"bearer": []}]
    item = {method: op}
    if item_params:
        item["parameters"] = [dict(p) for p in item_params]
    return path, item


def _param(name, loc, kind, required, comps):
    return {"name": name, "in": loc, "required": bool(required), "schema": K.schema(kind, comps)}


def _doc(path, item, comps, security=False):
    extra = {}
    if security:
        extra["components"] = {"securitySchemes": {"bearer": {"type": "http", "scheme": "bearer"}}}
    return gen.base_doc(comps or None, paths={path: item}, **extra)


def _matrix_cases():
    for loc in ("query", "header", "cookie", "path"):
        for kind in PARAM_KINDS:
            if kind == "model_ref" and loc != "query":
                continue          # objects outside the query string are not in C03's quantifier
            for req in ((True,) if loc == "path" else (True, False)):
                for lit in ((False, True) if "enum" in K.kstr(kind) else (False,)):
                    comps = {}
                    name = "the-arg"
                    path = "/p/{the-arg}/tail" if loc == "path" else "/p"
                    pr = _param(name, loc, kind, req, comps)
                    p, item = _op(path=path, params=[pr])
                    spec = [{"name": name, "in": loc, "kind": kind, "required": req, "samples": p_samples(kind)}]
                    yield {"labels": [f"in={loc}", f"kind={K.kstr(kind)}", "req" if req else "opt"] + (["literal_enums"] if lit else []),
                           "payload": {"doc": _doc(p, item, comps), "options": {"literal_enums": lit}, "method": "get", "path": path,
                                       "params": spec, "key": f"{loc}/{K.kstr(kind)}/{'req' if req else 'opt'}"}}


OBJ_SCHEMA = {"type": "object", "required": ["a"], "properties": {"a": {"type": "string"}, "n": {"type": "integer"},
                                                                     "when": {"type": "string", "format": "date"}}}
OBJ_INSTANCES = [{"a": "x"}, {"a": "y z", "n": 3, "when": "2020-01-02"}]
BODY_KINDS = {
    # name: (schema builder, instances, media types it applies to)
    "model_ref": (lambda c: (c.setdefault("Body", copy.deepcopy(OBJ_SCHEMA)), {"$ref": "#/components/schemas/Body"})[1], OBJ_INSTANCES,
                  ["application/json", "application/vnd.x+json", "application/x-www-form-urlencoded", "multipart/form-data", "application/json; charset=utf-8"]),
    "inline_object": (lambda c: copy.deepcopy(OBJ_SCHEMA), OBJ_INSTANCES,
                      ["application/json", "application/x-www-form-urlencoded", "multipart/form-data"]),
    "array_model": (lambda c: (c.setdefault("Body", copy.deepcopy(OBJ_SCHEMA)), {"type": "array", "items": {"$ref": "#/components/schemas/Body"}})[1],
                    [[{"a": "x"}, {"a": "y", "n": 1}], []], ["application/json"]),
    "array_int": (lambda c: {"type": "array", "items": {"type": "integer"}}, [[1, 2], []], ["application/json"]),
    "array_date": (lambda c: {"type": "array", "items": {"type": "string", "format": "date"}}, [["2020-01-02"]], ["application/json"]),
    "str": (lambda c: {"type": "string"}, ["hello"], ["application/json"]),
    "int": (lambda c: {"type": "integer"}, [5], ["application/json"]),
    "date": (lambda c: {"type": "string", "format": "date"}, ["2020-01-02"], ["application/json"]),
    "enum_str": (lambda c: {"type": "string", "enum": ["a", "b"]}, ["b"], ["application/json"]),
    "union_model_int": (lambda c: (c.setdefault("Body", copy.deepcopy(OBJ_SCHEMA)), {"oneOf": [{"$ref": "#/components/schemas/Body"}, {"type": "integer"}]})[1],
                        [{"a": "x"}, 4], ["application/json"]),
    "file": (lambda c: {"type": "string", "format": "binary"}, ["BYTES:raw\x00bytes"], ["application/octet-stream"]),
    "multipart_file": (lambda c: {"type": "object", "required": ["f"], "properties": {"f": {"type": "string", "format": "binary"}, "note": {"type": "string"},
                                                                                      "count": {"type": "integer"}, "flag": {"type": "boolean"}}},
                       [{"f": "BYTES:filedata", "note": "n1"}, {"f": "BYTES:x", "count": 2, "flag": True}], ["multipart/form-data"]),
    "multipart_files": (lambda c: {"type": "object", "properties": {"fs": {"type": "array", "items": {"type": "string", "format": "binary"}},
                                                                      "tags": {"type": "array", "items": {"type": "string"}}}},
                        [{"fs": ["BYTES:one", "BYTES:two"], "tags": ["t1"]}], ["multipart/form-data"]),
    # a form body with array-valued properties: one name=value pair per item (nothing for an empty array), scalars next to them
    "form_arrays": (lambda c: {"type": "object", "required": ["a"], "properties": {
        "a": {"type": "string"}, "tags": {"type": "array", "items": {"type": "string"}}, "ids": {"type": "array", "items": {"type": "integer"}},
        "kinds": {"type": "array", "items": {"type": "string", "enum": ["k1", "k2"]}}, "days": {"type": "array", "items": {"type": "string", "format": "date"}}}},
        [{"a": "x", "tags": ["a b", "c"], "ids": [1, 2, 3]}, {"a": "y", "tags": []}, {"a": "z", "kinds": ["k1", "k2"], "days": ["2020-01-02"]}, {"a": "w", "tags": ["only"]}],
        ["application/x-www-form-urlencoded"]),
    "multipart_tags": (lambda c: {"type": "object", "properties": {"tags": {"type": "array", "items": {"type": "string"}}, "n": {"type": "number"}}},
                       [{"tags": ["t1", "t2"]}, {"n": 1.5}], ["multipart/form-data"]),
}


def _body_cases():
    for bk, (mk, insts, medias) in BODY_KINDS.items():
        for media in medias:
            for method in ("post", "put"):
                comps = {}
                body = {"required": True, "content": {media: {"schema": mk(comps)}}}
                p, item = _op(method=method, path="/b", body=body)
                yield {"labels": [f"body={bk}", f"media={media}", f"method={method}"],
                       "payload": {"doc": _doc(p, item, comps), "options": {}, "method": method, "path": "/b", "params": [],
                                   "bodies": [{"media": media, "kind": bk, "instances": insts}], "key": f"body/{bk}/{media}"}}
    # a JSON body that is not an object next to a second media type (the argument's Python type selects the encoding)
    for jkind, jschema, jinst in (("array_int", {"type": "array", "items": {"type": "integer"}}, [1, 2]), ("str", {"type": "string"}, "hello"),
                                  ("array_model", {"type": "array", "items": copy.deepcopy(OBJ_SCHEMA)}, [{"a": "x"}])):
        content = {"application/json": {"schema": jschema}, "application/x-www-form-urlencoded": {"schema": copy.deepcopy(OBJ_SCHEMA)}}
        p, item = _op(method="post", path="/b", body={"required": True, "content": content})
        yield {"labels": [f"body={jkind}", "media=application/json", "media2=application/x-www-form-urlencoded"],
               "payload": {"doc": _doc(p, item, {}), "options": {}, "method": "post", "path": "/b", "params": [],
                           "bodies": [{"media": "application/json", "kind": jkind, "instances": [jinst]},
                                      {"media": "application/x-www-form-urlencoded", "kind": "inline_object", "instances": OBJ_INSTANCES[:1]}],
                           "key": f"body2/json:{jkind}+form"}}
    # two media types at once: the argument's type selects the encoding
    for m1, m2 in (("application/json", "multipart/form-data"), ("application/json", "application/x-www-form-urlencoded"),
                   ("application/x-www-form-urlencoded", "multipart/form-data"), ("application/json", "application/octet-stream")):
        comps = {}
        content = {}
        bodies = []
        for m in (m1, m2):
            if m == "application/octet-stream":
                content[m] = {"schema": {"type": "string", "format": "binary"}}
                bodies.append({"media": m, "kind": "file", "instances": ["BYTES:rawdata"]})
            else:
                content[m] = {"schema": copy.deepcopy(OBJ_SCHEMA)}
                bodies.append({"media": m, "kind": "inline_object", "instances": OBJ_INSTANCES[:1]})
        p, item = _op(method="post", path="/b", body={"required": True, "content": content})
        yield {"labels": [f"media={m1}", f"media2={m2}"],
               "payload": {"doc": _doc(p, item, comps), "options": {}, "method": "post", "path": "/b", "params": [],
                           "bodies": bodies, "key": f"body2/{m1}+{m2}"}}


NAMES = ["arg", "fooBar", "foo-bar", "foo bar", "foo.bar", "_foo", "1st", "class", "type", "id", "FOO", "client", "url", "body2"]
METHODS = ["get", "put", "post", "delete", "options", "head", "patch", "trace"]


def _three_body_cases():
    """COUNT: three (and four) request media types at once, every order: the argument's type selects the encoding, whichever position its
    media type has in the list (first / middle / last)."""
    cands = [("application/json", "array_int", {"type": "array", "items": {"type": "integer"}}, [[1, 2]]),
             ("application/x-www-form-urlencoded", "inline_object", copy.deepcopy(OBJ_SCHEMA), OBJ_INSTANCES[:1]),
             ("application/octet-stream", "file", {"type": "string", "format": "binary"}, ["BYTES:rawdata"]),
             ("application/vnd.x+json", "str", {"type": "string"}, ["hello"]),
             ("multipart/form-data", "inline_object", copy.deepcopy(OBJ_SCHEMA), OBJ_INSTANCES[:1])]
    for n in (3, 4):
        for combo in itertools.permutations(cands, n):
            if n == 4 and combo[0][0] > combo[-1][0]:
                continue      # four at once: half of the orders (each set still in 12 orders)
            content = {m: {"schema": copy.deepcopy(sch)} for m, _k, sch, _i in combo}
            p, item = _op(method="post", path="/b", body={"required": True, "content": content})
            yield {"labels": [f"media{i + 1}={m}" for i, (m, _k, _s, _i2) in enumerate(combo)] + [f"bodies={n}"],
                   "payload": {"doc": _doc(p, item, {}), "options": {}, "method": "post", "path": "/b", "params": [],
                               "bodies": [{"media": m, "kind": k, "instances": inst} for m, k, _s, inst in combo], "key": f"body{n}/" + "+".join(k for _m, k, _s, _i3 in combo)}}


def _twin_module_cases():
    """Two operations under DIFFERENT tags whose endpoint module names coincide: each module sends its own operation."""
    twins = [("listItems", "list_items"), ("listItems", "ListItems"), ("list-items", "list_items"), (None, None)]
    for id1, id2 in twins:
        for t1, t2 in (("orders", "users"), ("users", "orders")):
            ok = {"200": {"description": "d"}}
            paths = {"/reports/{id}": {"get": {**({"operationId": id1} if id1 else {}), "tags": [t1], "parameters": [{"name": "id", "in": "path", "required": True, "schema": {"type": "string"}}], "responses": ok}},
                     "/reports/id": {("get" if id1 is None else "delete"): {**({"operationId": id2} if id2 else {}), "tags": [t2], "responses": ok}}}
            yield {"labels": [f"twin-modules={id1!r}/{id2!r}", f"tags={t1},{t2}"],
                   "payload": {"mode": "twin-modules", "doc": gen.base_doc(None, paths=paths), "key": "twin-modules"}}


def _run_twin_modules(p):
    res = gen.generate(p["doc"])
    if res.crash or res.rejected:
        return {"outcome": "rejected", "nontrivial": False}
    import httpx
    viol, steps = [], 0
    with Sandbox(res.pkg_tree()) as sb:
        for ep in res.endpoints:
            mod = wire.endpoint_module(sb, ep)
            cap = wire.Capture(lambda request: httpx.Response(200))
            args = {"id": "r1"} if "{id}" in ep["path"] else {}
            for variant in ("sync_detailed", "asyncio_detailed"):
                r = wire.call(mod, variant, lambda: wire.make_client(sb, cap), cap, dict(args))
                steps += 1
                want = (ep["method"].upper(), ep["path"].replace("{id}", "r1"))
                if not r["ok"] or not r["requests"]:
                    viol.append({"oracle": "call-raises", "site": "endpoint", "key": p["key"], "detail": f"{ep['tag']}/{ep['module']} ({want[0]} {want[1]}) {variant}: {r.get('exc')!r}"})
                    continue
                got = (r["requests"][0]["method"], r["requests"][0]["path"])
                if got != want:
                    viol.append({"oracle": "wrong-operation-sent", "site": "endpoint", "key": p["key"], "detail": f"api/{ep['tag']}/{ep['module']}.py is {want[0]} {want[1]} but sends {got[0]} {got[1]}"})
    seen, uniq = set(), []
    for v in viol:
        if v["oracle"] not in seen:
            seen.add(v["oracle"])
            uniq.append(v)
    return {"violations": uniq, "outcome": "ok" if not uniq else "viol:" + uniq[0]["oracle"], "nontrivial": len(res.endpoints) == 2, "steps": steps}


def _build(ch):
    comps = {}
    method = ch.pick("method", METHODS)
    shape = ch.pick("path", ["none", "one", "two", "two-swapped", "prefix-names", "adjacent"])
    n1 = ch.pick("p1.name", NAMES)
    n2 = ch.pick("p2.name", ["other"] + NAMES[1:8])
    loc1 = ch.pick("p1.in", ["query", "header", "cookie"])
    loc2 = ch.pick("p2.in", ["query", "header", "cookie"])
    k1 = ch.pick("p1.kind", ["str", "int", "date", "enum_str", ["array", "str"], "bool"])
    k2 = ch.pick("p2.kind", ["int", "str", "uuid", "enum_int"])
    same = ch.flag("same-name-two-locations")
    override = ch.pick("path-item-param", ["none", "distinct", "overridden", "overridden-other-location"])
    body = ch.pick("body", ["none", "json", "form", "multipart"])
    security = ch.flag("security")
    params, spec, item_params = [], [], []
    path = "/r"
    pnames = {"none": [], "one": ["pid"], "two": ["pid", "sub-id"], "two-swapped": ["pid", "sub-id"],
              "prefix-names": ["id", "id2"], "adjacent": ["a", "b"]}[shape]
    if shape == "adjacent":
        path = "/r/{a}-{b}"
    else:
        for pn in pnames:
            path += "/{" + pn + "}/x"
    decl = list(reversed(pnames)) if shape == "two-swapped" else pnames
    for i, pn in enumerate(decl):
        kind = "int" if i == 0 else "str"
        params.append(_param(pn, "path", kind, True, comps))
        spec.append({"name": pn, "in": "path", "kind": kind, "required": True, "samples": ["pa" + str(i), "pb" + str(i)] if kind == "str" else [11 + i, 22 + i]})
    if same:
        n2, loc2 = n1, {"query": "header", "header": "cookie", "cookie": "query"}[loc1]
    if not (n1 == n2 and loc1 == loc2):
        for (n, loc, kind, req) in ((n1, loc1, k1, False), (n2, loc2, k2, True)):
            params.append(_param(n, loc, kind, req, comps))
            spec.append({"name": n, "in": loc, "kind": kind, "required": req, "samples": p_samples(kind)})
    else:
        params.append(_param(n1, loc1, k1, False, comps))
        spec.append({"name": n1, "in": loc1, "kind": k1, "required": False, "samples": p_samples(k1)})
    if override == "distinct":
        item_params.append(_param("item-level", "query", "str", False, comps))
        spec.append({"name": "item-level", "in": "query", "kind": "str", "required": False, "samples": ["i1", "i2"]})
    elif override == "overridden":
        # same (name, location) at path-item level with another type: the operation-level one wins
        item_params.append(_param(n1, loc1, "bool" if k1 != "bool" else "int", True, comps))
    elif override == "overridden-other-location":
        oloc = {"query": "header", "header": "query", "cookie": "query"}[loc1]
        if not any(s["name"] == n1 and s["in"] == oloc for s in spec):
            item_params.append(_param(n1, oloc, "int", False, comps))
            spec.append({"name": n1, "in": oloc, "kind": "int", "required": False, "samples": [41, 42]})
    bodies, breq = [], None
    if body != "none":
        media = {"json": "application/json", "form": "application/x-www-form-urlencoded", "multipart": "multipart/form-data"}[body]
        breq = {"required": True, "content": {media: {"schema": copy.deepcopy(OBJ_SCHEMA)}}}
        bodies = [{"media": media, "kind": "inline_object", "instances": OBJ_INSTANCES[:1]}]
    p, item = _op(method=method, path=path, params=params, body=breq, security=security, item_params=item_params)
    key = "builder[" + ",".join(sorted({f"{s['in']}/{K.kstr(s['kind'])}" for s in spec if s["in"] != "path"})) + (";" + body if body != "none" else "") + "]"
    return {"doc": _doc(p, item, comps, security), "options": {}, "method": method, "path": path, "params": spec,
            "bodies": bodies, "security": security, "key": key}


SEQ_ACTIONS = {
    # action -> (operationId, {python kwarg: JSON value})
    "A(all=v1)": ("opA", {"q": "q1", "h": "h1", "c": "c1"}),
    "A(all=v2)": ("opA", {"q": "q2", "h": "h2", "c": "c2"}),
    "A(unset)": ("opA", {}),
    "A(c only)": ("opA", {"c": "c3"}),
    "B(v1)": ("opB", {"c2": "k1", "body": {"a": "x"}}),
    "B(v2)": ("opB", {"c2": "k2", "x_h": "hb", "body": {"a": "y", "n": 2}}),
    "C()": ("opC", {}),
}


def _sequence_doc():
    ok = {"200": {"description": "ok"}}
    s = {"type": "string"}
    paths = {
        "/a": {"get": {"operationId": "opA", "responses": ok, "parameters": [
            {"name": "q", "in": "query", "schema": s}, {"name": "h", "in": "header", "schema": s}, {"name": "c", "in": "cookie", "schema": s}]}},
        "/b": {"post": {"operationId": "opB", "responses": ok, "parameters": [
            {"name": "c2", "in": "cookie", "required": True, "schema": s}, {"name": "x-h", "in": "header", "schema": s}],
            "requestBody": {"required": True, "content": {"application/json": {"schema": copy.deepcopy(OBJ_SCHEMA)}}}}},
        "/c": {"get": {"operationId": "opC", "responses": ok}}}
    return gen.base_doc(None, paths=paths)


def _sequence_cases(tier):
    """Operation sequences through ONE client object: a call must send what the same call sends on a fresh client."""
    depth = 3 if tier == "quick" else 4
    for first in SEQ_ACTIONS:
        for asynchronous in (False, True):
            yield {"labels": ["sequence", f"first={first}", "asyncio" if asynchronous else "sync", f"depth={depth}"],
                   "payload": {"mode": "sequence", "doc": _sequence_doc(), "first": first, "asynchronous": asynchronous, "depth": depth}}


CLIENT_ACTIONS = ["call(all)", "call(unset)", "with_headers#1", "with_headers#2", "with_headers#3", "with_cookies#1", "with_cookies#2", "with_timeout", "touch", "enter"]
CLIENT_EXTRAS = {"with_headers#1": ("headers", {"x-extra": "e1"}), "with_headers#2": ("headers", {"x-more": "e2"}), "with_headers#3": ("headers", {"x-extra": "e3"}),
                 "with_cookies#1": ("cookies", {"ck": "cv"}), "with_cookies#2": ("cookies", {"ck2": "cv2"})}


def _client_doc():
    ok = {"200": {"description": "ok"}}
    s = {"type": "string"}
    paths = {"/a": {"get": {"operationId": "opA", "responses": ok, "security": [{"bearer": []}], "parameters": [
        {"name": "q", "in": "query", "schema": s}, {"name": "h", "in": "header", "schema": s}, {"name": "c", "in": "cookie", "schema": s}]}}}
    return gen.base_doc(None, paths=paths, components={"securitySchemes": {"bearer": {"type": "http", "scheme": "bearer"}}})


def _client_sequence_cases(tier):
    """Sequences of client derivations (with_headers / with_cookies / with_timeout), context entry and calls on an authenticated
    client: every call carries the operation's arguments, the credential header and exactly the extras derived so far."""
    depth = 4 if tier == "quick" else 5
    for prefix in itertools.product(CLIENT_ACTIONS, repeat=1 if tier == "quick" else 2):
        for asynchronous in (False, True):
            yield {"labels": ["client-sequence", "prefix=" + ">".join(prefix), "asyncio" if asynchronous else "sync", f"depth={depth}"],
                   "payload": {"mode": "client-sequence", "doc": _client_doc(), "prefix": list(prefix), "asynchronous": asynchronous, "depth": depth}}


CP_VARIANTS = [("page-size", "query"), ("page_size", "query"), ("page-size", "header"), ("page_size", "cookie"), ("PageSize", "query"), ("pageSize", "header")]


def _component_param_cases(tier):
    """Reusable parameters whose names are equal after normalisation: each reference resolves to ITS component."""
    for (n1, l1), (n2, l2) in itertools.permutations(CP_VARIANTS, 2):
        for k2 in ("str", "int"):
            ok = {"200": {"description": "ok"}}
            comps_p = {"First": {"name": n1, "in": l1, "required": False, "schema": {"type": "string"}},
                       "Second": {"name": n2, "in": l2, "required": True, "schema": K.schema(k2, {})}}
            r1, r2 = {"$ref": "#/components/parameters/First"}, {"$ref": "#/components/parameters/Second"}
            paths = {"/one": {"get": {"operationId": "opOne", "parameters": [r1], "responses": ok}},
                     "/two": {"get": {"operationId": "opTwo", "parameters": [r2], "responses": ok}}}
            specs = {"opOne": [{"name": n1, "in": l1, "kind": "str", "required": False, "samples": ["sv1", "s-v.2"]}],
                     "opTwo": [{"name": n2, "in": l2, "kind": k2, "required": True, "samples": p_samples(k2)}]}
            if (n1, l1) != (n2, l2):
                paths["/both"] = {"get": {"operationId": "opBoth", "parameters": [r1, r2], "responses": ok}}
                specs["opBoth"] = specs["opOne"] + specs["opTwo"]
            doc = gen.base_doc(None, paths=paths)
            doc.setdefault("components", {})["parameters"] = comps_p
            for op, spec in specs.items():
                path = {"opOne": "/one", "opTwo": "/two", "opBoth": "/both"}[op]
                yield {"labels": ["component-params", f"first={n1}@{l1}", f"second={n2}@{l2}", f"kind2={k2}", f"op={op}"],
                       "payload": {"doc": doc, "options": {}, "method": "get", "path": path, "params": spec, "op": op,
                                   "key": f"component-params/{l1}+{l2}/{op}"}}


SHARED = [("X-Trace", "header", "str", "enum_str"), ("page", "query", "int", "str"), ("sid", "cookie", "str", "str")]
OVERRIDE_SETS = [(), ("X-Trace",), ("page",), ("X-Trace", "page", "sid")]


def _pathitem_cases(tier):
    """A path item whose shared parameters are inherited by some operations and re-declared (same name and location, other schema /
    requiredness) by others: every operation sends its own view, whatever its siblings override."""
    methods = ("get", "post", "delete") if tier == "quick" else ("get", "put", "post", "delete")
    for choice in itertools.product(range(len(OVERRIDE_SETS)), repeat=len(methods)):
        comps = {}
        item = {"parameters": [_param(n, loc, k, False, comps) for n, loc, k, _k2 in SHARED]}
        specs = {}
        for m, ci in zip(methods, choice):
            over = OVERRIDE_SETS[ci]
            op = {"operationId": f"{m}Thing", "responses": {"200": {"description": "ok"}}}
            spec = []
            for n, loc, k, k2 in SHARED:
                if n in over:
                    op.setdefault("parameters", []).append(_param(n, loc, k2, True, comps))
                    spec.append({"name": n, "in": loc, "kind": k2, "required": True, "samples": p_samples(k2)})
                else:
                    spec.append({"name": n, "in": loc, "kind": k, "required": False, "samples": p_samples(k)})
            item[m] = op
            specs[m] = spec
        doc = gen.base_doc(comps or None, paths={"/shared": item})
        for m in methods:
            yield {"labels": ["path-item", "overrides=" + "/".join(",".join(OVERRIDE_SETS[c]) or "-" for c in choice), f"op={m}"],
                   "payload": {"doc": doc, "options": {}, "method": m, "path": "/shared", "params": specs[m], "op": f"{m}Thing",
                               "key": f"path-item/{'overrides' if OVERRIDE_SETS[choice[methods.index(m)]] else 'inherits'}"}}


OVERRIDES = {"application/zip": "application/octet-stream", "text/json": "application/json", "application/x-thing": "application/json",
             "application/vnd.acme.form": "application/x-www-form-urlencoded"}


def _override_cases(tier):
    """content_type_overrides: the body is encoded as the target media type but SENT as the media type the document declares."""
    for declared, target in OVERRIDES.items():
        for bk, (mk, insts, medias) in BODY_KINDS.items():
            if target not in [m.split(";")[0] for m in medias]:
                continue
            comps = {}
            body = {"required": True, "content": {declared: {"schema": mk(comps)}}}
            p, item = _op(method="post", path="/b", body=body)
            yield {"labels": [f"body={bk}", f"media={declared}", f"override->{target}"],
                   "payload": {"doc": _doc(p, item, comps), "options": {"content_type_overrides": dict(OVERRIDES)}, "method": "post", "path": "/b", "params": [],
                               "bodies": [{"media": declared, "encoded_as": target, "kind": bk, "instances": insts}], "key": f"body-override/{bk}/{target}"}}


SEC_FORMS = {
    # name: (root-level security, operation-level security, the operation has a security requirement)
    "none": (None, None, False),
    "operation": (None, [{"bearer": []}], True),
    "root-inherited": ([{"bearer": []}], None, True),
    "root-cleared-by-operation": ([{"bearer": []}], [], False),
    "root-replaced-by-operation": ([{"bearer": []}], [{"key": []}], True),
    "operation-alternatives": (None, [{"bearer": []}, {"key": []}], True),
    "operation-api-key": (None, [{"key": []}], True),
    "operation-basic": (None, [{"basic": []}], True),
}


def _security_cases():
    schemes = {"bearer": {"type": "http", "scheme": "bearer"}, "key": {"type": "apiKey", "in": "header", "name": "X-Key"}, "basic": {"type": "http", "scheme": "basic"}}
    for form, (root, opsec, required) in SEC_FORMS.items():
        for with_param in (False, True):
            comps = {}
            params = [_param("q", "query", "str", False, comps)] if with_param else []
            p_, item = _op(method="get", path="/s", params=params)
            if opsec is not None:
                item["get"]["security"] = copy.deepcopy(opsec)
            doc = gen.base_doc(None, paths={p_: item}, components={"securitySchemes": copy.deepcopy(schemes)})
            if root is not None:
                doc["security"] = copy.deepcopy(root)
            spec = [{"name": "q", "in": "query", "kind": "str", "required": False, "samples": ["sv1", "s-v.2"]}] if with_param else []
            yield {"labels": [f"security={form}"] + (["with-parameter"] if with_param else []),
                   "payload": {"doc": doc, "options": {}, "method": "get", "path": "/s", "params": spec, "security": required, "key": f"security/{form}"}}


def cases(tier):
    yield from _url_cases()
    yield from _security_cases()
    yield from _pathitem_cases(tier)
    yield from _override_cases(tier)
    yield from _matrix_cases()
    yield from _body_cases()
    yield from _three_body_cases()
    yield from _twin_module_cases()
    yield from _sequence_cases(tier)
    yield from _client_sequence_cases(tier)
    yield from _component_param_cases(tier)
    bound = 2 if tier == "quick" else 3
    n = 0
    for labels, payload, _d in explore(_build, bound=bound, limit=4000 if tier == "quick" else 60000):
        n += 1
        yield {"labels": labels, "payload": payload}
    cases.info = {"bounds": {"builder_deviations": bound}, "cap_hit": explore.stats["cap_hit"],
                  "caps": (["builder case limit"] if explore.stats["cap_hit"] else [])}


# ------------------------------------------------------------------------------------------------- oracle

def _decode_bytes(v):
    if isinstance(v, str) and v.startswith("BYTES:"):
        return v[6:].encode("latin-1")
    if isinstance(v, list):
        return [_decode_bytes(x) for x in v]
    if isinstance(v, dict):
        return {k: _decode_bytes(x) for k, x in v.items()}
    return v


def _multipart_parts(content, content_type):
    import email
    msg = email.message_from_bytes(b"Content-Type: " + content_type.encode() + b"\r\n\r\n" + content)
    parts = []
    for part in msg.walk():
        if part.is_multipart():
            continue
        name = part.get_param("name", header="content-disposition")
        parts.append((name, part.get_payload(decode=True), part.get_content_type()))
    return parts


def _check_body(r, b, inst, key):
    out = []
    media = b["media"]
    base_media = b.get("encoded_as") or media.split(";")[0].strip()      # content_type_overrides: encoded as the target, sent as declared
    ct = r["content_type"] or ""
    site = f"body:{base_media}"
    if base_media == "multipart/form-data":
        if not ct.startswith("multipart/form-data") or "boundary=" not in ct:
            return [{"oracle": "content-type", "site": site, "key": key, "detail": f"Content-Type {ct!r} for declared {media!r}"}]
        parts = _multipart_parts(r["content"], ct)
        want = _decode_bytes(inst)
        exp = []
        for k, v in want.items():
            vs = v if isinstance(v, list) and v and isinstance(v[0], bytes) else [v]
            for x in vs:
                if isinstance(x, bytes):
                    exp.append((k, x))
                elif isinstance(x, str):
                    exp.append((k, x.encode()))
                elif isinstance(x, bool):
                    exp.append((k, None))           # rendering of booleans in a part is not pinned
                elif isinstance(x, (list, dict)):
                    exp.append((k, ("json", x)))
                else:
                    exp.append((k, str(x).encode()))
        got = [(n, p) for n, p, _t in parts]
        ok = len(got) == len(exp)
        if ok:
            for (en, ev), (gn, gv) in zip(sorted(exp, key=lambda t: t[0]), sorted(got, key=lambda t: t[0])):
                if en != gn:
                    ok = False
                elif ev is None:
                    continue
                elif isinstance(ev, tuple):
                    try:
                        ok = ok and K.json_eq(json.loads(gv), ev[1])
                    except ValueError:
                        ok = False
                elif ev != gv:
                    ok = False
        if not ok:
            out.append({"oracle": "body", "site": site, "key": key, "detail": f"multipart parts {got!r} for instance {inst!r}"})
        return out
    if ct != media and ct.replace(" ", "") != media.replace(" ", ""):
        out.append({"oracle": "content-type", "site": site, "key": key, "detail": f"Content-Type {ct!r} for declared {media!r}"})
    if base_media == "application/octet-stream":
        if r["content"] != _decode_bytes(inst):
            out.append({"oracle": "body", "site": site, "key": key, "detail": f"raw body {r['content']!r} != {inst!r}"})
    elif base_media == "application/x-www-form-urlencoded":
        got = sorted(urllib.parse.parse_qsl(r["content"].decode(), keep_blank_values=True))
        exp = sorted((k, scalar_text(x)) for k, v in inst.items() for x in (v if isinstance(v, list) else [v]))
        if got != exp:
            out.append({"oracle": "body", "site": site, "key": key, "detail": f"form body {got!r} != {exp!r}"})
    else:
        try:
            got = json.loads(r["content"])
            if not K.json_eq(got, inst):
                out.append({"oracle": "body", "site": site, "key": key, "detail": f"JSON body {got!r} != {inst!r}"})
        except ValueError:
            out.append({"oracle": "body", "site": site, "key": key, "detail": f"body is not JSON: {r['content'][:200]!r}"})
    return out


def _check_request(p, reqs, argvals, body_sel, key, pyvals=None):
    pyvals = pyvals or {}
    """RM-wire: compare one captured request with what the document says."""
    out = []
    if len(reqs) != 1:
        return [{"oracle": "request-count", "site": "-", "key": key, "detail": f"{len(reqs)} requests sent"}]
    r = reqs[0]
    if r["method"] != p["method"].upper():
        out.append({"oracle": "method", "site": "-", "key": key, "detail": f"{r['method']} != {p['method'].upper()}"})
    # path
    exp_paths = [""]
    tmpl = p["path"]
    pos = 0
    import re
    for m in re.finditer(r"\{([^}]*)\}", tmpl):
        lit = tmpl[pos:m.start()]
        name = m.group(1)
        v = argvals.get(("path", name))
        alts = lenient_texts(v, pyvals.get(("path", name)))
        if alts is None:      # arrays in a path: any text containing every item's rendering in order
            alts = {"\0ARRAY:" + "\0".join(scalar_text(x) for x in v)}
        exp_paths = [e + lit + a for e in exp_paths for a in alts]
        pos = m.end()
    exp_paths = {e + tmpl[pos:] for e in exp_paths}
    got_path = urllib.parse.unquote(r["path"])
    arr = [e for e in exp_paths if "\0ARRAY:" in e]
    if arr:
        e = arr[0]
        pre, _, rest = e.partition("\0ARRAY:")
        items = rest.split("\0")
        tail = ""
        if "/" in items[-1]:
            items[-1], _, t = items[-1].partition("/")
            tail = "/" + t
        ok = got_path.startswith(pre) and got_path.endswith(tail)
        idx = len(pre)
        for it in items:
            j = got_path.find(it, idx)
            if j < 0:
                ok = False
                break
            idx = j + len(it)
        if not ok:
            out.append({"oracle": "path", "site": "path", "key": key, "detail": f"path {got_path!r} does not carry {items!r} in its slot"})
    elif got_path not in exp_paths:
        out.append({"oracle": "path", "site": "path", "key": key, "detail": f"path {got_path!r} not in {sorted(exp_paths)!r}"})
    # query
    exp_q = []
    for s in p["params"]:
        v = argvals.get((s["in"], s["name"]), "<unset>")
        if s["in"] == "query" and v != "<unset>" and v is not None:
            exp_q += expected_pairs(s["name"], s["kind"], v)
    if sorted(r["query"]) != sorted(exp_q):
        out.append({"oracle": "query", "site": "query", "key": key, "detail": f"query {sorted(r['query'])!r} != expected {sorted(exp_q)!r}"})
    # headers
    hdrs = {}
    for k, v in r["headers"]:
        hdrs.setdefault(k, []).append(v)
    for s in p["params"]:
        if s["in"] != "header":
            continue
        v = argvals.get(("header", s["name"]), "<unset>")
        try:
            lname = s["name"].lower().encode("ascii").decode()
        except UnicodeError:
            lname = s["name"].lower()
        got = hdrs.get(lname)
        if v == "<unset>":
            if got is not None:
                out.append({"oracle": "header", "site": "header", "key": key, "detail": f"unset header {s['name']!r} sent as {got!r}"})
        elif isinstance(v, list):
            if got is None or not all(scalar_text(x) in got[0] for x in v):
                out.append({"oracle": "header", "site": "header", "key": key, "detail": f"header {s['name']!r}: {got!r} for {v!r}"})
        elif got != [scalar_text(v)]:
            out.append({"oracle": "header", "site": "header", "key": key, "detail": f"header {s['name']!r}: {got!r} != {[scalar_text(v)]!r}"})
    # cookies
    exp_c = {}
    for s in p["params"]:
        if s["in"] == "cookie":
            v = argvals.get(("cookie", s["name"]), "<unset>")
            if v != "<unset>":
                exp_c[s["name"]] = v
    if set(r["cookies"]) - {""} != set(exp_c):
        out.append({"oracle": "cookie", "site": "cookie", "key": key, "detail": f"cookies {r['cookies']!r} != names {sorted(exp_c)!r}"})
    else:
        for n, v in exp_c.items():
            alts = lenient_texts(v, pyvals.get(("cookie", n)))
            got = r["cookies"][n].strip('"')
            if alts is not None and got not in alts:
                out.append({"oracle": "cookie", "site": "cookie", "key": key, "detail": f"cookie {n!r}={got!r} not in {sorted(alts)!r}"})
            if alts is None and not all(scalar_text(x) in got for x in v):
                out.append({"oracle": "cookie", "site": "cookie", "key": key, "detail": f"cookie {n!r}={got!r} for {v!r}"})
    # body
    if body_sel is not None:
        b, inst = body_sel
        out += _check_body(r, b, inst, key)
    elif r["content"]:
        out.append({"oracle": "body", "site": "body:none", "key": key, "detail": f"unexpected body {r['content'][:100]!r}"})
    return out


def _arg_vectors(p):
    """Every argument in {unset, v1, v2} one at a time over the base vector (all first samples), plus all-unset."""
    params = p["params"]
    base = {}
    for s in params:
        base[(s["in"], s["name"])] = s["samples"][0]
    vecs = [("all-v1", dict(base))]
    for s in params:
        k = (s["in"], s["name"])
        for i, v in enumerate(s["samples"][1:], 2):
            d = dict(base)
            d[k] = v
            vecs.append((f"{s['in']}:{s['name']}=v{i}", d))
        if not s["required"]:
            d = dict(base)
            del d[k]
            vecs.append((f"{s['in']}:{s['name']}=unset", d))
    opt = [s for s in params if not s["required"]]
    if len(opt) > 1:
        d = {k: v for k, v in base.items() if not any((s["in"], s["name"]) == k for s in opt)}
        vecs.append(("all-optional-unset", d))
    return vecs


def _norm_op(n):
    return n.replace("_", "").lower()


def _run_sequence(p):
    res = gen.generate(p["doc"])
    if res.crash or res.rejected or len(res.endpoints) != 3:
        return {"outcome": "sequence-doc-not-generated", "nontrivial": False}
    viol, steps = [], 0
    with Sandbox(res.pkg_tree()) as sb:
        mods = {_norm_op(ep["name"]): wire.endpoint_module(sb, ep) for ep in res.endpoints}
        fname = "asyncio_detailed" if p["asynchronous"] else "sync_detailed"
        cap = wire.Capture()
        factory = lambda: wire.make_client(sb, cap)  # noqa: E731

        def step(action):
            op, args = SEQ_ACTIONS[action]
            mod = mods[_norm_op(op)]
            fn = getattr(mod, fname)
            hints = pyval.hints(fn)
            return fn, {k: pyval.pythonize(hints.get(k, typing.Any), copy.deepcopy(v)) for k, v in args.items()}

        def summary(r):
            if not r["ok"]:
                return ["raises", type(r["exc"]).__name__]
            return ["sent", [wire.req_summary(q) | {"cookies": sorted(q["cookies"].items())} for q in r["requests"]]]

        alone = {}
        for a in SEQ_ACTIONS:
            alone[a] = summary(wire.call_seq([step(a)], p["asynchronous"], factory, cap)[0])
        for rest in itertools.product(SEQ_ACTIONS, repeat=p["depth"] - 1):
            seq = (p["first"],) + rest
            outs = wire.call_seq([step(a) for a in seq], p["asynchronous"], factory, cap)
            steps += len(seq)
            for i, (a, r) in enumerate(zip(seq, outs)):
                got = summary(r)
                if got != alone[a]:
                    earlier = sorted({SEQ_ACTIONS[x][0] for x in seq[:i]})
                    viol.append({"oracle": "call-depends-on-history", "site": "asyncio" if p["asynchronous"] else "sync",
                                 "key": f"sequence/{SEQ_ACTIONS[a][0]}-after-{'+'.join(earlier) or 'nothing'}",
                                 "detail": f"call #{i + 1} of {list(seq)} on one client: {json.dumps(got)[:300]} but on a fresh client {json.dumps(alone[a])[:300]}"})
                    break
    seen, uniq = set(), []
    for v in viol:
        k = (v["oracle"], v["site"], v["key"])
        if k not in seen:
            seen.add(k)
            uniq.append(v)
    return {"violations": uniq, "outcome": "ok" if not uniq else "viol:call-depends-on-history", "nontrivial": steps > 0, "steps": steps}


def _run_client_sequence(p):
    import httpx
    res = gen.generate(p["doc"])
    if res.crash or res.rejected or len(res.endpoints) != 1:
        return {"outcome": "client-doc-not-generated", "nontrivial": False}
    viol, steps = [], 0
    asynchronous = p["asynchronous"]
    with Sandbox(res.pkg_tree()) as sb:
        mod = wire.endpoint_module(sb, res.endpoints[0])
        fn = getattr(mod, "asyncio_detailed" if asynchronous else "sync_detailed")
        cap = wire.Capture()
        calls = {"call(all)": {"q": "q1", "h": "h1", "c": "c1"}, "call(unset)": {}}

        def observe(q):
            s_ = wire.req_summary(q)
            return {"method": s_["method"], "path": s_["path"], "query": s_["query"], "headers": sorted(h for h in s_["headers"] if h[0] != "cookie"),
                    "cookies": sorted(q["cookies"].items())}

        def run(seq):
            """-> [(action, observation | ["raises", type])] for the call actions of seq, through one chain of clients."""
            cap.take()
            client = wire.make_client(sb, cap, authenticated=True)
            made = [client]
            entered = []
            out = []

            async def arun():
                nonlocal client
                try:
                    for a in seq:
                        if a in calls:
                            try:
                                await fn(client=client, **calls[a])
                                out.append((a, [observe(q) for q in cap.take()]))
                            except Exception as exc:  # noqa: BLE001
                                cap.take()
                                out.append((a, ["raises", type(exc).__name__]))
                        elif a in CLIENT_EXTRAS:
                            what, val = CLIENT_EXTRAS[a]
                            client = getattr(client, "with_" + what)(dict(val))
                            made.append(client)
                        elif a == "with_timeout":
                            client = client.with_timeout(httpx.Timeout(5.0))
                            made.append(client)
                        elif a == "touch":
                            client.get_async_httpx_client()
                        elif a == "enter" and not any(client is e for e in entered):
                            try:
                                await client.__aenter__()
                                entered.append(client)
                            except RuntimeError:
                                pass        # httpx refuses to open a client that already sent a request: not a generated-code matter
                finally:
                    for c in made:
                        ac = getattr(c, "_async_client", None)
                        if ac is not None:
                            await ac.aclose()
            if asynchronous:
                wire.loop().run_until_complete(arun())
                return out
            try:
                for a in seq:
                    if a in calls:
                        try:
                            fn(client=client, **calls[a])
                            out.append((a, [observe(q) for q in cap.take()]))
                        except Exception as exc:  # noqa: BLE001
                            cap.take()
                            out.append((a, ["raises", type(exc).__name__]))
                    elif a in CLIENT_EXTRAS:
                        what, val = CLIENT_EXTRAS[a]
                        client = getattr(client, "with_" + what)(dict(val))
                        made.append(client)
                    elif a == "with_timeout":
                        client = client.with_timeout(httpx.Timeout(5.0))
                        made.append(client)
                    elif a == "touch":
                        client.get_httpx_client()
                    elif a == "enter" and not any(client is e for e in entered):
                        try:
                            client.__enter__()
                            entered.append(client)
                        except RuntimeError:
                            pass
            finally:
                for c in made:
                    sc = getattr(c, "_client", None)
                    if sc is not None:
                        sc.close()
            return out

        alone = {a: run([a])[0][1] for a in calls}
        for a, obs in alone.items():
            if obs[:1] == ["raises"] or len(obs) != 1 or ("authorization", "Bearer tok3n") not in [tuple(h) for h in obs[0]["headers"]]:
                return {"violations": [{"oracle": "auth-header", "site": "header", "key": "client-sequence/fresh", "detail": f"{a} on a fresh authenticated client: {obs!r}"}],
                        "outcome": "viol:auth-header", "nontrivial": True}
        for rest in itertools.product(CLIENT_ACTIONS, repeat=p["depth"] - len(p["prefix"])):
            seq = tuple(p["prefix"]) + rest
            if not any(a in calls for a in seq):
                continue
            got = run(list(seq))
            steps += len(seq)
            extras = {"headers": {}, "cookies": {}}
            gi = 0
            for i, a in enumerate(seq):
                if a in CLIENT_EXTRAS:
                    what, val = CLIENT_EXTRAS[a]
                    extras[what].update(val)
                if a not in calls:
                    continue
                _a, obs = got[gi]
                gi += 1
                base = alone[a][0]
                want = dict(base)
                want["headers"] = sorted([list(h) for h in base["headers"]] + [[k, v] for k, v in extras["headers"].items()])
                want["cookies"] = sorted(dict(list(map(tuple, base["cookies"])) + list(extras["cookies"].items())).items())
                norm = lambda o: {**o, "headers": sorted(list(h) for h in o["headers"]), "cookies": sorted(tuple(c) for c in o["cookies"])} if isinstance(o, dict) else o  # noqa: E731
                if obs[:1] == ["raises"] or len(obs) != 1 or norm(obs[0]) != norm(want):
                    before = "+".join(sorted({x.split("#")[0].split("(")[0] for x in seq[:i]})) or "nothing"
                    viol.append({"oracle": "client-derivation", "site": "asyncio" if asynchronous else "sync", "key": f"client-sequence/call-after-{before}",
                                 "detail": f"call #{i + 1} of {list(seq)}: sent {json.dumps(obs)[:400]}, expected {json.dumps(norm(want))[:400]}"})
                    break
    seen, uniq = set(), []
    for v in viol:
        k = (v["oracle"], v["site"], v["key"])
        if k not in seen:
            seen.add(k)
            uniq.append(v)
    return {"violations": uniq, "outcome": "ok" if not uniq else "viol:client-derivation", "nontrivial": steps > 0, "steps": steps}


URL_PATHS = ["/", "/r", "/r/", "/items:search", "/{pid}:archive", "/{pid}", "/v1.0/a~b/c-d_e", "/r/{pid}/", "/a/{pid}.json", "/a:b/{pid}:c/d", "/{pid}/{sub}"]
URL_BASES = ["http://testserver", "http://testserver/", "http://testserver/api/v1", "http://testserver/api/v1/", "https://testserver:8443/p", "http://testserver/a:b"]
URL_VALUES = ["orders", "2024", "a b", "x:y", "p%q"]


def _url_cases():
    """The URL an operation is sent to: every path form x every spelling of base_url x path values (full product)."""
    for path in URL_PATHS:
        yield {"labels": [f"url-path={path}"], "payload": {"mode": "url-forms", "path": path, "key": "url-forms"}}


def _run_url_forms(p):
    import urllib.parse
    path = p["path"]
    names = re.findall(r"\{(\w+)\}", path)
    params = [{"name": n, "in": "path", "required": True, "schema": {"type": "string"}} for n in names]
    doc = gen.base_doc(None, paths={path: {"get": {"operationId": "theOp", "parameters": params, "responses": {"204": {"description": "n"}}}}})
    res = gen.generate(doc)
    if res.crash:
        return {"skipped_crash": True, "outcome": f"crash:{res.crash['type']}", "nontrivial": False}
    if res.rejected or not res.endpoints:
        return {"outcome": "no-endpoint", "nontrivial": False}
    viol, steps = [], 0
    with Sandbox(res.pkg_tree()) as sb:
        try:
            mod = wire.endpoint_module(sb, res.endpoints[0])
        except Exception as exc:  # noqa: BLE001
            return {"outcome": f"import-fails:{type(exc).__name__}", "nontrivial": False}
        pymap = {q["name"]: q["py"] for q in res.endpoints[0]["path_params"]}
        for base in URL_BASES:
            bu = urllib.parse.urlsplit(base)
            for val in (URL_VALUES if names else [None]):
                kwargs = {pymap[n]: (val if i == 0 else "s2") for i, n in enumerate(names)}
                filled = path
                for i, n in enumerate(names):
                    filled = filled.replace("{" + n + "}", val if i == 0 else "s2")
                want_origin = f"{bu.scheme}://{bu.netloc}"
                want_path = bu.path.rstrip("/") + filled
                got = {}
                for variant in ("sync_detailed", "asyncio_detailed"):
                    cap = wire.Capture(lambda request: __import__("httpx").Response(204))
                    r = wire.call(mod, variant, lambda: wire.make_client(sb, cap, base_url=base), cap, dict(kwargs))    # noqa: B023
                    steps += 1
                    if r is None:
                        continue
                    if not r["ok"] or not r["requests"]:
                        got[variant] = f"raises {type(r.get('exc')).__name__}"
                        continue
                    q = r["requests"][0]
                    got[variant] = (q["origin"], urllib.parse.unquote(q["path"]))
                for variant, g in got.items():
                    if g != (want_origin, urllib.parse.unquote(want_path)):
                        form = "colon-in-first-segment" if ":" in filled.split("/")[1] else ("root" if filled == "/" else ("trailing-slash" if filled.endswith("/") else "plain"))
                        viol.append({"oracle": "url", "site": variant.split("_")[0], "key": f"url-forms/{form}/{'base-with-path' if bu.path.strip('/') else 'bare-base'}",
                                     "detail": f"{variant}: path template {path!r} with {kwargs!r} on base_url {base!r} was sent to {g!r}, expected {(want_origin, want_path)!r}"})
    seen, uniq = set(), []
    for v in viol:
        k = (v["oracle"], v["site"], v["key"])
        if k not in seen:
            seen.add(k)
            uniq.append(v)
    return {"violations": uniq, "outcome": "ok" if not uniq else "viol:url", "nontrivial": True, "steps": steps}


def run_case(p):
    if p.get("mode") == "url-forms":
        return _run_url_forms(p)
    if p.get("mode") == "twin-modules":
        return _run_twin_modules(p)
    if p.get("mode") == "sequence":
        return _run_sequence(p)
    if p.get("mode") == "client-sequence":
        return _run_client_sequence(p)
    res = gen.generate(p["doc"], **p.get("options", {}))
    if res.crash:
        return {"skipped_crash": True, "outcome": f"crash:{res.crash['type']}", "nontrivial": False}
    if res.rejected or not res.endpoints:
        return {"outcome": "no-endpoint:" + (res.diags[0].short()[:70] if res.diags else "?"), "nontrivial": False}
    ep = res.endpoints[0]
    if p.get("op"):
        ep = next((e for e in res.endpoints if _norm_op(e["name"]) == _norm_op(p["op"])), None)
        if ep is None:
            text = res.diag_text()
            if p["op"] in text or p["path"] in text:
                return {"outcome": "operation-diagnosed", "nontrivial": False}
            return {"violations": [{"oracle": "operation-missing", "site": "-", "key": p["key"], "detail": f"operation {p['op']} neither generated nor diagnosed"}],
                    "outcome": "viol:operation-missing", "nontrivial": True}
    viol, steps = [], 1
    key = p["key"]
    with Sandbox(res.pkg_tree()) as sb:
        try:
            mod = wire.endpoint_module(sb, ep)
        except Exception as exc:  # C01's business  # noqa: BLE001
            return {"outcome": f"import-fails:{type(exc).__name__}", "nontrivial": False}
        cap = wire.Capture()
        sig = inspect.signature(mod.sync_detailed)
        hints = pyval.hints(mod.sync_detailed)
        # calling convention from the generator's own claims
        pymap = {}
        for loc, lst in (("path", ep["path_params"]), ("query", ep["query_params"]), ("header", ep["header_params"]), ("cookie", ep["cookie_params"])):
            for q in lst:
                pymap[(loc, q["name"])] = q["py"]
        declared = {(s["in"], s["name"]) for s in p["params"]}
        missing = declared - set(pymap)
        if missing:
            # the operation was generated but does not offer a declared parameter: it can never be sent
            text = res.diag_text()
            for loc, name in sorted(missing):
                if name not in text:
                    viol.append({"oracle": "param-not-offered", "site": loc, "key": key,
                                 "detail": f"declared {loc} parameter {name!r} is not a parameter of the generated function and no diagnostic names it"})
            return {"violations": viol, "outcome": "param-dropped", "nontrivial": bool(viol)}
        security = p.get("security", False)
        factory = lambda: wire.make_client(sb, cap, authenticated=security)  # noqa: E731
        if security:
            ann = hints.get("client")
            if ann is None or typing.get_origin(ann) is typing.Union or getattr(ann, "__name__", "") != "AuthenticatedClient":
                viol.append({"oracle": "auth-annotation", "site": "signature", "key": key, "detail": f"client annotated {ann!r}"})
        bodies = p.get("bodies") or [None]
        body_ann = hints.get("body", typing.Any)
        for bi, b in enumerate(bodies):
            if b is not None and len(bodies) > 1 and typing.get_origin(body_ann) is typing.Union and len(typing.get_args(body_ann)) == len(bodies):
                this_ann = typing.get_args(body_ann)[bi]      # the i-th declared media type's own argument type
            else:
                this_ann = body_ann
            insts = b["instances"] if b else [None]
            for inst in insts:
                for vname, vec in _arg_vectors(p):
                    if inst is not insts[0] and vname != "all-v1":
                        continue
                    kwargs, ok, pyvals = {}, True, {}
                    for (loc, name), v in vec.items():
                        py = pymap[(loc, name)]
                        try:
                            kwargs[py] = pyvals[(loc, name)] = pyval.pythonize(hints.get(py, typing.Any), v)
                        except pyval.NoFit as exc:
                            viol.append({"oracle": "annotation-rejects-sample", "site": loc, "key": key,
                                         "detail": f"{name}: {v!r} does not fit {hints.get(py)!r}: {exc}"})
                            ok = False
                    if b is not None:
                        try:
                            kwargs["body"] = pyval.pythonize(this_ann, _decode_bytes(inst))
                        except pyval.NoFit as exc:
                            viol.append({"oracle": "annotation-rejects-sample", "site": "body", "key": key,
                                         "detail": f"body {inst!r} does not fit {hints.get('body')!r}: {exc}"})
                            ok = False
                    if not ok:
                        continue
                    summaries = {}
                    for variant in wire.VARIANTS:
                        if b is not None:       # fresh body object per call (file payloads are consumed)
                            kwargs["body"] = pyval.pythonize(this_ann, _decode_bytes(inst))
                        r = wire.call(mod, variant, factory, cap, kwargs)
                        if r is None:
                            continue
                        steps += 1
                        argclass = vname.split("=")[-1] if "=" in vname else vname
                        if not r["ok"]:
                            from checks.c02 import err_class
                            viol.append({"oracle": "call-raises", "site": variant.split("_")[0], "key": f"{key}/{argclass}/{err_class(r['exc'])}",
                                         "detail": f"{variant}({vname}) raised {type(r['exc']).__name__}: {r['exc']}"})
                            continue
                        vs = _check_request(p, r["requests"], vec, (b, inst) if b else None, f"{key}/{argclass}", pyvals)
                        viol += vs
                        if r["requests"]:
                            s = wire.req_summary(r["requests"][0])
                            if "multipart/form-data" in (r["requests"][0]["content_type"] or ""):
                                s["headers"] = [h for h in s["headers"] if h[0] != "content-type"]
                                s["content"] = "<multipart>"
                            summaries[variant] = s
                            if security:
                                auth = dict(r["requests"][0]["headers"]).get("authorization")
                                if auth != "Bearer tok3n":
                                    viol.append({"oracle": "auth-header", "site": "header", "key": key, "detail": f"Authorization: {auth!r}"})
                    if len({json.dumps(s, sort_keys=True) for s in summaries.values()}) > 1:
                        viol.append({"oracle": "variants-differ", "site": "-", "key": f"{key}", "detail": json.dumps(summaries, sort_keys=True)[:800]})
        if security:
            # prefix / header-name variants of the credential
            cap2 = wire.Capture()
            for kw, want_name, want_val in (({"prefix": "Token"}, "authorization", "Token tok3n"), ({"prefix": ""}, "authorization", "tok3n"),
                                            ({"auth_header_name": "X-Api-Key", "prefix": ""}, "x-api-key", "tok3n")):
                vec = _arg_vectors(p)[0][1]
                kwargs = {pymap[k]: pyval.pythonize(hints.get(pymap[k], typing.Any), v) for k, v in vec.items()}
                if p.get("bodies"):
                    b = p["bodies"][0]
                    kwargs["body"] = pyval.pythonize(hints.get("body", typing.Any), _decode_bytes(b["instances"][0]))
                r = wire.call(mod, "sync_detailed", lambda: wire.make_client(sb, cap2, authenticated=True, **kw), cap2, kwargs)  # noqa: B023
                steps += 1
                if r and r["ok"] and r["requests"]:
                    got = dict(r["requests"][0]["headers"]).get(want_name)
                    if got != want_val:
                        viol.append({"oracle": "auth-header", "site": "header", "key": f"{key}/{sorted(kw)}", "detail": f"{want_name}: {got!r} != {want_val!r}"})
    # de-duplicate (same violation from the four variants)
    seen, uniq = set(), []
    for v in viol:
        k = (v["oracle"], v["site"], v["key"])
        if k not in seen:
            seen.add(k)
            uniq.append(v)
    return {"violations": uniq, "outcome": "ok" if not uniq else "viol:" + ",".join(sorted({v['oracle'] for v in uniq})),
            "nontrivial": steps > 1, "steps": steps}
