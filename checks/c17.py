"""C17 — equivalent documents generate identical clients (DESIGN §C17)."""
from __future__ import annotations

import copy
import io
import itertools
import json
import os
from pathlib import Path

from specmc import gen
from specmc.refmodels import kinds as K

ID = "C17"
LEVEL = "model_checking"
RULE = ("rewrites: nullable notation (3.0 nullable / 3.1 type list / trailing oneOf or anyOf null member), enum with null vs explicit "
        "union, single-element allOf/oneOf/anyOf wrapper vs bare $ref, boolean vs numeric exclusive bounds - each at every "
        "applicable position (property, item, additionalProperties, union member, parameter, body, response, component root) x "
        "kind, alone (thorough: pairs of positions); positions include component-level array items / union members and positions where ONE schema object is used several times (path-item parameter, reusable parameter / response / request body, one response under two statuses); 3.0 nullable next to both a type and a composition keyword; wrapper targets include a model with nested inline classes and a composed child (every declaration order); loaders: JSON vs YAML vs extension-less files, file vs loopback URL with 6 "
        "content types, over tricky-scalar documents and the repository's baseline documents; oracle: byte-identical trees and "
        "equal diagnostics; non-trivial = all variants generated and compared; null named first (type list vs explicit union), nullable inline enums that do not list null (3.0 vs 3.1), titled schemas, loaders under cp1252 / latin-1 / utf-16 / utf-8-sig")
FLOOR = 0.5
ASSUMPTIONS = ["only index-preserving forms are treated as the same thing (the null member is appended, members are never re-ordered)",
               "ruamel.yaml is trusted to WRITE the YAML twins"]

R = "#/components/schemas/"
POS = ["prop", "item", "addl", "union", "param", "body", "resp", "root", "root-item", "root-union"]
# positions where ONE schema object of the document is turned into generated code several times
SHARED_POS = ["pathitem-param", "comp-param", "comp-resp", "comp-resp-2status", "comp-body"]
NULL_KINDS = ["str", "int", "num", "bool", "date", "datetime", "uuid", "model_ref", "enum_ref", "inline_object", ["array", "str"], ["array", "model_ref"],
              "annotated_object", "annotated_str"]      # schemas carrying a title of their own
# (description / example of a nullable schema document the property in the type-list notations and the member in the union notation:
#  the docstrings differ legitimately, so only the title - which names the class - is carried here)
ANNOTATED = {"annotated_object": {"type": "object", "title": "Geo Point", "properties": {"lat": {"type": "number"}}},
             "annotated_str": {"type": "string", "title": "Short Code", "maxLength": 5}}


def holder(pos, sch, comps, required=False):
    """Document with schema ``sch`` at ``pos``."""
    paths = {}
    if pos == "prop":
        comps["M"] = {"type": "object", "properties": {"p": sch}, **({"required": ["p"]} if required else {})}
    elif pos == "item":
        comps["M"] = {"type": "object", "properties": {"p": {"type": "array", "items": sch}}}
    elif pos == "addl":
        comps["M"] = {"type": "object", "additionalProperties": sch}
    elif pos == "union":
        comps["M"] = {"type": "object", "properties": {"p": {"oneOf": [{"type": "boolean"}, sch]}}}
    elif pos == "param":
        paths["/x"] = {"get": {"operationId": "theOp", "parameters": [{"name": "p", "in": "query", "required": required, "schema": sch}],
                               "responses": {"204": {"description": "n"}}}}
    elif pos == "body":
        paths["/x"] = {"post": {"operationId": "theOp", "requestBody": {"required": True, "content": {"application/json": {"schema": sch}}},
                                "responses": {"204": {"description": "n"}}}}
    elif pos == "resp":
        paths["/x"] = {"get": {"operationId": "theOp", "responses": {"200": {"description": "d", "content": {"application/json": {"schema": sch}}}}}}
    elif pos == "root":
        comps["M"] = sch
        comps["User"] = {"type": "object", "properties": {"m": {"$ref": R + "M"}}}
    elif pos == "root-item":      # a component that is an array: its items are met before any model's properties are resolved
        comps["Arr"] = {"type": "array", "items": sch}
        comps["User"] = {"type": "object", "properties": {"m": {"$ref": R + "Arr"}}}
    elif pos == "root-union":
        comps["Uni"] = {"oneOf": [sch, {"type": "boolean"}]}
        comps["User"] = {"type": "object", "properties": {"m": {"$ref": R + "Uni"}}}
    elif pos in SHARED_POS:
        none = {"204": {"description": "n"}}
        extra = {}
        if pos == "pathitem-param":
            paths["/x"] = {"parameters": [{"name": "p", "in": "query", "required": required, "schema": sch}],
                           "get": {"operationId": "opA", "responses": none}, "put": {"operationId": "opB", "responses": none},
                           "post": {"operationId": "opC", "responses": none}}
        elif pos == "comp-param":
            extra["parameters"] = {"Shared": {"name": "p", "in": "query", "required": required, "schema": sch}}
            use = [{"$ref": "#/components/parameters/Shared"}]
            paths["/x"] = {"get": {"operationId": "opA", "parameters": use, "responses": none}, "post": {"operationId": "opB", "parameters": use, "responses": none}}
            paths["/y"] = {"get": {"operationId": "opC", "parameters": use, "responses": none}}
        elif pos in ("comp-resp", "comp-resp-2status"):
            extra["responses"] = {"Shared": {"description": "d", "content": {"application/json": {"schema": sch}}}}
            use = {"$ref": "#/components/responses/Shared"}
            first = {"200": use, "201": use} if pos == "comp-resp-2status" else {"200": use}
            paths["/x"] = {"get": {"operationId": "opA", "responses": first}, "post": {"operationId": "opB", "responses": {"200": use}}}
            paths["/y"] = {"get": {"operationId": "opC", "responses": {"200": use}}}
        else:
            extra["requestBodies"] = {"Shared": {"required": True, "content": {"application/json": {"schema": sch}}}}
            use = {"$ref": "#/components/requestBodies/Shared"}
            paths["/x"] = {"put": {"operationId": "opA", "requestBody": use, "responses": none}, "post": {"operationId": "opB", "requestBody": use, "responses": none}}
            paths["/y"] = {"post": {"operationId": "opC", "requestBody": use, "responses": none}}
        doc = gen.base_doc(comps or None, paths=paths)
        doc.setdefault("components", {}).update(extra)
        return doc
    return gen.base_doc(comps or None, paths=paths)


# 3.0 `nullable` next to BOTH a type and a composition keyword: the 3.1 spelling is the type list, the composition is untouched
COMPOSITES = {
    "typed-allof-ref": {"type": "object", "allOf": [{"$ref": R + "Obj"}]},
    "typed-allof-inline": {"type": "object", "allOf": [{"type": "object", "properties": {"a": {"type": "integer"}}}], "properties": {"b": {"type": "string"}}},
    "typed-allof-two": {"type": "object", "allOf": [{"$ref": R + "Obj"}, {"type": "object", "properties": {"b": {"type": "string"}}}]},
    "typed-oneof": {"type": "object", "oneOf": [{"$ref": R + "Obj"}, {"$ref": R + "Obj2"}]},
    "typed-anyof": {"type": "object", "anyOf": [{"$ref": R + "Obj"}, {"$ref": R + "Obj2"}]},
    "typed-oneof-scalar": {"type": "string", "oneOf": [{"type": "string", "format": "date"}, {"type": "string", "format": "uuid"}]},
}
COMPOSITE_COMPS = {"Obj": {"type": "object", "properties": {"z": {"type": "integer"}}}, "Obj2": {"type": "object", "required": ["y"], "properties": {"y": {"type": "string"}}}}


def composite_forms(name):
    inner = COMPOSITES[name]
    return {"t30": dict(copy.deepcopy(inner), nullable=True), "t31": dict(copy.deepcopy(inner), type=[inner["type"], "null"])}


def null_forms(kind):
    """Notation variants of 'kind or null' that must all generate the same client."""
    comps = {}
    inner = copy.deepcopy(ANNOTATED[kind]) if isinstance(kind, str) and kind in ANNOTATED else K.schema(kind, comps)
    forms = {}
    if "$ref" in inner:
        # 3.0 "nullable allOf" means oneOf[null, allOf[...]]: the index-preserving 3.1 spelling has the null member FIRST
        forms["t30"] = {"nullable": True, "allOf": [copy.deepcopy(inner)]}
        forms["oneof-null-first"] = {"oneOf": [{"type": "null"}, copy.deepcopy(inner)]}
        forms["oneof-null-first-wrapped"] = {"oneOf": [{"type": "null"}, {"allOf": [copy.deepcopy(inner)]}]}
    else:
        forms["t30"] = dict(copy.deepcopy(inner), nullable=True)
        if isinstance(inner.get("type"), str):
            forms["t31"] = dict(copy.deepcopy(inner), type=[inner["type"], "null"])
        forms["oneof"] = {"oneOf": [copy.deepcopy(inner), {"type": "null"}]}
        forms["anyof"] = {"anyOf": [copy.deepcopy(inner), {"type": "null"}]}
    return forms, comps


def null_first_forms(kind):
    """'null or kind' with null named FIRST: the 3.1 type list [null, T] and the explicit union [null-member, T-member]."""
    comps = {}
    inner = copy.deepcopy(ANNOTATED[kind]) if isinstance(kind, str) and kind in ANNOTATED else K.schema(kind, comps)
    if "$ref" in inner or not isinstance(inner.get("type"), str):
        return None, comps
    return {"t31-null-first": dict(copy.deepcopy(inner), type=["null", inner["type"]]),
            "oneof-null-first": {"oneOf": [{"type": "null"}, copy.deepcopy(inner)]}}, comps


INLINE_ENUMS = {"enum_str_inline": {"type": "string", "enum": ["a", "b"]}, "enum_int_inline": {"type": "integer", "enum": [1, 2]},
                "enum_str_inline_default": {"type": "string", "enum": ["a", "b"], "default": "b"}}


def inline_enum_forms(name):
    """A nullable inline enum that does NOT list null: 3.0 nullable vs the 3.1 type list (whatever they mean, they mean the same)."""
    inner = INLINE_ENUMS[name]
    return {"t30": dict(copy.deepcopy(inner), nullable=True), "t31": dict(copy.deepcopy(inner), type=[inner["type"], "null"])}


def enum_null_forms(values, typ, siblings=None):
    """siblings: keywords written next to the enum (default / description / example): they belong to the property in every notation"""
    base = {"type": typ, "enum": list(values)}
    sib = copy.deepcopy(siblings or {})
    return {    # the explicit union is the reference spelling: every other notation is compared with it
        "explicit-union": dict({"oneOf": [{"type": "null"}, copy.deepcopy(base)]}, **sib),
        "enum-null-untyped": dict({"enum": list(values) + [None]}, **sib),
        "enum-null-31": dict({"type": [typ, "null"], "enum": list(values) + [None]}, **sib),
    }


def wrapper_forms(target):
    ref = {"$ref": R + target}
    return {"bare": ref, "allOf": {"allOf": [copy.deepcopy(ref)]}, "oneOf": {"oneOf": [copy.deepcopy(ref)]}, "anyOf": {"anyOf": [copy.deepcopy(ref)]}}


WRAP_TARGETS = {
    "Obj": {"type": "object", "properties": {"z": {"type": "integer"}}},
    "ObjNested": {"type": "object", "properties": {"inner": {"type": "object", "properties": {"x": {"type": "integer"}}}, "kind": {"type": "string", "enum": ["k1", "k2"]}}},
    # a composed child (declared before or after its parent, see the order dimension) that owns an inline class
    "ChildNested": {"allOf": [{"$ref": R + "ParentOfChild"}, {"type": "object", "properties": {"inner": {"type": "object", "properties": {"x": {"type": "integer"}}}}}]},
    "En": {"type": "string", "enum": ["a", "b"]},
    "EnDefault": {"type": "string", "enum": ["a", "b"], "default": "b"},
    "IntDefault": {"type": "integer", "default": 20},
    "Arr": {"type": "array", "items": {"type": "string"}},
    "Dt": {"type": "string", "format": "date"},
    "NullEnum": {"enum": [None]},
}


def bound_forms():
    return {"boolean-30": {"type": "integer", "minimum": 1, "exclusiveMinimum": True, "maximum": 9, "exclusiveMaximum": True},
            "numeric-31": {"type": "integer", "exclusiveMinimum": 1, "exclusiveMaximum": 9}}


TRICKY = {"openapi": "3.1.0", "info": {"title": "Tricky ☃ \U0001f680 Api", "version": "1.10", "description": "multi\nline: yes\n  - not a list\n#not a comment"},
          "paths": {"/on": {"get": {"operationId": "yes", "tags": ["no", "on"], "summary": "null", "description": "~",
                                    "parameters": [{"name": "y", "in": "query", "schema": {"type": "string", "default": "2020-01-02", "enum": ["2020-01-02", "1e3", "0x10", "true", "null", "~", "1.0", ""]}},
                                                   {"name": "n", "in": "query", "schema": {"type": "number", "default": 1.0}},
                                                   {"name": "big", "in": "query", "schema": {"type": "integer", "default": 12345678901234567890}}],
                                    "responses": {"200": {"description": "it's: \"quoted\" & <tagged>", "content": {"application/json": {"schema": {"$ref": "#/components/schemas/On"}}}}}}}},
          "components": {"schemas": {"On": {"type": "object", "properties": {"off": {"type": "boolean", "default": False}, "1": {"type": "integer"}, "null": {"type": "string"},
                                                                           "when": {"type": "string", "format": "date-time", "default": "2020-01-02T03:04:05Z"},
                                                                           "tab\there": {"type": "string", "description": "a\tb"}}}}}}

SERVE_TYPES = [("application/json", "json"), ("application/json; charset=utf-8", "json"), ("application/yaml", "yaml"), ("text/yaml", "yaml"),
               ("text/plain", "yaml"), ("application/x-yaml; charset=utf-8", "yaml"), (None, "json"), ("text/plain", "json")]


def cases(tier):
    # nullable notations
    for kind in NULL_KINDS:
        for pos in POS:
            if pos == "param" and kind == "annotated_object":
                continue
            for req in ((False, True) if pos in ("prop", "param") else (False,)):
                yield {"labels": [f"rewrite=nullable", f"kind={K.kstr(kind)}", f"pos={pos}"] + (["req"] if req else []),
                       "payload": {"mode": "nullable", "kind": kind, "pos": pos, "required": req}}
        for pos in SHARED_POS:
            if pos.endswith("-param") and K.kstr(kind) in ("model_ref", "inline_object", "array(model_ref)", "annotated_object"):
                continue
            yield {"labels": ["rewrite=nullable", f"kind={K.kstr(kind)}", f"pos={pos}"], "payload": {"mode": "nullable", "kind": kind, "pos": pos, "required": False}}
    for kind in NULL_KINDS:
        if null_first_forms(kind)[0] is None:
            continue
        for pos in POS:
            if pos == "param" and kind == "annotated_object":
                continue
            yield {"labels": ["rewrite=nullable-null-first", f"kind={K.kstr(kind)}", f"pos={pos}"], "payload": {"mode": "nullable-first", "kind": kind, "pos": pos}}
    for name in INLINE_ENUMS:
        for pos in POS + SHARED_POS:
            for lit in (False, True):
                yield {"labels": ["rewrite=nullable", f"kind={name}", f"pos={pos}"] + (["literal_enums"] if lit else []),
                       "payload": {"mode": "nullable-inline-enum", "name": name, "pos": pos, "literal_enums": lit}}
    for name in COMPOSITES:
        for pos in POS + ["comp-resp", "comp-body"]:
            if pos == "param":
                continue
            yield {"labels": ["rewrite=nullable", f"kind={name}", f"pos={pos}"], "payload": {"mode": "nullable-composite", "name": name, "pos": pos}}
    # enum with null
    for typ, values in (("string", ["a", "b"]), ("integer", [1, 2]), ("string", ["only"])):
        for pos in POS + SHARED_POS:
            for lit in (False, True):
                yield {"labels": ["rewrite=enum-null", f"type={typ}", f"n={len(values)}", f"pos={pos}"] + (["literal_enums"] if lit else []),
                       "payload": {"mode": "enum-null", "type": typ, "values": values, "pos": pos, "literal_enums": lit}}
                # ... with sibling keywords next to the enum: a default (a listed value / null), a description + example
                for sname, sib in (("default-value", {"default": values[-1]}), ("default-null", {"default": None}), ("described", {"description": "what it is", "example": values[0]})):
                    if sname == "default-null" and pos not in ("prop", "param"):
                        continue
                    yield {"labels": ["rewrite=enum-null", f"type={typ}", f"n={len(values)}", f"pos={pos}", f"siblings={sname}"] + (["literal_enums"] if lit else []),
                           "payload": {"mode": "enum-null", "type": typ, "values": values, "pos": pos, "literal_enums": lit, "siblings": sib, "sname": sname}}
                    if sname == "described":
                        # ... under the option that changes where descriptions are written
                        yield {"labels": ["rewrite=enum-null", f"type={typ}", f"n={len(values)}", f"pos={pos}", f"siblings={sname}", "docstrings_on_attributes"] + (["literal_enums"] if lit else []),
                               "payload": {"mode": "enum-null", "type": typ, "values": values, "pos": pos, "literal_enums": lit, "siblings": sib, "sname": sname, "doa": True}}
    # single-element wrappers
    for target in WRAP_TARGETS:
        for pos in POS + SHARED_POS:
            for req in ((False, True) if pos in ("prop", "param") else (False,)):
                if pos.endswith("param") and target in ("Obj", "ObjNested", "ChildNested", "Arr"):
                    continue
                if pos == "root":
                    continue      # a component that is itself a bare $ref is not supported: not an equivalent notation
                yield {"labels": ["rewrite=wrapper", f"target={target}", f"pos={pos}"] + (["req"] if req else []),
                       "payload": {"mode": "wrapper", "target": target, "pos": pos, "required": req}}
                if target in ("ObjNested", "ChildNested") and pos in ("prop", "item", "root-item", "root-union") and not req:
                    n = 4 if target == "ChildNested" else 3
                    for perm in itertools.permutations(range(n)):
                        if perm != tuple(range(n)):
                            yield {"labels": ["rewrite=wrapper", f"target={target}", f"pos={pos}", "order=" + "".join(map(str, perm))],
                                   "payload": {"mode": "wrapper", "target": target, "pos": pos, "required": False, "order": list(perm)}}
    # exclusive bounds
    for pos in POS:
        yield {"labels": ["rewrite=exclusive-bounds", f"pos={pos}"], "payload": {"mode": "bounds", "pos": pos}}
    if tier == "thorough":
        # pairs of positions in one document
        for kind in ("str", "model_ref", "date"):
            for p1, p2 in itertools.combinations(["prop", "item", "addl", "param", "resp"], 2):
                yield {"labels": ["rewrite=nullable", f"kind={kind}", f"pos={p1}", f"pos2={p2}"],
                       "payload": {"mode": "nullable2", "kind": kind, "pos": [p1, p2]}}
    # loaders
    docs = ["tricky", "baseline30", "baseline31"] if tier == "thorough" else ["tricky", "baseline31"]
    for d in docs:
        yield {"labels": ["loaders", f"doc={d}"], "payload": {"mode": "loaders", "doc": d}}
    # YAML anchors / aliases: one list or mapping object of the loaded document used by several schemas, against the same document spelled out
    for shared in ALIAS_SHARED:
        for first in ("nullable-first", "nullable-last"):
            yield {"labels": ["loaders", "doc=aliases", f"shared={shared}", first], "payload": {"mode": "aliases", "shared": shared, "first": first}}
    # the output encoding is not the input encoding: a document with non-ASCII text, written under other --file-encoding values
    for enc in ("cp1252", "latin-1", "utf-16", "utf-8-sig"):
        yield {"labels": ["loaders", "doc=latin", f"file-encoding={enc}"], "payload": {"mode": "loaders", "doc": "latin", "encoding": enc}}


def _compare(variants, key, site="-"):
    """variants: {name: GenResult}; all must agree with the first."""
    viol = []
    names = list(variants)
    base = variants[names[0]]
    for r in variants.values():
        if r.crash:
            return None, {"skipped_crash": True, "outcome": f"crash:{r.crash['type']}@{r.crash['where']}", "nontrivial": False}
    for n in names[1:]:
        r = variants[n]
        if (base.tree is None) != (r.tree is None):
            viol.append({"oracle": "tree-bytes", "site": site, "key": f"{key}/{names[0]}~{n}", "detail": f"{names[0]} generated={base.tree is not None}, {n} generated={r.tree is not None}: {[d.short()[:200] for d in (r.diags or base.diags)][:2]}"})
            continue
        if base.tree != r.tree:
            diff = sorted(f for f in set(base.tree) | set(r.tree) if base.tree.get(f) != r.tree.get(f))
            first = diff[0]
            from checks.c20 import _first_diff
            viol.append({"oracle": "tree-bytes", "site": site, "key": f"{key}/{names[0]}~{n}",
                         "detail": f"{len(diff)} files differ between notation {names[0]} and {n}, e.g. {first}: {_first_diff(base.tree.get(first), r.tree.get(first))}"})
        elif sorted(d.level + d.detail[:60] for d in base.diags) != sorted(d.level + d.detail[:60] for d in r.diags):
            viol.append({"oracle": "diagnostics", "site": site, "key": f"{key}/{names[0]}~{n}", "detail": f"{[d.short() for d in base.diags][:2]} vs {[d.short() for d in r.diags][:2]}"})
    return viol, None


def _yaml_dump(doc):
    from ruamel.yaml import YAML
    y = YAML()                      # round-trip dumper: keeps the insertion order of mappings
    y.default_flow_style = False
    buf = io.StringIO()
    y.dump(doc, buf)
    return buf.getvalue().encode("utf-8")


ALIAS_SHARED = ["oneOf-list", "anyOf-list", "allOf-list", "enum-list", "properties-map", "member-schema", "whole-schema", "items-schema"]


def _aliases(p):
    """A 3.0 document in which two schemas share ONE Python object (what a YAML alias loads as); one user says nullable: true, the other
    does not.  Loaded from YAML with anchors, from the spelled-out YAML / JSON and from the aliased / copied dict in process: same client."""
    ref = lambda n: {"$ref": R + n}  # noqa: E731
    comps = {"Cat": {"type": "object", "properties": {"c": {"type": "string"}}}, "Dog": {"type": "object", "properties": {"d": {"type": "integer"}}}}
    sh = p["shared"]
    if sh in ("oneOf-list", "anyOf-list"):
        members = [ref("Cat"), ref("Dog")]
        a, b = {sh.split("-")[0]: members, "nullable": True}, {sh.split("-")[0]: members}
    elif sh == "allOf-list":
        members = [ref("Cat")]
        a, b = {"allOf": members, "nullable": True}, {"allOf": members}
    elif sh == "enum-list":
        values = ["x", "y"]
        a, b = {"type": "string", "enum": values, "nullable": True}, {"type": "string", "enum": values}
    elif sh == "properties-map":
        props = {"k": {"type": "string"}}
        a, b = {"type": "object", "properties": props, "nullable": True}, {"type": "object", "properties": props}
    elif sh == "member-schema":
        member = {"type": "string", "format": "date"}
        a, b = {"oneOf": [member, {"type": "integer"}], "nullable": True}, {"oneOf": [member, {"type": "integer"}]}
    elif sh == "items-schema":
        item = {"oneOf": [ref("Cat"), ref("Dog")], "nullable": True}
        a, b = {"type": "array", "items": item}, {"type": "array", "items": item, "nullable": True}
    else:
        whole = {"oneOf": [ref("Cat"), ref("Dog")], "nullable": True}
        a, b = whole, whole
    pair = [("pet", a), ("other", b)] if p["first"] == "nullable-first" else [("other", b), ("pet", a)]
    comps["Holder"] = {"type": "object", "properties": dict(pair)}
    comps.update({"Top" + k.title(): v for k, v in pair})
    doc = gen.base_doc(comps, version="3.0.3", paths={"/h": {"get": {"operationId": "getH", "responses": {"200": {"description": "d", "content": {"application/json": {"schema": ref("Holder")}}}}}}})
    ybytes = _yaml_dump(doc)
    if b"&id" not in ybytes:
        return {"harness_error": "the YAML dump carries no anchor", "outcome": "HARNESS"}
    spelled = json.loads(json.dumps(doc))
    d = gen.fresh_dir("src")
    os.makedirs(d)
    variants = {}
    try:
        files = {"spelled.json": json.dumps(spelled).encode(), "spelled.yaml": _yaml_dump(spelled), "aliased.yaml": ybytes}
        for fn, b_ in files.items():
            (Path(d) / fn).write_bytes(b_)
            variants[f"file:{fn}"] = gen.generate_from_source(Path(d) / fn)
        url = gen.serve(f"/aliases/{sh}/{p['first']}/openapi", ybytes, "application/yaml")
        variants["url:aliased-yaml"] = gen.generate_from_source(url)
        variants["in-process-copied-dict"] = gen.generate(spelled)
        variants["in-process-aliased-dict"] = gen.generate(doc)
        variants["in-process-aliased-dict-again"] = gen.generate(doc)      # the same loaded object validated a second time
    finally:
        import shutil
        shutil.rmtree(d, ignore_errors=True)
    viol, early = _compare(variants, f"aliases/{sh}", "loader")
    if early:
        return early
    return {"violations": viol, "outcome": "ok" if not viol else "viol:aliases", "nontrivial": True, "steps": len(variants)}


def _loaders(p):
    name = p["doc"]
    enc = p.get("encoding", "utf-8")
    if name == "latin":
        doc = {"openapi": "3.1.0", "info": {"title": "Café API", "version": "1.0", "description": "déjà vu: ñ ü ß"}, "paths": {"/caf\u00e9": {"get": {
            "operationId": "getCafe", "summary": "préparer", "parameters": [{"name": "côté", "in": "query", "schema": {"type": "string", "enum": ["intérieur", "extérieur"], "default": "intérieur"}}],
            "responses": {"200": {"description": "très bien", "content": {"application/json": {"schema": {"$ref": "#/components/schemas/Boisson"}}}}}}}},
            "components": {"schemas": {"Boisson": {"type": "object", "description": "une boisson", "properties": {"crème": {"type": "boolean", "default": False}, "thé": {"type": "string", "default": "rosé"}}}}}}
    elif name == "tricky":
        doc = copy.deepcopy(TRICKY)
    else:
        path = os.path.join(gen.REPO, "end_to_end_tests", "baseline_openapi_3.0.json" if name == "baseline30" else "baseline_openapi_3.1.yaml")
        if path.endswith(".json"):
            doc = json.load(open(path, encoding="utf-8"))
        else:
            from ruamel.yaml import YAML
            doc = YAML(typ="safe").load(open(path, encoding="utf-8"))
    jbytes_ascii = json.dumps(doc).encode()                       # non-ASCII as \\uXXXX escapes (surrogate pairs for non-BMP)
    jbytes_utf8 = json.dumps(doc, ensure_ascii=False, indent=2).encode("utf-8")
    ybytes = _yaml_dump(doc)
    d = gen.fresh_dir("src")
    os.makedirs(d)
    variants = {}
    try:
        variants["in-process-dict"] = gen.generate(copy.deepcopy(doc), encoding=enc) if enc != "utf-8" else gen.generate(copy.deepcopy(doc))
        files = {"doc.json": jbytes_ascii, "doc_utf8.json": jbytes_utf8, "doc.yaml": ybytes, "doc.yml": ybytes, "noext": jbytes_utf8, "noext_yaml": ybytes}
        for fn, b in files.items():
            (Path(d) / fn).write_bytes(b)
            variants[f"file:{fn}"] = gen.generate_from_source(Path(d) / fn, encoding=enc)
        for i, (ctype, fmt) in enumerate(SERVE_TYPES):
            body = ybytes if fmt == "yaml" else (jbytes_ascii if ctype and "json" in ctype else jbytes_utf8)   # JSON reaching the YAML loader: without \\u surrogate-pair escapes, which YAML does not define
            url = gen.serve(f"/{name}/{i}/openapi", body, ctype)
            variants[f"url:{ctype}:{fmt}"] = gen.generate_from_source(url, encoding=enc)
    finally:
        import shutil
        shutil.rmtree(d, ignore_errors=True)
    viol, early = _compare(variants, f"loaders/{name}" + (f"/{enc}" if enc != "utf-8" else ""), "loader")
    if early:
        return early
    return {"violations": viol, "outcome": "ok" if not viol else "viol:loaders", "nontrivial": True, "steps": len(variants)}


def run_case(p):
    mode = p["mode"]
    if mode == "loaders":
        return _loaders(p)
    if mode == "aliases":
        return _aliases(p)
    variants = {}
    opts = {}
    if mode == "nullable":
        forms, comps = null_forms(p["kind"])
        for n, sch in forms.items():
            variants[n] = gen.generate(holder(p["pos"], sch, copy.deepcopy(comps), p["required"]))
        key = f"nullable/{K.kstr(p['kind'])}/{p['pos']}"
    elif mode == "nullable-first":
        forms, comps = null_first_forms(p["kind"])
        for n, sch in forms.items():
            variants[n] = gen.generate(holder(p["pos"], sch, copy.deepcopy(comps)))
        key = f"nullable-null-first/{K.kstr(p['kind'])}/{p['pos']}"
    elif mode == "nullable-inline-enum":
        opts = {"literal_enums": p["literal_enums"]}
        for n, sch in inline_enum_forms(p["name"]).items():
            variants[n] = gen.generate(holder(p["pos"], sch, {}), **opts)
        key = f"nullable/{p['name']}/{p['pos']}" + ("/literal" if p["literal_enums"] else "")
    elif mode == "nullable-composite":
        for n, sch in composite_forms(p["name"]).items():
            variants[n] = gen.generate(holder(p["pos"], sch, copy.deepcopy(COMPOSITE_COMPS)))
        key = f"nullable/{p['name']}/{p['pos']}"
    elif mode == "nullable2":
        forms, comps = null_forms(p["kind"])
        for n, sch in forms.items():
            c = copy.deepcopy(comps)
            d1 = holder(p["pos"][0], copy.deepcopy(sch), c)
            c2 = {}
            d2 = holder(p["pos"][1], copy.deepcopy(sch), c2)
            # merge the two holders into one document
            for k, v in (d2.get("components", {}).get("schemas") or {}).items():
                d1.setdefault("components", {}).setdefault("schemas", {})["M2" if k == "M" else k] = v
            for k, v in d2["paths"].items():
                d1["paths"][k + "2"] = json.loads(json.dumps(v).replace("theOp", "theOp2"))
            variants[n] = gen.generate(d1)
        key = f"nullable2/{p['kind']}/{'+'.join(p['pos'])}"
    elif mode == "enum-null":
        opts = {"literal_enums": p["literal_enums"], **({"docstrings_on_attributes": True} if p.get("doa") else {})}
        for n, sch in enum_null_forms(p["values"], p["type"], p.get("siblings")).items():
            variants[n] = gen.generate(holder(p["pos"], sch, {}), **opts)
        key = f"enum-null/{p['type']}{len(p['values'])}/{p['pos']}" + ("/literal" if p["literal_enums"] else "") + (f"/{p['sname']}" if p.get("sname") else "") + ("/doa" if p.get("doa") else "")
    elif mode == "wrapper":
        for n, sch in wrapper_forms(p["target"]).items():
            comps = {p["target"]: copy.deepcopy(WRAP_TARGETS[p["target"]])}
            if p["target"] == "ChildNested":
                comps["ParentOfChild"] = {"type": "object", "properties": {"id": {"type": "integer"}}}
            doc = holder(p["pos"], sch, comps, p["required"])
            if p.get("order"):
                s_ = doc["components"]["schemas"]
                keys = list(s_)
                if len(keys) == len(p["order"]):
                    doc["components"]["schemas"] = {keys[i]: s_[keys[i]] for i in p["order"]}
            variants[n] = gen.generate(doc)
        key = f"wrapper/{p['target']}/{p['pos']}"
    elif mode == "bounds":
        for n, sch in bound_forms().items():
            variants[n] = gen.generate(holder(p["pos"], sch, {}))
        key = f"bounds/{p['pos']}"
    else:
        raise ValueError(mode)
    viol, early = _compare(variants, key, p["pos"] if isinstance(p["pos"], str) else "+".join(p["pos"]))
    if early:
        return early
    if all(v.tree is None for v in variants.values()):
        return {"outcome": "all-rejected", "nontrivial": False}
    return {"violations": viol, "outcome": "ok" if not viol else "viol:" + ",".join(sorted({v['oracle'] for v in viol})), "nontrivial": True, "steps": len(variants)}
