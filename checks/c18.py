"""C18 — document names cannot capture the generated code's own names (DESIGN §C18)."""
from __future__ import annotations

import ast
import builtins
import copy
import json
import keyword

from specmc import gen, wire
from specmc.sandbox import Sandbox

ID = "C18"
LEVEL = "model_checking"
RULE = ("candidates are computed on every run from the code under test: every identifier occurring in the modules generated for the "
        "control shapes (locals, parameters, attributes, methods, imported names, module names), every keyword and soft keyword, "
        "every builtin, and case variants, plus 20 ordinary names as controls; each candidate is used as the property name in 4 "
        "model shapes and as the parameter name in path/query/header/cookie x with/without a JSON body; model shapes also: typed additionalProperties with undeclared keys present, formatted siblings (uuid / date / date-time); endpoint shapes also: the candidate as nullable uuid / date parameter next to uuid and JSON-transformed siblings; all four call variants; oracle: behaviour equal to "
        "the neutral-name twin modulo the wire name, or a diagnostic; non-trivial = both generated and compared")
FLOOR = 0.5
ASSUMPTIONS = ["comparison on canonical forms in which the wire name has been replaced by a placeholder before sorting keys"]

NEUTRAL = "zqneutral"
CONTROLS = ["alpha", "beta", "gamma", "delta", "count", "name", "title", "value", "amount", "status", "owner", "created", "updated", "size", "color",
            "weight", "height", "label", "note", "flavour"]
MODEL_SHAPES = ["int", "date", "array-model", "union", "int-first", "addl-typed", "formats", "multipart", "literal-enum"]
MODEL_OPTIONS = {"literal-enum": {"literal_enums": True}}
EP_SHAPES = [(loc, body) for loc in ("path", "query", "header", "cookie") for body in (False, True)] + [("query-uuid", False), ("query-formats", True), ("path-dtq", False), ("path-after", False), ("path-before", True)]
_CANDS = {}


def _model_doc(name, shape):
    if shape == "addl-typed":
        # typed additionalProperties that need decoding, exercised with undeclared keys present
        return gen.base_doc({"Item": {"type": "object", "properties": {"Vx9q": {"type": "integer"}}},
                             "M": {"type": "object", "properties": {name: {"type": "integer"}, "other": {"type": "string"}},
                                   "additionalProperties": {"$ref": "#/components/schemas/Item"}}})
    if shape == "formats":
        # the candidate next to (before and after) siblings of every formatted kind: uuid, date, date-time, file-less binary is not JSON
        return gen.base_doc({"M": {"type": "object", "properties": {
            "before": {"type": "string", "format": "uuid"}, name: {"type": "string", "format": "uuid"},
            "other": {"type": "string", "format": "date-time"}, "sibling": {"type": "string", "format": "date"},
            "after": {"oneOf": [{"type": "string", "format": "uuid"}, {"type": "null"}]}}}})
    if shape == "multipart":
        # the model is a multipart/form-data body: to_multipart() encodes the candidate next to an array and a nested object (json.dumps)
        return gen.base_doc({"M": {"type": "object", "required": ["sibling"], "properties": {
            "sibling": {"type": "array", "items": {"type": "string"}}, name: {"type": "integer"}, "other": {"type": "object", "properties": {"Vx9q": {"type": "integer"}}}}}},
            paths={"/up": {"post": {"operationId": "upOp", "requestBody": {"required": True, "content": {"multipart/form-data": {"schema": {"$ref": "#/components/schemas/M"}}}},
                                    "responses": {"204": {"description": "n"}}}}})
    if shape == "literal-enum":
        # literal_enums: every enum sibling brings a module-level check_<class>() helper and a <CLASS>_VALUES set into the model module
        return gen.base_doc({"M": {"type": "object", "properties": {
            "sibling": {"type": "string", "enum": ["s1", "s2"]}, name: {"type": "integer"}, "other": {"type": "array", "items": {"type": "integer", "enum": [1, 2]}}}}})
    if shape == "int-first":
        # the candidate is decoded BEFORE a sibling array / union whose template locals are derived from the sibling's name
        return gen.base_doc({"M": {"type": "object", "properties": {
            name: {"type": "integer"},
            "sibling": {"type": "array", "items": {"type": "string", "format": "date"}},
            "other": {"oneOf": [{"type": "string", "format": "date"}, {"type": "null"}]}}}})
    kind = {"int": {"type": "integer"}, "date": {"type": "string", "format": "date"},
            "array-model": {"type": "array", "items": {"$ref": "#/components/schemas/Item"}},
            "union": {"oneOf": [{"type": "integer"}, {"$ref": "#/components/schemas/Item"}, {"type": "null"}]}}[shape]
    comps = {"Item": {"type": "object", "properties": {"Vx9q": {"type": "integer"}}},
             "M": {"type": "object", "required": ["sibling"], "properties": {
                 "sibling": {"type": "array", "items": {"type": "string", "format": "date"}},
                 name: kind,
                 "other": {"oneOf": [{"type": "string"}, {"type": "null"}]}}}}
    return gen.base_doc(comps)


U1, U2 = "12345678-1234-5678-1234-567812345678", "00000000-0000-4000-8000-000000000001"


def _model_instances(name, shape):
    if shape == "addl-typed":
        return [{}, {name: 5, "other": "o"}, {name: 5, "other": "o", "Ex9q": {"Vx9q": 1}, "Kx9q": {}}, {"Ex9q": {"Vx9q": 2}}, {name: 0, "Ex9q": {}}]
    if shape == "formats":
        return [{}, {name: U1}, {"before": U2, name: U1, "other": "2020-01-02T03:04:05+00:00", "sibling": "2020-01-02", "after": U2}, {name: U2, "after": None}, {"before": U1, "after": U1}]
    if shape == "multipart":
        return [{"sibling": []}, {"sibling": ["a", "b"], name: 5, "other": {"Vx9q": 1}}, {"sibling": ["a"], name: 0}]
    if shape == "literal-enum":
        return [{}, {"sibling": "s1", name: 5, "other": [1, 2]}, {name: 0, "other": []}, {"sibling": "s2"}]
    if shape == "int-first":
        return [{}, {name: 5, "sibling": ["2021-01-01", "2021-01-02"], "other": "2020-02-02"}, {name: 0, "sibling": [], "other": None, "Ex9q": 1}, {name: 3}]
    v = {"int": [5, 0], "date": ["2020-01-02"], "array-model": [[{"Vx9q": 1}, {}], []], "union": [3, {"Vx9q": 2}, None]}[shape]
    out = [{"sibling": ["2021-01-01"]}]
    for x in v:
        out.append({"sibling": [], name: copy.deepcopy(x), "other": "o", "Ex9q": {"Kx9q": 1}})
        out.append({"sibling": ["2021-01-01", "2021-01-02"], name: copy.deepcopy(x), "other": None})
    return out


def _ep_doc(name, loc, body):
    if loc in ("query-uuid", "query-formats"):
        # the candidate is itself a (nullable) uuid parameter; siblings of the other formatted kinds; a JSON-transformed array sibling
        cand = {"oneOf": [{"type": "string", "format": "uuid"}, {"type": "null"}]} if loc == "query-uuid" else {"type": "string", "format": "date"}
        op = {"operationId": "theOp", "parameters": [{"name": name, "in": "query", "required": False, "schema": cand},
                                                      {"name": "fixedq", "in": "query", "required": True, "schema": {"type": "integer"}},
                                                      {"name": "other", "in": "query", "schema": {"type": "string", "format": "uuid"}},
                                                      {"name": "sibling", "in": "query", "schema": {"type": "array", "items": {"type": "string", "format": "date-time"}}}],
              "responses": {"200": {"description": "d", "content": {"application/json": {"schema": {"$ref": "#/components/schemas/Out"}}}}}}
        if body:
            op["requestBody"] = {"required": True, "content": {"application/json": {"schema": {"$ref": "#/components/schemas/In"}}}}
        comps = {"Out": {"type": "object", "properties": {"ok": {"type": "boolean"}}}, "In": {"type": "object", "properties": {"payload": {"type": "string"}}}}
        return gen.base_doc(comps, paths={"/things": {"post": op}})
    if loc in ("path-after", "path-before"):
        # COUNT: two path parameters; the candidate comes after / before one whose name is already its identifier
        op = {"operationId": "theOp", "parameters": [{"name": "grp", "in": "path", "required": True, "schema": {"type": "string"}},
                                                      {"name": name, "in": "path", "required": True, "schema": {"type": "string"}},
                                                      {"name": "fixedq", "in": "query", "required": True, "schema": {"type": "integer"}}],
              "responses": {"200": {"description": "d", "content": {"application/json": {"schema": {"$ref": "#/components/schemas/Out"}}}}}}
        if body:
            op["requestBody"] = {"required": True, "content": {"application/json": {"schema": {"$ref": "#/components/schemas/In"}}}}
        comps = {"Out": {"type": "object", "properties": {"ok": {"type": "boolean"}}}, "In": {"type": "object", "properties": {"payload": {"type": "string"}}}}
        path = "/groups/{grp}/things/{" + name + "}/tail" if loc == "path-after" else "/things/{" + name + "}/groups/{grp}"
        return gen.base_doc(comps, paths={path: {"post": op}})
    if loc == "path-dtq":
        # the candidate is a PATH parameter next to query parameters that are transformed into json_<name> locals before the URL is built
        op = {"operationId": "theOp", "parameters": [{"name": name, "in": "path", "required": True, "schema": {"type": "string"}},
                                                      {"name": "fixedq", "in": "query", "required": True, "schema": {"type": "integer"}},
                                                      {"name": "sibling", "in": "query", "required": True, "schema": {"type": "string", "format": "date-time"}},
                                                      {"name": "other", "in": "query", "required": True, "schema": {"type": "array", "items": {"type": "string", "format": "date"}}}],
              "responses": {"200": {"description": "d", "content": {"application/json": {"schema": {"$ref": "#/components/schemas/Out"}}}}}}
        comps = {"Out": {"type": "object", "properties": {"ok": {"type": "boolean"}}}}
        return gen.base_doc(comps, paths={"/things/{" + name + "}/tail": {"post": op}})
    path = "/things/{" + name + "}/tail" if loc == "path" else "/things"
    op = {"operationId": "theOp", "parameters": [{"name": name, "in": loc, "required": loc == "path", "schema": {"type": "string"}},
                                                  {"name": "fixedq", "in": "query", "required": True, "schema": {"type": "integer"}}],
          "responses": {"200": {"description": "d", "content": {"application/json": {"schema": {"$ref": "#/components/schemas/Out"}}}}}}
    if body:
        op["requestBody"] = {"required": True, "content": {"application/json": {"schema": {"$ref": "#/components/schemas/In"}}}}
    comps = {"Out": {"type": "object", "properties": {"ok": {"type": "boolean"}}}, "In": {"type": "object", "properties": {"payload": {"type": "string"}}}}
    return gen.base_doc(comps, paths={path: {"post": op}})


def _identifiers(src, role_prefix):
    """{name: role} for every identifier of a generated module."""
    roles = {}
    tree = ast.parse(src)

    def put(n, role):
        roles.setdefault(n, role)
    for node in tree.body:
        if isinstance(node, (ast.Import, ast.ImportFrom)):
            for a in node.names:
                put((a.asname or a.name).split(".")[0], "import")
                if isinstance(node, ast.ImportFrom) and node.module:
                    for part in node.module.split("."):
                        put(part, "module-name")
    for node in ast.walk(tree):
        if isinstance(node, (ast.FunctionDef, ast.AsyncFunctionDef)):
            put(node.name, "function" if role_prefix == "endpoint" else "method")
            for a in node.args.args + node.args.kwonlyargs:
                put(a.arg, f"param:{node.name}")
            for sub in ast.walk(node):
                if isinstance(sub, ast.Name):
                    put(sub.id, f"local:{node.name}")
                elif isinstance(sub, ast.Attribute):
                    put(sub.attr, "attribute")
                elif isinstance(sub, ast.keyword) and sub.arg:
                    put(sub.arg, "keyword-argument")
        elif isinstance(node, ast.ClassDef):
            put(node.name, "class")
            for st in node.body:
                if isinstance(st, ast.AnnAssign) and isinstance(st.target, ast.Name):
                    put(st.target.id, "class-attribute")
        elif isinstance(node, ast.Name):
            put(node.id, "module-global")
    return roles


def candidates():
    if _CANDS:
        return _CANDS
    roles = {}
    for shape in MODEL_SHAPES:
        r = gen.generate(_model_doc(NEUTRAL, shape), **MODEL_OPTIONS.get(shape, {}))
        for f, b in r.tree.items():
            if f.startswith("models/") or f == "types.py":
                for n, role in _identifiers(b.decode(), "model").items():
                    roles.setdefault(n, f"model:{role}")
    for loc, body in EP_SHAPES:
        r = gen.generate(_ep_doc(NEUTRAL, loc, body))
        for f, b in r.tree.items():
            if f.startswith("api/") and not f.endswith("__init__.py"):
                for n, role in _identifiers(b.decode(), "endpoint").items():
                    roles.setdefault(n, f"endpoint:{role}")
    for k in keyword.kwlist + keyword.softkwlist:
        roles.setdefault(k, "keyword")
    for b in dir(builtins):
        if not b.startswith("__"):
            roles.setdefault(b, "builtin")
    extra = {}
    for n, role in roles.items():
        for variant in (n.lower(), n.upper(), n.capitalize(), n.rstrip("_"), n.lstrip("_"), n + "_", "_" + n):
            if variant and variant not in roles and variant.isidentifier():
                extra.setdefault(variant, f"variant-of:{role}")
    # names derived from the sibling property by the templates
    for d in ("sibling_item", "sibling_item_data", "_sibling", "sibling_type_0", "other_type_0", "_parse_other", "json_fixedq", "fixedq_query"):
        roles.setdefault(d, "derived-from-sibling")
    roles.update({k: v for k, v in extra.items() if len(k) <= 24})
    for c in CONTROLS:
        roles[c] = "control"
    for fixed in ("other", "sibling", "fixedq", "payload", "ok", "Vx9q", "Ex9q", "Kx9q", "Other", "Sibling", "OTHER", "SIBLING", "other_", "sibling_", "_other", "_sibling_",
                  "before", "after", "Before", "After", "BEFORE", "AFTER", "before_", "after_", "_before", "_after"):
        roles.pop(fixed, None)          # names the shapes themselves use for the fixed pieces
    roles.pop(NEUTRAL, None)
    for n in list(roles):
        if NEUTRAL in n:
            roles.pop(n)
    _CANDS.update(roles)
    return _CANDS


def cases(tier):
    cands = candidates()
    variants_ok = tier == "thorough"
    for n, role in sorted(cands.items()):
        if role.startswith("variant-of") and not variants_ok and not role.startswith(("variant-of:model:local", "variant-of:endpoint:local", "variant-of:keyword")):
            continue
        for shape in MODEL_SHAPES:
            yield {"labels": [f"name={n}", f"shape=model-{shape}"], "payload": {"name": n, "role": role, "shape": ["model", shape]}}
        for loc, body in EP_SHAPES:
            yield {"labels": [f"name={n}", f"shape={loc}{'+body' if body else ''}"], "payload": {"name": n, "role": role, "shape": ["endpoint", loc, body]}}
    cases.info = {"extra": {"candidates": len(cands), "roles": sorted({r.split(":")[0] + ":" + r.split(":")[1] if ":" in r else r for r in cands.values()})[:40]}}


def _canon(obj, name):
    """Replace the wire name by a placeholder (keys and string values), then dump with sorted keys."""
    def walk(o):
        if isinstance(o, dict):
            return {("<NAME>" if k == name else k): walk(v) for k, v in o.items()}
        if isinstance(o, list):
            return [walk(x) for x in o]
        if isinstance(o, tuple):
            return [walk(x) for x in o]
        if isinstance(o, str):
            return "<NAME>" if o == name or o.lower() == name.lower() and len(name) > 0 and o.lower() == o and False else o
        return o
    return json.dumps(walk(obj), sort_keys=True, default=str)


def _behaviour_model(name, shape):
    from checks.c02 import find_class
    res = gen.generate(_model_doc(name, shape), **MODEL_OPTIONS.get(shape, {}))
    if res.crash:
        return ("crash", res.crash)
    if res.rejected or res.diags:
        return ("diag", [d.short()[:100] for d in res.diags])
    out = []
    with Sandbox(res.pkg_tree()) as sb:
        try:
            cls = find_class(res, sb, "M")
        except Exception as exc:  # noqa: BLE001
            return ("broken", f"import: {type(exc).__name__}: {str(exc)[:120]}")
        if cls is None:
            return ("diag", ["model missing"])
        for inst in _model_instances(name, shape):
            try:
                o = cls.from_dict(copy.deepcopy(inst))
                e = o.to_dict()
                o2 = cls.from_dict(copy.deepcopy(e))
                row = ["ok", e, o2 == o, sorted(o.additional_keys)]
                if shape == "multipart":
                    try:
                        row.append({k: ([x.decode("latin-1") if isinstance(x, bytes) else x for x in v] if isinstance(v, tuple) else repr(v)) for k, v in dict(o.to_multipart()).items()})      # a dict: keys are canonicalised BEFORE sorting
                    except Exception as exc:  # noqa: BLE001
                        row.append(["to_multipart raises", type(exc).__name__])
                out.append(row)
            except Exception as exc:  # noqa: BLE001
                out.append(["raises", type(exc).__name__])
    try:
        return ("ok", _canon(out, name))
    except (RecursionError, ValueError) as exc:
        return ("ok", f"<unserialisable behaviour: {type(exc).__name__}>")


def _behaviour_ep(name, loc, body):
    res = gen.generate(_ep_doc(name, loc, body))
    if res.crash:
        return ("crash", res.crash)
    if res.rejected or res.diags or not res.endpoints:
        return ("diag", [d.short()[:100] for d in res.diags])
    ep = res.endpoints[0]
    out = []
    with Sandbox(res.pkg_tree()) as sb:
        try:
            mod = wire.endpoint_module(sb, ep)
            models = sb.mod("models")
        except Exception as exc:  # noqa: BLE001
            return ("broken", f"import: {type(exc).__name__}: {str(exc)[:120]}")
        import httpx
        cap = wire.Capture(lambda request: httpx.Response(200, json={"ok": True}))
        real_loc = "query" if loc.startswith("query-") else ("path" if loc.startswith("path-") else loc)
        mine = [q for q in ep[f"{real_loc}_params"] if q["name"] == name] or ep[f"{real_loc}_params"][:1]
        py = mine[0]["py"] if mine else None
        fixed = next(q["py"] for q in ep["query_params"] if q["name"] == "fixedq")
        if py is None:
            return ("diag", ["parameter not offered"])
        import datetime
        import uuid as _uuid
        argvals = ("Wv1",) if real_loc == "path" else ("Wv1", None)
        extra = {}
        if loc in ("path-after", "path-before"):
            extra[next(q["py"] for q in ep["path_params"] if q["name"] == "grp")] = "Gv2"
        if loc == "path-dtq":
            for q in ep["query_params"]:
                if q["name"] == "sibling":
                    extra[q["py"]] = datetime.datetime(2020, 1, 2, 3, 4, 5)
                if q["name"] == "other":
                    extra[q["py"]] = [datetime.date(2021, 2, 3)]
        if loc == "query-uuid":
            argvals = (_uuid.UUID(U1), None, "<none>")
        elif loc == "query-formats":
            argvals = (datetime.date(2020, 1, 2), None)
        if loc.startswith("query-"):
            for q in ep["query_params"]:
                if q["name"] == "other":
                    extra[q["py"]] = _uuid.UUID(U2)
                if q["name"] == "sibling":
                    extra[q["py"]] = [datetime.datetime(2020, 1, 2, 3, 4, 5)]
        for argval in argvals:
            kwargs = {fixed: 7, **extra}
            if argval == "<none>":
                kwargs[py] = None
            elif argval is not None:
                kwargs[py] = argval
            if body:
                kwargs["body"] = models.In.from_dict({"payload": "Wp"})
            for variant in wire.VARIANTS:      # all four: the plain variants call the detailed ones by name
                r = wire.call(mod, variant, lambda: wire.make_client(sb, cap), cap, kwargs)
                if r is None:
                    continue
                if not r["ok"]:
                    out.append(["raises", variant, type(r["exc"]).__name__])
                else:
                    val = r["value"]
                    parsed = val.parsed if hasattr(val, "parsed") else val
                    s = wire.req_summary(r["requests"][0]) if r["requests"] else None
                    if s:
                        s["query"] = sorted([["<NAME>" if k == name else k, v] for k, v in s["query"]])
                        s["headers"] = sorted([["<NAME>" if k == name.lower() else k, v] if k != "cookie" else [k, v.replace(name + "=", "<NAME>=")] for k, v in s["headers"]])
                    out.append(["ok", variant, s, parsed.to_dict() if hasattr(parsed, "to_dict") else repr(parsed)])
    return ("ok", json.dumps(out, sort_keys=True, default=str))


_NEUTRAL_CACHE = {}


def _neutral(shape):
    k = json.dumps(shape)
    if k not in _NEUTRAL_CACHE:
        _NEUTRAL_CACHE[k] = _behaviour_model(NEUTRAL, shape[1]) if shape[0] == "model" else _behaviour_ep(NEUTRAL, shape[1], shape[2])
    return _NEUTRAL_CACHE[k]


def run_case(p):
    name, shape = p["name"], p["shape"]
    base = _neutral(shape)
    if base[0] != "ok":
        return {"harness_error": f"neutral shape {shape} did not generate cleanly: {base}", "outcome": "HARNESS"}
    got = _behaviour_model(name, shape[1]) if shape[0] == "model" else _behaviour_ep(name, shape[1], shape[2])
    shape_name = "model-" + shape[1] if shape[0] == "model" else f"{shape[1]}{'+body' if shape[2] else ''}"
    role = candidates().get(name, p.get("role", "?"))
    if got[0] == "crash":
        return {"skipped_crash": True, "outcome": f"crash:{got[1]['type']}@{got[1]['where']}", "nontrivial": False}
    if got[0] == "diag":
        return {"outcome": "rejected-with-diagnostic", "nontrivial": True}
    viol = []
    if got[0] == "broken":
        viol.append({"oracle": "captured-breaks-module", "site": shape_name, "key": f"{role}/{name}", "detail": f"name {name!r}: {got[1]}"})
    elif got[1] != base[1]:
        viol.append({"oracle": "behaviour-differs", "site": shape_name, "key": f"{role}/{name}",
                     "detail": f"name {name!r} ({role}): {got[1][:400]}  !=  neutral: {base[1][:400]}"})
    return {"violations": viol, "outcome": "ok" if not viol else "viol:" + viol[0]["oracle"], "nontrivial": True, "steps": 2}
