"""C05 — document text is only ever data, never code (DESIGN §C05)."""
from __future__ import annotations

import ast
import copy
import itertools
import json
import tomllib

from specmc import gen, trees, wire
from specmc.sandbox import Sandbox

ID = "C05"
LEVEL = "model_checking"
RULE = ("slots = every string leaf and every name-bearing map key of the base documents, found by walking the JSON; payloads = 19 "
        "hostile classes wrapped in canary letters; quick: every (slot, payload) single with setup metadata; thorough: also all "
        "metadata flavours x docstrings_on_attributes x literal_enums and all pairs of slots for the opener/closer payloads; plus colliding-sibling names (the generator's conflict-fallback spelling), literal_enums for enum/const/default slots, request media types carrying parameters (2 stems x every payload), date / date-time defaults with 17 separator characters; oracle: "
        "differential against the benign twin (string-erased ASTs equal), marker-name absence, TOML validity, executed "
        "character-for-character recovery; non-trivial = both documents were generated and compared; runs of 3/4/5/7 double quotes, names under the 3.1 single-entry type-list notation")
FLOOR = 0.5
ASSUMPTIONS = ["Python's ast decides what is code", "hostile characters are disjoint from \\w and from the generator's delimiters, so twin and hostile documents sanitise to the same identifiers"]

HOSTILE = set('"\'\\\n\r{}#()+;=')
MARK = "Qz9Marker"
PAYLOADS = {
    "dq": 'cA"cB', "sq": "cA'cB", "tdq": 'cA"""cB', "tsq": "cA'''cB", "bs_dq": 'cA\\"cB', "bs_sq": "cA\\'cB", "trail_bs": "cAcB\\",
    "bsbs_dq": 'cA\\\\"cB', "nl": "cA\ncB", "cr": "cA\rcB", "brace": "cA{cB}", "lbrace": "cA{cB", "rbrace": "cA}cB", "fmt0": "cA{0}cB",
    "hash": "cA#cB", "doc_inject": 'cA"""+%s()+"""cB' % MARK, "str_inject": 'cA"+%s()+"cB' % MARK, "sstr_inject": "cA'+%s()+'cB" % MARK,
    "qdq": 'cA""""cB', "q5dq": 'cA"""""cB', "q7dq": 'cA"""""""cB', "trail_qdq": 'cAcB""""',      # runs of quotes whose length is not a multiple of three
    # both triple-quote styles in one text (a delimiter chosen by looking at one of them is closed by the other)
    "tdq_tsq_inject": 'cA"""cB\'\'\'+%s()+\'\'\'cC' % MARK, "tsq_tdq_inject": "cA\'\'\'cB\"\"\"+%s()+\"\"\"cC" % MARK, "tsq_inject": "cA\'\'\'+%s()+\'\'\'cB" % MARK,
    "dq_sq_inject": 'cA"cB\'+%s()+\'cC' % MARK,
    "esc_n": "cA\\ncB", "esc_x": "cA\\x41cB", "trail_dq": 'cAcB"', "toml_ml": 'cA"""\n[x]\ny="""cB',
}
PAIR_PAYLOADS = ["tdq", "doc_inject", "str_inject", "trail_bs"]


def twin_text(s):
    return "".join(ch for ch in s if ch not in HOSTILE)


def base1():
    return {"openapi": "3.1.0", "info": {"title": "Tt", "version": "1.0", "description": "idesc", "summary": "isum", "termsOfService": "itos",
                                          "contact": {"name": "icn", "email": "ice"}, "license": {"name": "iln", "identifier": "ili"}},
            "servers": [{"url": "surl", "description": "sdesc"}],
            "tags": [{"name": "tg", "description": "tgd", "externalDocs": {"url": "tgu", "description": "tged"}}],
            "externalDocs": {"url": "edu", "description": "edd"},
            "paths": {"/p/{pid}": {"summary": "ps", "description": "pd", "parameters": [
                {"name": "pid", "in": "path", "required": True, "schema": {"type": "string"}, "description": "ppd"}],
                "post": {"tags": ["tg"], "operationId": "opid", "summary": "osum", "description": "odesc",
                         "externalDocs": {"url": "oedu", "description": "oedd"},
                         "parameters": [
                             {"name": "qn", "in": "query", "description": "qd", "example": "qpex",
                              "schema": {"type": "string", "default": "qdef", "description": "qsd", "example": "qex"}},
                             {"name": "hn", "in": "header", "schema": {"type": "string"}, "description": "hd"},
                             {"name": "cn", "in": "cookie", "schema": {"type": "string"}},
                             {"name": "qe", "in": "query", "schema": {"type": "string", "enum": ["qe1", "qe2"], "default": "qe2"}}],
                         "requestBody": {"description": "rbd", "content": {"application/json": {"schema": {"$ref": "#/components/schemas/Mm"}, "example": "rbex"}}},
                         "responses": {"200": {"description": "rd", "content": {"application/json": {"schema": {"$ref": "#/components/schemas/Mm"}}},
                                               "headers": {"X-Rh": {"description": "rhd", "schema": {"type": "string"}}}}}}}},
            "components": {"schemas": {
                "Mm": {"type": "object", "title": "mt", "description": "md", "example": "mex", "required": ["rq"],
                       "externalDocs": {"url": "medu", "description": "medd"}, "xml": {"name": "mxn"},
                       "properties": {
                           "rq": {"type": "string", "description": "rqd"},
                           "pn": {"type": "string", "title": "pt", "description": "pdsc", "default": "pdef", "example": "pex", "pattern": "ppat", "format": "pfmt"},
                           "en": {"type": "string", "enum": ["ev1", "ev2"], "default": "ev1", "description": "ed", "title": "et"},
                           "cs": {"const": "cval", "description": "cd"},
                           "ar": {"type": "array", "items": {"type": "string", "description": "aid"}, "description": "ad", "example": "aex"},
                           "un": {"oneOf": [{"type": "string", "description": "u0d"}, {"type": "integer"}], "description": "ud"},
                           "ob": {"type": "object", "description": "obd", "title": "obt", "properties": {"ip": {"type": "integer", "description": "ipd"}}},
                           "dt": {"type": "string", "format": "date", "description": "dtd", "example": "dtex"},
                           "rf": {"$ref": "#/components/schemas/Ee"}}},
                "Ee": {"type": "string", "enum": ["x1", "x2"], "description": "eed", "title": "eet", "default": "x1"}},
                "securitySchemes": {"ss": {"type": "http", "scheme": "bearer", "description": "ssd", "bearerFormat": "ssbf"}}}}


def base2():
    return {"openapi": "3.0.3", "info": {"title": "Second Api", "version": "2.0.1"},
            "paths": {"/form": {"put": {"operationId": "putForm", "tags": ["t1", "t2"],
                                        "requestBody": {"content": {"application/x-www-form-urlencoded": {"schema": {"$ref": "#/components/schemas/Fm"}},
                                                                    "multipart/form-data": {"schema": {"type": "object", "description": "mpd", "properties": {
                                                                        "fl": {"type": "string", "format": "binary", "description": "fld"}, "nt": {"type": "string", "default": "ntdef"}}}}}},
                                        "parameters": [{"$ref": "#/components/parameters/Cp"},
                                                       {"name": "ia", "in": "query", "schema": {"type": "integer", "default": 5, "description": "iad"}},
                                                       {"name": "le", "in": "header", "schema": {"type": "string", "enum": ["h1", "h2"]}}],
                                        "responses": {"200": {"description": "ok200", "content": {"text/plain": {"schema": {"type": "string", "description": "tpd"}}}},
                                                      "404": {"$ref": "#/components/responses/Nf"},
                                                      "default": {"description": "dfl"}}}},
                      "/raw": {"get": {"summary": "rawsum", "responses": {"200": {"description": "bin", "content": {"application/octet-stream": {"schema": {"type": "string", "format": "binary"}}}}}}}},
            "components": {"schemas": {
                "Fm": {"type": "object", "description": "fmd", "additionalProperties": {"type": "string", "description": "apd"},
                       "properties": {"fa": {"type": "string", "nullable": True, "description": "fad"},
                                      "ie": {"type": "integer", "enum": [1, 2], "description": "ied"},
                                      "dd": {"type": "string", "format": "date-time", "default": "2020-01-02T03:04:05Z", "description": "ddd"},
                                      "ch": {"allOf": [{"$ref": "#/components/schemas/Ch"}], "description": "chd"}}},
                "Ch": {"allOf": [{"$ref": "#/components/schemas/Pa"}, {"type": "object", "description": "chmd", "properties": {"cx": {"type": "string", "default": "cxdef", "description": "cxd"}}}]},
                "Pa": {"type": "object", "description": "pad", "properties": {"px": {"type": "number", "description": "pxd"}}},
                "Nu": {"type": "string", "enum": ["n1", None], "nullable": True, "description": "nud"}},
                "parameters": {"Cp": {"name": "cp", "in": "query", "description": "cpd", "schema": {"type": "string", "default": "cpdef"}}},
                "responses": {"Nf": {"description": "nfd", "content": {"application/json": {"schema": {"$ref": "#/components/schemas/Pa"}}}}}}}


BASES = {"b1": base1, "b2": base2}
KEY_MAPS = ("paths", "schemas", "properties", "content", "parameters#comp", "responses#comp", "securitySchemes", "headers")


def find_slots(d, path=()):
    out = []
    if isinstance(d, dict):
        for k, v in d.items():
            parent = path[-1] if path else None
            name_bearing = parent in ("paths", "schemas", "properties", "content", "securitySchemes", "headers") or (
                parent in ("parameters", "responses") and len(path) >= 2 and path[-2] == "components")
            if name_bearing:
                out.append(("key", list(path), k))
            out += find_slots(v, path + (k,))
    elif isinstance(d, list):
        for i, v in enumerate(d):
            out += find_slots(v, path + (i,))
    elif isinstance(d, str):
        if path and path[-1] in ("openapi", "in", "type", "format", "scheme") and d in ("3.1.0", "3.0.3", "path", "query", "header", "cookie", "string", "integer",
                                                                                            "object", "array", "number", "http", "bearer", "binary", "date", "date-time"):
            return out            # structural keywords, not free text
        out.append(("val", list(path), d))
    return out


def slot_name(slot):
    kind, path, old = slot
    return kind + ":" + "/".join(str(x) for x in path) + ("=" + old if kind == "key" else "")


def set_slot(doc, slot, fn):
    kind, path, old = slot
    d = doc
    if kind == "val":
        for p in path[:-1]:
            d = d[p]
        if isinstance(d[path[-1]], str) and d[path[-1]].startswith("#/components/"):
            d[path[-1]] = fn(old)
        else:
            d[path[-1]] = fn(old)
        return doc
    for p in path:
        d = d[p]
    new = fn(old)
    items = [(new if k == old else k, v) for k, v in d.items()]
    d.clear()
    d.update(items)
    last = path[-1]
    if last in ("schemas", "parameters", "responses") and len(path) >= 2 and path[-2] == "components":
        a = json.dumps(f"#/components/{last}/{old}")[1:-1]
        b = json.dumps(f"#/components/{last}/{new}")[1:-1]
        s = json.dumps(doc).replace(a, b)
        doc.clear()
        doc.update(json.loads(s))
    if last == "properties":
        par = doc
        for p in path[:-1]:
            par = par[p]
        if old in par.get("required", []):
            par["required"] = [new if x == old else x for x in par["required"]]
    if last == "securitySchemes":
        pass
    return doc


def _mk(base, slots_payloads, meta, options, collide=False):
    H, T = BASES[base](), BASES[base]()
    # deeper slots first: renaming a map key invalidates the recorded paths of the slots below it
    for slot, pay in sorted(slots_payloads, key=lambda sp: -len(sp[0][1]) - (0 if sp[0][0] == "key" else 1)):
        set_slot(H, slot, lambda old, pay=pay: old + PAYLOADS[pay])
        set_slot(T, slot, lambda old, pay=pay: old + twin_text(PAYLOADS[pay]))
    out = {"hostile": H, "twin": T, "meta": meta, "options": options, "base": base,
           "slots": [[slot_name(s), pay] for s, pay in slots_payloads]}
    if len(slots_payloads) > 1:
        out["raw_slots"] = [[list(s), pay] for s, pay in slots_payloads]
    if collide:
        slot, pay = slots_payloads[0]
        out["collide"] = {"kind": slot[0], "path": slot[1], "hostile_name": slot[2] + PAYLOADS[pay], "twin_name": slot[2] + twin_text(PAYLOADS[pay])}
    return out


def _collidable(slot):
    """Name slots whose Python identifier is de-conflicted inside one scope: model properties, non-path parameters."""
    kind, path, old = slot
    if kind == "key" and path[-1] == "properties":
        return True
    return kind == "val" and path[-1] == "name" and len(path) >= 3 and path[-3] == "parameters" and isinstance(path[-2], int) and old not in ("pid",)


def _add_colliding_sibling(doc, c, which):
    """Add, next to the renamed property / parameter, a sibling whose name IS the Python identifier the generator derives for it
    (asked from the generator's own naming function), so both fall back to the conflict spelling of their document names."""
    from openapi_python_client.utils import PythonIdentifier
    name = c[which]
    sib = str(PythonIdentifier(name, "field_"))
    if sib == name:
        return None
    d = doc
    if c["kind"] == "key":
        for k in c["path"]:
            d = d[k]
        if sib in d:
            return None
        d[sib] = {"type": "string"}
    else:
        for k in c["path"][:-2]:
            d = d[k]
        me = d[c["path"][-2]]
        if any(isinstance(q, dict) and q.get("name") == sib for q in d):
            return None
        d.append({"name": sib, "in": me["in"], "schema": {"type": "string"}})
    return sib


def cases(tier):
    n_slots = 0
    for base, mk in BASES.items():
        slots = [s for s in find_slots(mk()) if not (s[0] == "key" and s[1][-1] == "responses")]
        n_slots += len(slots)
        metas = [("setup", {})] if tier == "quick" else [("setup", {}), ("poetry", {}), ("pdm", {}), ("none", {}),
                                                           ("setup", {"docstrings_on_attributes": True}), ("none", {"literal_enums": True})]
        for slot in slots:
            for pay in PAYLOADS:
                these = metas
                if tier == "quick" and slot[1] and slot[1][0] == "info":
                    these = metas + [("poetry", {}), ("pdm", {})]
                for meta, opts in these:
                    labels = [f"slot={base}:{slot_name(slot)}", f"payload={pay}"] + ([f"meta={meta}"] if meta != "setup" else []) + [f"{k}" for k in opts]
                    yield {"labels": labels, "payload": _mk(base, [(slot, pay)], meta, opts)}
        # names that collide with a sibling after normalisation take the generator's conflict-fallback spelling
        for slot in slots:
            if _collidable(slot):
                for pay in PAYLOADS:
                    yield {"labels": [f"slot={base}:{slot_name(slot)}", f"payload={pay}", "colliding-sibling"],
                           "payload": _mk(base, [(slot, pay)], "none", {}, collide=True)}
        if base == "b1":
            # 3.1 single-entry type lists (type: ["string"]) as the notation of every typed schema: names travel another code path
            for slot in slots:
                if _collidable(slot) or (slot[0] == "val" and slot[1][-1] == "name"):
                    for pay in PAYLOADS:
                        yield {"labels": [f"slot={base}:{slot_name(slot)}", f"payload={pay}", "single-type-lists"],
                               "payload": dict(_mk(base, [(slot, pay)], "none", {}), type_lists=True)}
        if base == "b1":
            # a request media type that carries a parameter: the parameter's text is run-time text (the Content-Type that is sent)
            content_slot = next(s_ for s_ in slots if s_[0] == "key" and s_[1][-1] == "content" and "requestBody" in s_[1])
            for stem in ("application/json; profile=pv", "application/vnd.api+json; charset=utf-8; v=1"):
                for pay in PAYLOADS:
                    yield {"labels": [f"slot={base}:{slot_name(content_slot)}", f"media={stem}", f"payload={pay}", "media-parameter"],
                           "payload": dict(_mk(base, [(content_slot, pay)], "none", {}), media_stem=stem)}
        if tier == "quick":
            # literal_enums changes how enum / const / default values are written
            for slot in slots:
                if slot[0] == "val" and ("enum" in slot[1] or slot[1][-1] in ("default", "const")):
                    for pay in PAYLOADS:
                        yield {"labels": [f"slot={base}:{slot_name(slot)}", f"payload={pay}", "literal_enums"],
                               "payload": _mk(base, [(slot, pay)], "none", {"literal_enums": True})}
        if tier == "quick":
            # docstrings_on_attributes changes which docstring sites exist: description slots only
            for slot in slots:
                if slot[0] == "val" and slot[1][-1] in ("description", "title", "example"):
                    for pay in PAYLOADS:
                        yield {"labels": [f"slot={base}:{slot_name(slot)}", f"payload={pay}", "docstrings_on_attributes"],
                               "payload": _mk(base, [(slot, pay)], "none", {"docstrings_on_attributes": True})}
        # two free-text slots (they may land in ONE docstring) carrying different quote styles
        texty = [s_ for s_ in slots if s_[0] == "val" and s_[1][-1] in ("description", "title", "example", "default", "summary")]
        combos = [("tdq", "tsq_inject"), ("tsq_inject", "tdq")] + ([("tsq", "doc_inject"), ("doc_inject", "tsq")] if tier != "quick" else [])
        for s1, s2 in itertools.combinations(texty, 2):
            for p1, p2 in combos:
                yield {"labels": [f"slot={base}:{slot_name(s1)}", f"slot2={base}:{slot_name(s2)}", f"payload={p1}", f"payload2={p2}"],
                       "payload": _mk(base, [(s1, p1), (s2, p2)], "none", {})}
        if tier != "quick":
            for s1, s2 in itertools.combinations(slots, 2):
                for pay in PAIR_PAYLOADS:
                    yield {"labels": [f"slot={base}:{slot_name(s1)}", f"slot2={base}:{slot_name(s2)}", f"payload={pay}"],
                           "payload": _mk(base, [(s1, pay), (s2, pay)], "setup", {})}
    yield from _typed_default_cases()
    cases.info = {"extra": {"slots": n_slots, "payload_classes": len(PAYLOADS)}}


# ------------------------------------------------------------------------------------------------- oracle

def _has_marker(src):
    for n in ast.walk(ast.parse(src)):
        if isinstance(n, ast.Name) and n.id == MARK:
            return True
        if isinstance(n, ast.Attribute) and n.attr == MARK:
            return True
    return False


def _probe_b2(doc, res, sb):
    """base2: its two operations have NO path parameters; the path key (whatever text it holds) is where the request goes, character for
    character, and the declared response media types are what the function decodes."""
    import urllib.parse

    import httpx
    out = []
    by_method = {m.upper(): pk for pk, item in doc["paths"].items() for m in item if m in ("get", "put", "post", "delete", "patch")}
    for ep in res.endpoints:
        pk = by_method.get(ep["method"].upper())
        if pk is None or "#" in pk or "?" in pk:
            continue
        try:
            mod = wire.endpoint_module(sb, ep)
        except Exception as exc:  # noqa: BLE001
            out.append(("probe-import", "api", f"{type(exc).__name__}: {exc}"))
            continue
        import inspect
        sig = inspect.signature(mod.sync_detailed)
        if any(n not in ("client", "body") and prm.default is inspect.Parameter.empty for n, prm in sig.parameters.items()):
            continue
        kwargs = {}
        if "body" in sig.parameters and sig.parameters["body"].default is inspect.Parameter.empty:
            continue            # base2's bodies are exercised by C03; the parameterless GET /raw is the probe here
        cap = wire.Capture(lambda request: httpx.Response(418))
        r = wire.call(mod, "sync_detailed", lambda: wire.make_client(sb, cap), cap, kwargs)
        if not r["ok"]:
            out.append(("wire-call", "api", f"{ep['method']} {pk!r}: call raised {type(r['exc']).__name__}: {r['exc']}"))
        elif r["requests"] and urllib.parse.unquote(r["requests"][0]["path"]) != pk:
            out.append(("wire-path", "path", f"request path {urllib.parse.unquote(r['requests'][0]['path'])!r} != path key {pk!r}"))
    return out


def _probe_b1(doc, res, sb):
    """Executed character-for-character recovery for base1 (run on the hostile document's own generated code)."""
    out = []
    from checks.c02 import find_class
    mm_name = next((k for k in doc["components"]["schemas"] if k.startswith("Mm")), None)
    schema = doc["components"]["schemas"].get(mm_name) if mm_name else None
    cls = None
    try:
        cls = find_class(res, sb, mm_name) if mm_name else None
    except Exception as exc:  # noqa: BLE001
        return [("probe-import", "models", f"{type(exc).__name__}: {exc}")]
    if cls is not None and schema is not None:
        props = schema["properties"]
        names = list(props)
        req_name = schema["required"][0]
        inst = {req_name: "rv"}
        samples = {}
        for n, ps in props.items():
            if n == req_name:
                continue
            if "enum" in ps:
                samples[n] = ps["enum"][1]
            elif "const" in ps:
                samples[n] = ps["const"]
            elif ps.get("type") == "string" and ps.get("format") == "date":
                samples[n] = "2020-01-02"
            elif ps.get("type") == "string":
                samples[n] = "sv"
            elif ps.get("type") == "array":
                samples[n] = ["i1"]
            elif "oneOf" in ps:
                samples[n] = 4
            elif ps.get("type") == "object":
                samples[n] = {"ip": 1}
            elif "$ref" in ps:
                target = doc["components"]["schemas"].get(ps["$ref"].split("/")[-1], {})
                if target.get("enum"):
                    samples[n] = target["enum"][1]
        full = dict(inst, **samples)
        try:
            o = cls.from_dict(copy.deepcopy(full))
            e = o.to_dict()
            if e != full:
                out.append(("names-roundtrip", "models", f"{full!r} -> {e!r}"))
        except Exception as exc:  # noqa: BLE001
            out.append(("names-roundtrip", "models", f"from_dict/to_dict of {full!r} raised {type(exc).__name__}: {exc}"))
        # defaults: omitted optional arguments encode exactly the declared default text
        try:
            o = cls(**{_pyname(cls, req_name, names): "rv"})
            e = o.to_dict()
            for n, ps in props.items():
                if isinstance(ps.get("default"), str) and n in e and e[n] != ps["default"]:
                    out.append(("default-text", "models", f"default of {n!r}: {e[n]!r} != {ps['default']!r}"))
                if isinstance(ps.get("default"), str) and n not in e:
                    out.append(("default-text", "models", f"default of {n!r} not encoded: {e!r}"))
        except Exception as exc:  # noqa: BLE001
            out.append(("default-text", "models", f"constructing with defaults raised {type(exc).__name__}: {exc}"))
    # endpoint: names, path, media type on the wire
    if res.endpoints:
        ep = res.endpoints[0]
        try:
            mod = wire.endpoint_module(sb, ep)
        except Exception as exc:  # noqa: BLE001
            return out + [("probe-import", "api", f"{type(exc).__name__}: {exc}")]
        path_key = next(iter(doc["paths"]))
        item = doc["paths"][path_key]
        op = item["post"]
        import httpx
        cap = wire.Capture(lambda request: httpx.Response(418))
        kwargs = {}
        for loc, lst in (("path", ep["path_params"]), ("query", ep["query_params"]), ("header", ep["header_params"]), ("cookie", ep["cookie_params"])):
            for q in lst:
                kwargs[q["py"]] = "argv"
        bcls = cls
        if ep["bodies"] and bcls is None:
            from specmc import pyval
            ann = pyval.hints(mod.sync_detailed).get("body")
            bcls = ann if hasattr(ann, "from_dict") else None
        if ep["bodies"] and bcls is not None and schema is not None:
            try:
                kwargs["body"] = bcls.from_dict({schema["required"][0]: "rv"})
            except Exception:  # noqa: BLE001
                kwargs.pop("body", None)
        enum_params = {x["name"] for x in op["parameters"] if "enum" in x.get("schema", {})}
        unesc = {n.replace("\\", "") for n in enum_params}
        for q in ep["query_params"]:
            if q["name"].replace("\\", "") in unesc:
                kwargs.pop(q["py"])     # enum parameter: rely on its default
        r = wire.call(mod, "sync_detailed", lambda: wire.make_client(sb, cap), cap, kwargs)
        if not r["ok"]:
            out.append(("wire-call", "api", f"call raised {type(r['exc']).__name__}: {r['exc']}"))
        elif r["requests"]:
            q = r["requests"][0]
            import urllib.parse
            want_params = {(p["in"], p["name"]) for p in op["parameters"]} | {(p["in"], p["name"]) for p in item.get("parameters", [])}
            got_q = {k for k, _ in q["query"]}
            for loc, name in want_params:
                if loc == "query" and name not in got_q:
                    out.append(("wire-name", "query", f"query parameter {name!r} not on the wire: {sorted(got_q)!r}"))
                if loc == "cookie" and name not in q["cookies"]:
                    out.append(("wire-name", "cookie", f"cookie {name!r} not on the wire: {q['cookies']!r}"))
                if loc == "header" and name.lower() not in {k for k, _ in q["headers"]}:
                    out.append(("wire-name", "header", f"header {name!r} not on the wire"))
            for p in op["parameters"]:
                d = p["schema"].get("default")
                if p["in"] == "query" and isinstance(d, str) and p["name"] in enum_params and (p["name"], d) not in q["query"]:
                    out.append(("default-text", "query", f"query default {d!r} of {p['name']!r} not sent: {q['query']!r}"))
            pid = next((p["name"] for p in item.get("parameters", []) if p["in"] == "path"), None)
            exp_path = path_key.replace("{" + str(pid) + "}", "argv") if pid else path_key
            if "#" not in exp_path and "?" not in exp_path and urllib.parse.unquote(q["path"]) != exp_path:
                out.append(("wire-path", "path", f"request path {urllib.parse.unquote(q['path'])!r} != {exp_path!r}"))
            media = next(iter(op["requestBody"]["content"]))
            if "body" in kwargs and (q["content_type"] or "") != media:
                out.append(("wire-media", "body", f"Content-Type {q['content_type']!r} != {media!r}"))
    return out


def _pyname(cls, name, names):
    import inspect
    pars = [p for p in inspect.signature(cls).parameters]
    return pars[0]


SEPARATORS = ["'", '"', "\\", "\n", "\r", "{", "}", "#", "(", ")", "+", ";", "=", " ", "t", "_", "0"]


def _typed_default_cases():
    """date / date-time defaults whose date-time SEPARATOR is a hostile character (the ISO parser accepts any single character there)."""
    for fmt in ("date-time", "date"):
        for sep in SEPARATORS:
            for pos in ("model", "query"):
                yield {"labels": [f"typed-default={fmt}", f"separator={sep!r}", f"pos={pos}"], "payload": {"mode": "typed-default", "format": fmt, "sep": sep, "pos": pos}}


def _typed_default_doc(fmt, sep, pos):
    sch = {"type": "string", "format": fmt, "default": f"2020-01-01{sep}12:30:00"}
    if pos == "model":
        return gen.base_doc({"M": {"type": "object", "properties": {"when": sch, "other": {"type": "integer"}}}})
    return gen.base_doc(None, paths={"/x": {"get": {"operationId": "theOp", "parameters": [{"name": "when", "in": "query", "schema": sch}], "responses": {"204": {"description": "n"}}}}})


def _run_typed_default(p):
    H = gen.generate(_typed_default_doc(p["format"], p["sep"], p["pos"]))
    T = gen.generate(_typed_default_doc(p["format"], "T", p["pos"]))
    if H.crash:
        return {"skipped_crash": True, "outcome": f"crash:{H.crash['type']}@{H.crash['where']}", "nontrivial": False}
    if T.crash or T.rejected:
        return {"outcome": "twin-not-generated", "nontrivial": False}
    key = f"typed-default/{p['format']}/{p['pos']}"
    viol = []
    from checks.c01 import role
    if H.rejected:
        return {"outcome": "rejected-with-diagnostic", "nontrivial": True, "steps": 2}
    for f, b in sorted(H.tree.items()):
        if not f.endswith(".py"):
            continue
        try:
            src = b.decode("utf-8")
            if not H.diags and f in T.tree and trees.erased_dump(src) != trees.erased_dump(T.tree[f].decode("utf-8")):
                viol.append({"oracle": "ast-differs", "site": role(f), "key": key, "detail": f"{f}: separator {p['sep']!r} changes the code structure"})
        except (SyntaxError, ValueError) as exc:
            viol.append({"oracle": "py-syntax", "site": role(f), "key": key, "detail": f"{f}: default 2020-01-01{p['sep']}12:30:00: {type(exc).__name__}: {getattr(exc, 'msg', exc)}"})
    seen, uniq = set(), []
    for v in viol:
        k = (v["oracle"], v["site"])
        if k not in seen:
            seen.add(k)
            uniq.append(v)
    return {"violations": uniq, "outcome": ("ok" if not uniq else "viol:" + ",".join(sorted({v['oracle'] for v in uniq}))) + ("+diag" if H.diags else ""), "nontrivial": True, "steps": 2}


def _apply_media_stem(doc, stem, suffix):
    for item in doc["paths"].values():
        for op in item.values():
            if isinstance(op, dict) and "requestBody" in op:
                c = op["requestBody"]["content"]
                k = next(iter(c))
                op["requestBody"]["content"] = {stem + suffix: c[k]}


def run_case(p):
    if p.get("mode") == "typed-default":
        return _run_typed_default(p)
    if p.get("type_lists"):
        def listify(o):
            if isinstance(o, dict):
                return {k: ([v] if k == "type" and isinstance(v, str) and v in ("string", "integer", "number", "boolean", "object", "array") else listify(v)) for k, v in o.items()}
            if isinstance(o, list):
                return [listify(x) for x in o]
            return o
        p = dict(p, hostile=listify(p["hostile"]), twin=listify(p["twin"]))
    if p.get("media_stem"):
        pay = p["slots"][0][1]
        p = dict(p, hostile=copy.deepcopy(p["hostile"]), twin=copy.deepcopy(p["twin"]))
        _apply_media_stem(p["hostile"], p["media_stem"], PAYLOADS[pay])
        _apply_media_stem(p["twin"], p["media_stem"], twin_text(PAYLOADS[pay]))
    if p.get("collide"):
        p = dict(p, hostile=copy.deepcopy(p["hostile"]), twin=copy.deepcopy(p["twin"]))      # the recorded payload stays as recorded
        a = _add_colliding_sibling(p["hostile"], p["collide"], "hostile_name")
        b = _add_colliding_sibling(p["twin"], p["collide"], "twin_name")
        if a is None or b is None or a != b:
            return {"outcome": "no-collision-possible", "nontrivial": False}
    H = gen.generate(p["hostile"], meta=p["meta"], **p["options"])
    T = gen.generate(p["twin"], meta=p["meta"], **p["options"])
    key = "+".join(f"{s}/{pay}" for s, pay in p["slots"])
    if H.crash:
        return {"skipped_crash": True, "outcome": f"crash:{H.crash['type']}@{H.crash['where']}", "nontrivial": False}
    if T.crash or T.rejected:
        return {"outcome": "twin-not-generated", "nontrivial": False}
    if H.rejected:
        return {"outcome": "rejected-with-diagnostic", "nontrivial": True, "steps": 2}
    viol = []
    ht, tt = H.tree, T.tree
    same_diags = sorted(twin_text(d.short()) for d in H.diags) == sorted(twin_text(d.short()) for d in T.diags)
    parsed_ok = True
    from checks.c01 import role
    for f, b in sorted(ht.items()):
        if f.endswith(".py"):
            rel = f[len(H.pkg_prefix) + 1:] if H.pkg_prefix and f.startswith(H.pkg_prefix + "/") else f
            site = role(rel)
            try:
                src = b.decode("utf-8")
                if _has_marker(src):
                    viol.append({"oracle": "code-injected", "site": site, "key": key, "detail": f"{f}: the marker callee appears as a name node"})
                    continue
                if same_diags:
                    tf = _twin_file(f, ht, tt, H, T)
                    if tf is None:
                        viol.append({"oracle": "file-set", "site": site, "key": key, "detail": f"{f} has no counterpart in the twin tree"})
                    elif trees.erased_dump(src) != trees.erased_dump(tt[tf].decode("utf-8")):
                        viol.append({"oracle": "ast-differs", "site": site, "key": key, "detail": f"{f}: code structure differs from the benign twin"})
                if f == "setup.py":
                    for n in ast.walk(ast.parse(src)):
                        if isinstance(n, ast.Call) and getattr(n.func, "id", "") == "setup":
                            kw = {k.arg: k.value.value for k in n.keywords if isinstance(k.value, ast.Constant)}
                            want_v = p["hostile"]["info"]["version"]
                            want_d = f"A client library for accessing {p['hostile']['info']['title']}"
                            if kw.get("version") != want_v:
                                viol.append({"oracle": "setup-text", "site": "setup.py", "key": key, "detail": f"version {kw.get('version')!r} != {want_v!r}"})
                            if kw.get("description") != want_d:
                                viol.append({"oracle": "setup-text", "site": "setup.py", "key": key, "detail": f"description {kw.get('description')!r} != {want_d!r}"})
            except (SyntaxError, ValueError) as exc:
                parsed_ok = False
                viol.append({"oracle": "py-syntax", "site": site, "key": key, "detail": f"{f}: {type(exc).__name__}: {getattr(exc, 'msg', exc)} (line {getattr(exc, 'lineno', '?')})"})
        elif f.endswith("pyproject.toml"):
            try:
                t = tomllib.loads(b.decode("utf-8"))
                proj = t.get("project") or t.get("tool", {}).get("poetry", {})
                if "version" not in proj and "name" not in proj:
                    continue          # setup flavour: the metadata lives in setup.py
                want_v = p["hostile"]["info"]["version"]
                if proj.get("version") != want_v:
                    viol.append({"oracle": "toml-text", "site": "pyproject.toml", "key": key, "detail": f"version {proj.get('version')!r} != {want_v!r}"})
                want_d = f"A client library for accessing {p['hostile']['info']['title']}"
                if proj.get("description") != want_d:
                    viol.append({"oracle": "toml-text", "site": "pyproject.toml", "key": key, "detail": f"description {proj.get('description')!r} != {want_d!r}"})
            except (tomllib.TOMLDecodeError, UnicodeDecodeError) as exc:
                viol.append({"oracle": "toml", "site": "pyproject.toml", "key": key, "detail": f"{f}: {exc}"})
    if same_diags and len(ht) != len(tt):
        viol.append({"oracle": "file-set", "site": "-", "key": key, "detail": f"{len(ht)} files vs {len(tt)} in the twin"})
    steps = 2
    if parsed_ok and p["base"] == "b1" and not any(v["oracle"] == "code-injected" for v in viol):
        with Sandbox(H.pkg_tree()) as sb:
            try:
                for oracle, site, detail in _probe_b1(p["hostile"], H, sb):
                    viol.append({"oracle": oracle, "site": site, "key": key, "detail": detail})
                steps += 6
            except ImportError as exc:
                viol.append({"oracle": "probe-import", "site": "-", "key": key, "detail": str(exc)})
    if parsed_ok and p["base"] == "b2" and not any(v["oracle"] == "code-injected" for v in viol):
        with Sandbox(H.pkg_tree()) as sb:
            try:
                for oracle, site, detail in _probe_b2(p["hostile"], H, sb):
                    viol.append({"oracle": oracle, "site": site, "key": key, "detail": detail})
                steps += 2
            except ImportError as exc:
                viol.append({"oracle": "probe-import", "site": "-", "key": key, "detail": str(exc)})
    if p.get("raw_slots") and viol:
        # a pair case reports only what neither of its two single-slot cases shows (those are reported, keyed, by the singles)
        alone = set()
        for (kind, path, old), pay in p["raw_slots"]:
            r1 = run_case(_mk(p["base"], [((kind, path, old), pay)], p["meta"], p["options"]))
            alone |= {(v["oracle"], v["site"]) for v in r1.get("violations", [])}
            steps += 2
        viol = [v for v in viol if (v["oracle"], v["site"]) not in alone]
    seen, uniq = set(), []
    for v in viol:
        k = (v["oracle"], v["site"])
        if k not in seen:
            seen.add(k)
            uniq.append(v)
    out = "ok" if not uniq else "viol:" + ",".join(sorted({v['oracle'] for v in uniq}))
    if not same_diags:
        out += "+diag"
    return {"violations": uniq, "outcome": out, "nontrivial": True, "steps": steps}


def _twin_file(f, ht, tt, H, T):
    if f in tt:
        return f
    # names derived from the title differ only through the canary letters: map by position in the sorted listing
    hs, ts = sorted(k for k in ht if k.endswith(".py")), sorted(k for k in tt if k.endswith(".py"))
    if len(hs) == len(ts) and f in hs:
        return ts[hs.index(f)]
    return None
