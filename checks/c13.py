"""C13 — declared defaults become equal Python defaults; bad ones are rejected (DESIGN §C13)."""
from __future__ import annotations

import copy
import datetime
import enum
import inspect
import json
import uuid

from specmc import gen, wire
from specmc.refmodels import kinds as K
from specmc.sandbox import Sandbox

ID = "C13"
LEVEL = "model_checking"
RULE = ("full product kind (string, date, date-time, uuid, integer, number, boolean, enum, int enum, literal enums, const, union, any, "
        "reference to enum) x JSON default value (well- and ill-typed, 20 values) x route (direct, $ref wrapper with sibling default, "
        "overridden in an allOf member, inherited from an allOf parent) x position (model property, query, header, cookie); "
        "non-trivial = the case reached the three-valued reference table; kinds include enums admitting null (3 notations); values include integers beyond 2^53 and containers holding booleans / null; valid defaults also on REQUIRED properties declared before / after a required property without default; routes include the 3.0 nullable-reference wrapper with a sibling default, an inherited default re-declared with a description only, a second inline enum resolving to an existing class; parameter defaults are compared through all four call variants with the argument omitted; path parameters that declare a default, alone and followed by a path parameter without one")
FLOOR = 0.5
ASSUMPTIONS = ["RM-default: VALID(expected typed value) / INVALID(diagnostic, not emitted) / LENIENT(either, never a wrongly typed emission)"]

UU = "12345678-1234-5678-1234-567812345678"
VALUES = {
    "s-plain": "abc", "s-empty": "", "s-squote": "it's", "s-dquote": 'say "hi"', "s-num": "7", "s-float": "1.5", "s-true": "true", "s-True": "True", "s-yes": "yes",
    "s-date": "2020-01-02", "s-datetime": "2020-01-02T03:04:05+00:00", "s-uuid": UU, "s-member-a": "a", "s-member-b": "b", "s-nonmember": "c", "s-wrongcase": "A",
    "s-const": "k", "s-const2": "m", "s-const3": "z", "s-member-c": "c2", "s-member-d": "d2", "i-5": 5, "i-0": 0, "i-neg": -2, "i-1": 1, "i-2": 2, "f-1.5": 1.5, "f-5.0": 5.0, "b-true": True, "b-false": False,
    "list": [1], "obj": {"a": 1}, "s-notdate": "not a date", "s-x": "x",
    # integers a double cannot represent: JSON integers are exact
    "obj-bool-null": {"enabled": True, "label": None, "n": [False]}, "list-bool-null": [None, True, "x"], "obj-nested": {"a": {"b": [1, {"c": None}]}},
    "s-None": "None", "s-null": "null", "s-2p53+1": str(2 ** 53 + 1), "i-2p53+1": 2 ** 53 + 1, "i-int64max": 2 ** 63 - 1, "i-neg-big": -(2 ** 62) - 1, "i-1e20+1": 10 ** 20 + 1,
}
V, I, L = "VALID", "INVALID", "LENIENT"
D = datetime.date(2020, 1, 2)
DT = datetime.datetime(2020, 1, 2, 3, 4, 5, tzinfo=datetime.timezone.utc)


def table(kind):
    """RM-default: {value label: (verdict, expected python value or None, expected JSON or None)}."""
    t = {}

    def put(label, verdict, py=None, js=None):
        t[label] = (verdict, py, VALUES[label] if js is None and verdict == V else js)
    strs = [k for k in VALUES if k.startswith("s-")]
    if kind == "str":
        for k in strs:
            put(k, V, VALUES[k])
        for k in ("i-5", "f-1.5", "b-true", "list", "obj"):
            put(k, I)                          # a non-string JSON value is not a valid string default
    elif kind == "int":
        for k in ("i-5", "i-0", "i-neg", "i-1", "i-2", "i-2p53+1", "i-int64max", "i-neg-big", "i-1e20+1"):
            put(k, V, VALUES[k])
        put("s-num", L, 7, 7)
        put("s-2p53+1", L, 2 ** 53 + 1, 2 ** 53 + 1)      # if a numeric string is coerced at all, it is coerced to the integer it spells
        put("f-5.0", L, 5, 5)
        for k in ("f-1.5", "b-true", "b-false", "s-x", "s-float", "s-true", "list", "obj", "s-plain", "s-empty"):
            put(k, I)
    elif kind == "num":
        put("f-1.5", V, 1.5)
        put("f-5.0", V, 5.0)
        put("i-5", V, 5, 5)
        put("i-0", V, 0, 0)
        put("s-float", L, 1.5, 1.5)
        put("s-num", L, 7, 7)
        for k in ("b-true", "s-x", "s-true", "list", "obj", "s-plain", "s-empty"):
            put(k, I)
    elif kind == "bool":
        put("b-true", V, True)
        put("b-false", V, False)
        put("s-true", L, True, True)
        put("s-True", L, True, True)
        for k in ("s-yes", "i-1", "i-0", "s-x", "list", "s-empty", "f-1.5"):
            put(k, I)
    elif kind == "date":
        put("s-date", V, D)
        put("s-datetime", I)                    # a date-time is not a valid `date`
        for k in ("s-notdate", "i-5", "b-true", "s-empty", "list", "s-x"):
            put(k, I)
    elif kind == "datetime":
        put("s-datetime", V, DT)
        put("s-date", I)                        # a bare date is not a valid `date-time`
        for k in ("s-notdate", "i-5", "b-true", "s-empty", "list", "s-x"):
            put(k, I)
    elif kind == "uuid":
        put("s-uuid", V, uuid.UUID(UU))
        for k in ("s-plain", "i-5", "b-true", "s-empty", "list", "s-date"):
            put(k, I)
    elif kind in ("enum_str", "enum_ref"):
        put("s-member-a", V, "a")
        put("s-member-b", V, "b")
        for k in ("s-nonmember", "s-wrongcase", "i-1", "b-true", "s-empty", "list"):
            put(k, I)
    elif kind in ("enum_str_null", "enum_str_oneofnull"):      # an enum that also admits null (listed among the values / explicit union)
        put("s-member-a", V, "a")
        put("s-member-b", V, "b")
        for k in ("s-nonmember", "s-wrongcase", "i-1", "b-true", "list"):
            put(k, I)
    elif kind == "enum_int_null":
        put("i-1", V, 1)
        put("i-neg", V, -2)
        for k in ("i-2", "s-num", "f-1.5", "list"):
            put(k, I)
    elif kind == "enum_int":
        put("i-1", V, 1)
        put("i-neg", V, -2)
        for k in ("i-2", "i-5", "s-num", "b-true", "f-1.5", "s-plain", "list"):
            put(k, I)
    elif kind == "const":
        put("s-const", V, "k")
        for k in ("s-x", "s-plain", "i-5", "b-true", "s-empty"):
            put(k, I)
    elif kind == "union":
        put("i-5", V, 5)
        put("s-plain", V, "abc")
        put("i-0", V, 0)
        put("i-int64max", V, 2 ** 63 - 1)
        put("f-1.5", L, None, None)
        put("b-true", L, None, None)
        put("list", L, None, None)
    elif kind.startswith("nullable_str"):
        for k in ("s-plain", "s-empty", "s-None", "s-null", "s-num", "s-true"):
            put(k, V, VALUES[k])
    elif kind == "union_consts3":          # COUNT: the 3.1 way of writing an enum; a default that is the 2nd / 3rd const
        for k in ("s-const", "s-const2", "s-const3"):
            put(k, V, VALUES[k])
        for k in ("s-x", "s-plain", "i-5", "s-empty"):
            put(k, I)
    elif kind in ("union_enums2", "union_enumrefs2"):   # two enums side by side; a default that is a member of the second
        for k in ("s-member-a", "s-member-b", "s-member-c", "s-member-d"):
            put(k, V, VALUES[k])
        for k in ("s-nonmember", "s-wrongcase", "i-1", "list"):
            put(k, I)
    elif kind == "union_consts_num":       # consts followed by a lenient member of another kind: the const's own value comes back
        put("i-1", V, 1)
        put("i-2", V, 2)
        put("f-1.5", V, 1.5)
        put("i-5", V, 5)
        for k in ("s-plain", "list"):
            put(k, I)
    elif kind.startswith("union_"):
        for k in ("s-plain", "s-num", "s-float", "s-true", "s-date", "s-empty", "s-2p53+1"):
            put(k, V, VALUES[k])                  # a string is a valid instance of the string member: the default is that string
        other = {"union_str_int": ("i-5", "i-0"), "union_typelist_str_num": ("f-1.5", "i-5"), "union_str_bool": ("b-true", "b-false"), "union_str_date": ()}[kind]
        for k in other:
            put(k, V, VALUES[k])
        put("list", L, None, None)
    elif kind == "any":
        for k in ("s-plain", "i-5", "f-1.5", "b-true", "b-false", "list", "obj", "i-0", "s-empty", "s-dquote", "i-2p53+1", "i-int64max",
                  "obj-bool-null", "list-bool-null", "obj-nested"):
            put(k, V, VALUES[k])
    return t


KINDS = ["str", "int", "num", "bool", "date", "datetime", "uuid", "enum_str", "enum_int", "const", "union", "any", "enum_ref",
         "enum_str_null", "enum_int_null", "enum_str_oneofnull",
         # unions whose plain string member is declared BEFORE a typed member: a string default stays the string it is
         "union_str_int", "union_typelist_str_num", "union_str_bool", "union_str_date", "nullable_str_nullfirst", "nullable_str_nulllast", "nullable_str_30",
         "union_consts3", "union_enums2", "union_enumrefs2", "union_consts_num",
         # nullable strings, null named first / last: the STRINGS "None" and "null" are strings
         "nullable_str_nullfirst", "nullable_str_nulllast", "nullable_str_30"]
ENUM_VALUES = {"enum_str": ["a", "b"], "enum_ref": ["a", "b"], "enum_int": [1, -2]}


def _schema(kind, comps):
    if kind == "enum_str_null":
        return {"enum": ["a", "b", None]}
    if kind == "enum_int_null":
        return {"enum": [1, -2, None]}
    if kind == "enum_str_oneofnull":
        return {"oneOf": [{"type": "string", "enum": ["a", "b"]}, {"type": "null"}]}
    if kind == "union":
        return {"oneOf": [{"type": "integer"}, {"type": "string"}]}
    if kind == "nullable_str_nullfirst":
        return {"type": ["null", "string"]}
    if kind == "nullable_str_nulllast":
        return {"oneOf": [{"type": "string"}, {"type": "null"}]}
    if kind == "nullable_str_30":
        return {"type": "string", "nullable": True}
    if kind == "union_str_int":
        return {"oneOf": [{"type": "string"}, {"type": "integer"}]}
    if kind == "union_typelist_str_num":
        return {"type": ["string", "number"]}
    if kind == "union_str_bool":
        return {"anyOf": [{"type": "string"}, {"type": "boolean"}]}
    if kind == "union_str_date":
        return {"oneOf": [{"type": "string"}, {"type": "string", "format": "date"}]}
    if kind == "union_consts3":
        return {"oneOf": [{"const": "k"}, {"const": "m"}, {"const": "z"}]}
    if kind == "union_enums2":
        return {"anyOf": [{"type": "string", "enum": ["a", "b"]}, {"type": "string", "enum": ["c2", "d2"]}]}
    if kind == "union_enumrefs2":
        comps.setdefault("EnumRef", {"type": "string", "enum": ["a", "b"]})
        comps.setdefault("EnumRef2", {"type": "string", "enum": ["c2", "d2"]})
        return {"anyOf": [{"$ref": "#/components/schemas/EnumRef"}, {"$ref": "#/components/schemas/EnumRef2"}]}
    if kind == "union_consts_num":
        return {"oneOf": [{"const": 1}, {"const": 2}, {"type": "number"}]}
    if kind == "enum_ref":
        comps.setdefault("EnumRef", {"type": "string", "enum": ["a", "b"]})
        return {"$ref": "#/components/schemas/EnumRef"}
    return K.schema(kind, comps)


def _doc(kind, value, route, pos, lit, req="opt"):
    comps = {}
    base = _schema(kind, comps)

    def with_default(s):
        if "$ref" in s:
            return {"allOf": [copy.deepcopy(s)], "default": copy.deepcopy(value)}
        s = copy.deepcopy(s)
        s["default"] = copy.deepcopy(value)
        return s
    if route == "direct":
        sch = with_default(base)
    elif route == "nullable30-wrapper":
        # OpenAPI 3.0: a nullable reference is spelled {allOf: [$ref], nullable: true}; its sibling default belongs to the property
        if "$ref" not in base:
            comps["Plain"] = copy.deepcopy(base)
            base = {"$ref": "#/components/schemas/Plain"}
        sch = {"allOf": [copy.deepcopy(base)], "nullable": True, "default": copy.deepcopy(value)}
    elif route == "ref-wrapper":
        # the property's own schema is a component; the use site wraps the reference and adds a sibling default
        if "$ref" not in base:
            comps["Plain"] = copy.deepcopy(base)
            base = {"$ref": "#/components/schemas/Plain"}
        sch = {"allOf": [copy.deepcopy(base)], "default": copy.deepcopy(value)}
    else:
        sch = None
    paths = {}
    if pos == "model":
        if route in ("direct", "ref-wrapper", "nullable30-wrapper"):
            comps["M"] = {"type": "object", "properties": {"p": sch, "other": {"type": "integer"}}}
            if req != "opt":
                # REQUIRED and defaulted, declared before / after a required property that has no default
                comps["M"]["required"] = ["p", "other"]
                if req == "req-last":
                    comps["M"]["properties"] = {"other": {"type": "integer"}, "p": sch}
        elif route == "allof-override":
            comps["Base"] = {"type": "object", "properties": {"p": copy.deepcopy(base), "other": {"type": "integer"}}}
            comps["M"] = {"allOf": [{"$ref": "#/components/schemas/Base"}, {"type": "object", "properties": {"p": with_default(base)}}]}
        elif route == "second-use-of-enum-class":
            # two inline enums under one parent that resolve to ONE generated class (same title, same values): each keeps its own default
            first = dict(copy.deepcopy(base), title="Shared Kind", default=ENUM_VALUES[kind][1])
            mine = dict(copy.deepcopy(base), title="Shared Kind", default=copy.deepcopy(value))
            comps["M"] = {"type": "object", "properties": {"first_use": first, "p": mine, "third_use": dict(copy.deepcopy(base), title="Shared Kind"), "other": {"type": "integer"}}}
        elif route in ("allof-redescribed", "allof-redescribed-camel"):
            # inherited WITH its default, re-declared by a later member that only adds a description: the default is still the property's
            pn = "p" if route == "allof-redescribed" else "pageSize"
            again = dict(copy.deepcopy(base), description="described again") if "$ref" not in base else {"allOf": [copy.deepcopy(base)], "description": "described again"}
            comps["Base"] = {"type": "object", "properties": {pn: with_default(base), "other": {"type": "integer"}}}
            comps["M"] = {"allOf": [{"$ref": "#/components/schemas/Base"}, {"type": "object", "properties": {pn: again, "page_size_max": {"type": "integer", "default": 7}}}]}
        elif route == "allof-inherit":
            comps["Base"] = {"type": "object", "properties": {"p": with_default(base), "other": {"type": "integer"}}}
            comps["M"] = {"allOf": [{"$ref": "#/components/schemas/Base"}, {"type": "object", "properties": {"extra": {"type": "string"}}}]}
    else:
        if route not in ("direct", "ref-wrapper", "nullable30-wrapper"):
            return None
        comps["Out"] = {"type": "object", "properties": {"ok": {"type": "boolean"}}}
        if pos in ("path", "path-first"):
            # a path parameter that declares a default, alone or followed by a path parameter without one
            params = [{"name": "p", "in": "path", "required": True, "schema": sch}] + ([{"name": "r", "in": "path", "required": True, "schema": {"type": "integer"}}] if pos == "path-first" else [])
            paths["/x/{p}" + ("/{r}" if pos == "path-first" else "")] = {"get": {"operationId": "theOp", "parameters": params,
                                                                               "responses": {"200": {"description": "d", "content": {"application/json": {"schema": {"$ref": "#/components/schemas/Out"}}}}}}}
            return gen.base_doc(comps or None, paths=paths, version="3.0.3" if route == "nullable30-wrapper" else "3.1.0")
        paths["/x"] = {"get": {"operationId": "theOp", "parameters": [{"name": "p", "in": pos, "required": False, "schema": sch}],
                               "responses": {"200": {"description": "d", "content": {"application/json": {"schema": {"$ref": "#/components/schemas/Out"}}}}}}}
    return gen.base_doc(comps or None, paths=paths, version="3.0.3" if route == "nullable30-wrapper" or kind == "nullable_str_30" else "3.1.0")


PARAM_KINDS = {"str", "int", "num", "bool", "date", "datetime", "uuid", "enum_str", "enum_int", "enum_ref", "union", "any", "const",
               "union_str_int", "union_typelist_str_num", "union_str_bool", "union_str_date", "union_consts3", "union_enums2", "union_enumrefs2", "union_consts_num",
               "enum_str_null", "enum_int_null", "enum_str_oneofnull"}


def cases(tier):
    for kind in KINDS:
        t = table(kind)
        for label in t:
            for route in ("direct", "ref-wrapper", "allof-override", "allof-inherit", "nullable30-wrapper", "allof-redescribed", "allof-redescribed-camel", "second-use-of-enum-class"):
                for pos in ("model", "query", "header", "cookie", "path", "path-first"):
                    if pos.startswith("path") and (route != "direct" or kind not in ("str", "int", "num", "bool", "date", "uuid", "enum_str", "enum_int") or t[label][0] != V):
                        continue
                    if pos != "model" and (kind not in PARAM_KINDS or route not in ("direct", "ref-wrapper", "nullable30-wrapper")):
                        continue
                    if route in ("ref-wrapper", "nullable30-wrapper") and kind in ("union", "any", "const", "enum_str_oneofnull", "enum_str_null", "enum_int_null"):
                        continue
                    if kind.startswith("nullable_str") and (route != "direct" or (kind.endswith("30") and pos != "model")):
                        continue
                    if kind.startswith("union_") and route in ("nullable30-wrapper", "allof-override", "allof-inherit"):
                        continue
                    if route == "second-use-of-enum-class" and (kind not in ("enum_str", "enum_int") or pos != "model"):
                        continue
                    if route.startswith("allof-redescribed") and (kind in ("union", "any", "const") or kind.startswith(("union_", "nullable_str")) or kind.endswith("null") or t[label][0] != V):
                        continue
                    for lit in ((False, True) if kind.startswith("enum") else (False,)):
                        if _doc(kind, VALUES[label], route, pos, lit) is None:
                            continue
                        yield {"labels": [f"kind={kind}", f"default={label}", f"route={route}", f"pos={pos}"] + (["literal_enums"] if lit else []),
                               "payload": {"kind": kind, "label": label, "route": route, "pos": pos, "literal_enums": lit}}
                        if pos == "model" and route == "direct" and t[label][0] == V:
                            for req in ("req-first", "req-last"):
                                yield {"labels": [f"kind={kind}", f"default={label}", f"route={route}", f"pos={pos}", req] + (["literal_enums"] if lit else []),
                                       "payload": {"kind": kind, "label": label, "route": route, "pos": pos, "literal_enums": lit, "req": req}}


def _strip_defaults(o):
    if isinstance(o, dict):
        o.pop("default", None)
        for v in o.values():
            _strip_defaults(v)
    elif isinstance(o, list):
        for v in o:
            _strip_defaults(v)


def _norm(v):
    if isinstance(v, enum.Enum):
        return v.value
    return v


def _typed_equal(got, want, kind):
    got = _norm(got)
    if kind in ("date",):
        return type(got) is datetime.date and got == want
    if kind == "datetime":
        return isinstance(got, datetime.datetime) and got == want
    if kind == "uuid":
        return isinstance(got, uuid.UUID) and got == want
    if isinstance(want, bool) or isinstance(got, bool):
        return type(got) is bool and type(want) is bool and got == want
    if isinstance(want, (int, float)):
        return isinstance(got, (int, float)) and got == want and (kind != "int" or type(got) is int)
    if isinstance(want, str):
        return type(got) is str and got == want
    return K.json_eq(got, want)


def run_case(p):
    kind, label, route, pos = p["kind"], p["label"], p["route"], p["pos"]
    value = VALUES[label]
    verdict, exp_py, exp_js = table(kind)[label]
    req = p.get("req", "opt")
    doc = _doc(kind, value, route, pos, p["literal_enums"], req)
    res = gen.generate(doc, literal_enums=p["literal_enums"])
    if res.crash:
        return {"skipped_crash": True, "outcome": f"crash:{res.crash['type']}@{res.crash['where']}", "nontrivial": False}
    if res.rejected:
        return {"outcome": "rejected", "nontrivial": False}
    key = f"{kind}/{label}/{route}/{pos}" + ("/literal" if p["literal_enums"] else "") + (f"/{req}" if req != "opt" else "")
    viol = []
    has_diag = bool(res.diags)
    got_py = got_js = "<no-artefact>"
    artefact = False
    with Sandbox(res.pkg_tree()) as sb:
        try:
            unset = sb.mod("types").UNSET
            if pos == "model":
                from checks.c02 import find_class
                cls = find_class(res, sb, "M")
                if cls is not None:
                    artefact = True
                    par = inspect.signature(cls).parameters.get("page_size" if route == "allof-redescribed-camel" else "p")
                    got_py = par.default if par is not None else "<no-parameter>"
                    if got_py is inspect.Parameter.empty:
                        got_py = "<no-default>"
                    try:
                        e = (cls() if req == "opt" else cls(other=1)).to_dict()
                        got_js = e.get("pageSize" if route == "allof-redescribed-camel" else "p", "<absent>")
                    except Exception as exc:  # noqa: BLE001
                        got_js = f"<raises {type(exc).__name__}: {exc}>"
            elif res.endpoints:
                ep = res.endpoints[0]
                lst = [x for x in ep[f"{pos.split('-')[0]}_params"] if x["name"] == "p"] if pos.startswith("path") else ep[f"{pos}_params"]
                if lst:
                    artefact = True
                    mod = wire.endpoint_module(sb, ep)
                    par = inspect.signature(mod.sync_detailed).parameters[lst[0]["py"]]
                    got_py = par.default
                    cap = wire.Capture(lambda request: __import__("httpx").Response(200, json={"ok": True}))
                    sent = {}
                    base_kw = {"r": 1} if pos == "path-first" else {}
                    for variant in wire.VARIANTS:      # the plain variants forward their own arguments to the detailed ones
                        rv = wire.call(mod, variant, lambda: wire.make_client(sb, cap), cap, dict(base_kw))
                        if rv is not None and rv["ok"] and rv["requests"]:
                            qv = rv["requests"][0]
                            sent[variant] = ([v for k, v in qv["query"] if k == "p"] if pos == "query" else [v for k, v in qv["headers"] if k == "p"] if pos == "header" else
                                             [qv["path"]] if pos.startswith("path") else ([qv["cookies"]["p"]] if "p" in qv["cookies"] else []))
                    if len({json.dumps(v) for v in sent.values()}) > 1:
                        viol.append({"oracle": "variants-differ", "site": pos, "key": key, "detail": f"omitting the argument: the call variants transmit {sent!r}"})
                    r = wire.call(mod, "sync_detailed", lambda: wire.make_client(sb, cap), cap, dict(base_kw))
                    if r["ok"] and r["requests"]:
                        q = r["requests"][0]
                        if pos.startswith("path"):
                            import urllib.parse
                            seg = q["path"].split("/")
                            vals = [urllib.parse.unquote(seg[2])] if len(seg) > 2 else []
                        elif pos == "query":
                            vals = [v for k, v in q["query"] if k == "p"]
                        elif pos == "header":
                            vals = [v for k, v in q["headers"] if k == "p"]
                        else:
                            vals = [q["cookies"]["p"]] if "p" in q["cookies"] else []
                        got_js = vals[0] if vals else "<absent>"
                    else:
                        got_js = f"<raises {type(r.get('exc')).__name__}>" if not r["ok"] else "<no-request>"
        except ImportError as exc:
            return {"outcome": f"import-fails:{type(exc).__name__}", "nontrivial": False, "stats": {"import_fail": 1}}
        except Exception as exc:  # noqa: BLE001
            # the generated module cannot even be imported with this default in place
            return {"violations": [{"oracle": "default-breaks-module", "site": pos, "key": f"{key}/{type(exc).__name__}",
                                    "detail": f"with default {value!r} the generated code fails on import/inspection: {type(exc).__name__}: {exc}"}],
                    "outcome": "viol:module", "nontrivial": True}
        emitted = artefact and got_py is not unset and got_py not in ("<no-default>", "<no-parameter>")
        if verdict == V or (verdict == L and emitted and exp_py is not None):
            if not artefact:
                control = copy.deepcopy(doc)
                _strip_defaults(control)
                cres = gen.generate(control, literal_enums=p["literal_enums"])
                control_ok = (cres.endpoints if pos != "model" else any(m["name"].endswith("/M") for m in cres.models))
                if not control_ok:
                    return {"outcome": "position-not-supported", "nontrivial": False}
                if verdict == V:
                    viol.append({"oracle": "valid-default-rejected", "site": pos, "key": key, "detail": f"default {value!r} is valid for {kind} but nothing was generated: {[d.short()[:120] for d in res.diags][:2]}"})
            elif not emitted:
                if verdict == V:
                    viol.append({"oracle": "valid-default-dropped", "site": pos, "key": key, "detail": f"default {value!r} is valid for {kind} but the Python default is {got_py!r}; diagnostics: {[d.short()[:100] for d in res.diags][:2]}"})
            else:
                if not _typed_equal(got_py, exp_py, kind):
                    viol.append({"oracle": "python-default", "site": pos, "key": key, "detail": f"declared default {value!r} for {kind}: Python default is {got_py!r} ({type(got_py).__name__}), expected {exp_py!r}"})
                if pos == "model":
                    if not (isinstance(got_js, str) and got_js.startswith("<raises")) and not K.json_eq(got_js, exp_js):
                        viol.append({"oracle": "encoded-default", "site": pos, "key": key, "detail": f"omitting the argument encodes {got_js!r}, declared default {exp_js!r}"})
                    elif isinstance(got_js, str) and got_js.startswith("<raises"):
                        viol.append({"oracle": "encoded-default", "site": pos, "key": key + "/raises", "detail": f"encoding the default raised: {got_js}"})
                else:
                    want = exp_js if isinstance(exp_js, str) else __import__("json").dumps(exp_js)
                    alts = {want, str(exp_js), str(exp_py)}
                    if isinstance(exp_py, datetime.datetime):
                        alts.add(exp_py.isoformat())
                    num_eq = False
                    if isinstance(exp_js, (int, float)) and not isinstance(exp_js, bool):
                        try:
                            num_eq = float(got_js) == float(exp_js)
                        except (TypeError, ValueError):
                            num_eq = False
                    if isinstance(exp_js, list):
                        num_eq = got_js in {str(x) for x in exp_js} | {__import__("json").dumps(x) for x in exp_js} | ({""} if None in exp_js else set())   # httpx renders None as an empty value
                    if isinstance(got_js, str) and got_js.startswith("<raises"):
                        pass      # sending a non-str cookie/header raising is C03's known business
                    elif got_js not in alts and not num_eq:
                        viol.append({"oracle": "encoded-default", "site": pos, "key": key, "detail": f"omitting the argument sends {got_js!r}, declared default {exp_js!r}"})
        elif verdict == I:
            if emitted:
                viol.append({"oracle": "invalid-default-emitted", "site": pos, "key": key, "detail": f"default {value!r} is not a valid {kind} but was emitted as Python default {got_py!r}" + ("" if has_diag else " without any diagnostic")})
            elif not has_diag:
                viol.append({"oracle": "invalid-default-silent", "site": pos, "key": key, "detail": f"default {value!r} is not a valid {kind}; it was dropped without a diagnostic"})
        elif verdict == L and emitted and exp_py is None:
            # coerced into one of the union's member types: must at least be plain JSON data when encoded
            if pos == "model" and K.non_plain(got_js) and not (isinstance(got_js, str) and got_js.startswith("<")):
                viol.append({"oracle": "encoded-default", "site": pos, "key": key, "detail": f"coerced default encodes as {got_js!r}"})
    return {"violations": viol, "outcome": f"{verdict}:{'emitted' if emitted else ('diag' if has_diag else 'none')}" + (":viol" if viol else ""),
            "nontrivial": True, "steps": 3}
