"""C11 — generated code type-checks and its annotations are truthful (DESIGN §C11)."""
from __future__ import annotations

import copy
import datetime
import enum
import inspect
import io
import os
import re
import shutil
import subprocess
import sys
import tomllib
import typing
import uuid

from specmc import gen, pyval, wire
from specmc.refmodels import kinds as K
from specmc.sandbox import Sandbox

ID = "C11"
LEVEL = "model_checking"
RULE = ("[+ one component used at several places that differ in requiredness / nullability (model properties, query parameters, response, allOf-inherited and promoted), both orders] " +
        "programs = the C01 core matrix (kind x position x required x nullable x literal_enums), the C03 body matrix, the C04 response "
        "tables, and name-shape documents (a property named like its class's module), every reference graph of 2 schemas with <=2 edges (thorough: <=4, and 3 schemas <=2), one model as body under every ordered selection of 2-3 media types (separate operations / one operation); each program is (1) type-checked by mypy under "
        "the repository's own [tool.mypy] settings, in batches; (2) executed: every attribute of every object decoded from RM-inst "
        "instances and every parsed response must conform to its annotation (structural conformance checker); (3) every value of a "
        "bounded enumeration of each annotation's inhabitants must be accepted by to_dict / the request builder; non-trivial = a "
        "program that was generated and judged; builtin-like class names under both enum styles; C02's defaulted-property documents (required-with-default before / after a required property without one)")
FLOOR = 0.5
CASE_LIMIT = 900
ASSUMPTIONS = ["mypy (the version installed in /venv) is the external judge of oracle 1; settings are read from /repo/pyproject.toml at run time minus the pydantic plugin",
               "a 2-line local stub stands in for types-python-dateutil (not installable offline)"]
ROOT = os.path.dirname(os.path.dirname(os.path.abspath(__file__)))
BATCH = 48


# ------------------------------------------------------------------------------------------------- programs

def programs(tier):
    """[(program id, key, doc, options, extra)]"""
    from checks import c01, c03, c04
    out = []
    for c in c01._matrix():
        if "v=3.0.3" in c["labels"]:
            continue        # C01 runs the 3.0 twins; the generated text of these is identical
        p = c["payload"]
        out.append(("m:" + "|".join(c["labels"]), "matrix/" + p["key"] + ("/lit" if p["options"].get("literal_enums") else ""), p["doc"], p["options"], {"kind": "matrix", "labels": c["labels"]}))
    for c in c03._body_cases():
        p = c["payload"]
        out.append(("b:" + "|".join(c["labels"]), "body/" + p["key"].split("/", 1)[1], p["doc"], p["options"], {"kind": "body"}))
    for c in c04.cases("quick"):
        p = c["payload"]
        if any(not isinstance(s["status"], int) for s in p["table"]):
            continue
        if len(p["table"]) == 1 and p["table"][0]["status"] not in (200, 404):
            continue
        out.append(("r:" + "|".join(c["labels"]), "resp/" + p["key"], p["doc"], {}, {"kind": "resp", "table": p["table"]}))
    # name shapes: a property whose python name equals the module name of its own class, forward references, recursive models
    ref = lambda n: {"$ref": f"#/components/schemas/{n}"}  # noqa: E731
    shapes = {
        "prop-named-like-module": {"Item": {"type": "object", "properties": {"item": {"type": "string"}, "n": {"type": "integer"}}}},
        "prop-named-like-module-model": {"P": {"type": "object", "properties": {"p": ref("Q")}}, "Q": {"type": "object", "properties": {"v": {"type": "integer"}}}},
        "forward-refs": {"A": {"type": "object", "properties": {"b": ref("B"), "bs": {"type": "array", "items": ref("B")}, "u": {"oneOf": [ref("B"), ref("C"), {"type": "null"}]}}},
                         "B": {"type": "object", "properties": {"c": ref("C")}}, "C": {"type": "object", "additionalProperties": ref("A")}},
        "recursive": {"Node": {"type": "object", "properties": {"next": ref("Node"), "kids": {"type": "array", "items": ref("Node")}, "m": {"type": "object", "additionalProperties": ref("Node")}}}},
        "allof": {"Base": {"type": "object", "required": ["id"], "properties": {"id": {"type": "integer"}, "when": {"type": "string", "format": "date-time"}}},
                  "Child": {"allOf": [ref("Base"), {"type": "object", "properties": {"kind": {"type": "string", "enum": ["a", "b"]}, "amount": {"type": "number"}}}]}},
    }
    # one model used as the body of several operations under different media types, every order of the paths / media types
    form = {"type": "object", "required": ["title"], "properties": {"title": {"type": "string"}, "when": {"type": "string", "format": "date"}, "n": {"oneOf": [{"type": "integer"}, {"type": "null"}]}}}
    mref = ref("FormModel")
    ok204 = {"204": {"description": "n"}}
    medias = ["multipart/form-data", "application/json", "application/x-www-form-urlencoded"]
    import itertools
    for k in (2, 3):
        for sel in itertools.permutations(medias, k):
            paths = {f"/p{i}": {"post": {"operationId": f"send{i}", "requestBody": {"required": True, "content": {m: {"schema": mref}}}, "responses": ok204}} for i, m in enumerate(sel)}
            out.append((f"s:shared-body:{'>'.join(sel)}", "shape/shared-body-model/separate-operations", gen.base_doc({"FormModel": form}, paths=paths), {}, {"kind": "shape"}))
            one = {"/p": {"post": {"operationId": "sendAny", "requestBody": {"required": True, "content": {m: {"schema": mref} for m in sel}}, "responses": ok204}}}
            out.append((f"s:shared-body-one-op:{'>'.join(sel)}", "shape/shared-body-model/one-operation", gen.base_doc({"FormModel": form}, paths=one), {}, {"kind": "shape"}))
    # classes whose snake-case name is a builtin / keyword-like word (module format_, type_, ...), used by a model and by parameters
    shapes["builtin-like-class-names"] = {
        "Format": {"type": "string", "enum": ["json", "xml"]}, "Type": {"type": "integer", "enum": [1, 2]}, "Filter": {"type": "string", "enum": ["on", "off"], "default": "on"},
        "Range": {"type": "object", "properties": {"lo": {"type": "integer"}}},
        "List": {"type": "object", "properties": {"format": ref("Format"), "type": ref("Type"), "filter": ref("Filter"), "range": ref("Range"),
                                                   "formats": {"type": "array", "items": ref("Format")}}}}
    # class names that CONTAIN the words the templates test for in rendered type strings (Unset, None), as members of required unions
    shapes["class-names-containing-unset-none"] = {
        "UnsettledTrade": {"type": "object", "properties": {"t": {"type": "integer"}}}, "NoneOrAll": {"type": "object", "properties": {"n": {"type": "string"}}},
        "UnsetKind": {"type": "string", "enum": ["u1", "u2"]}, "NoneKind": {"type": "string", "enum": ["n1", "n2"]},
        "Holder": {"type": "object", "required": ["trade", "scope", "kinds"], "properties": {
            "trade": {"oneOf": [ref("UnsettledTrade"), {"type": "integer"}]}, "scope": {"anyOf": [ref("NoneOrAll"), ref("NoneKind")]},
            "kinds": {"type": "array", "items": {"oneOf": [ref("UnsetKind"), ref("UnsettledTrade")]}},
            "opt": {"oneOf": [ref("NoneOrAll"), {"type": "string", "format": "date"}]}},
            "additionalProperties": {"oneOf": [ref("UnsettledTrade"), ref("NoneKind")]}}}
    # COUNT: arrays nested three and four levels deep whose innermost items need a construct / transform loop
    deep = lambda inner, n: inner if n == 0 else {"type": "array", "items": deep(inner, n - 1)}  # noqa: E731
    shapes["arrays-nested-3-4-levels"] = {
        "Cell": {"type": "object", "properties": {"c": {"type": "integer"}}}, "Mark": {"type": "string", "enum": ["m1", "m2"]},
        "Grid": {"type": "object", "required": ["cells3"], "properties": {
            "cells3": deep(ref("Cell"), 3), "days3": deep({"type": "string", "format": "date"}, 3), "marks3": deep(ref("Mark"), 3),
            "mixed3": deep({"oneOf": [{"type": "integer"}, {"type": "string", "format": "date-time"}]}, 3), "cells4": deep(ref("Cell"), 4), "ints3": deep({"type": "integer"}, 3)}}}
    for name, comps in shapes.items():
        for lit in (False, True):
            out.append((f"s:{name}{'|lit' if lit else ''}", f"shape/{name}" + ("/lit" if lit else ""), gen.base_doc(comps), {"literal_enums": lit}, {"kind": "shape"}))
    # ONE component schema reaching several places that differ in requiredness / nullability (every use is a copy of one parsed
    # property object): required + optional + nullable properties of a model, required + optional query parameters and a response of
    # one operation, an optional property inherited through allOf and listed as required by the child; both declaration orders
    multi = {"enum_str": {"type": "string", "enum": ["a", "b"]}, "enum_int": {"type": "integer", "enum": [1, 2]},
             "model": {"type": "object", "properties": {"z": {"type": "integer"}}}, "array_str": {"type": "array", "items": {"type": "string"}},
             "array_date": {"type": "array", "items": {"type": "string", "format": "date"}}, "array_model": {"type": "array", "items": ref("Elem")},
             "array_enum": {"type": "array", "items": {"type": "string", "enum": ["x", "y"]}}, "array_array": {"type": "array", "items": {"type": "array", "items": {"type": "integer"}}},
             "union": {"oneOf": [{"type": "integer"}, {"type": "string", "format": "date"}]}, "date": {"type": "string", "format": "date"}}
    for kname_, comp in multi.items():
        for first in ("required-first", "optional-first"):
            uses = [("r", True), ("o", False)] if first == "required-first" else [("o", False), ("r", True)]
            props = {n: ref("Comp") for n, _ in uses}
            props["n"] = {"oneOf": [ref("Comp"), {"type": "null"}]}
            comps = {"Elem": {"type": "object", "properties": {"e": {"type": "string"}}}, "Comp": comp,
                     "Holder": {"type": "object", "required": ["r"], "properties": props},
                     "Parent": {"type": "object", "properties": {"inherited": ref("Comp"), "plain": {"type": "string"}}},
                     "Child": {"allOf": [ref("Parent"), {"type": "object", "required": ["inherited"], "properties": {"own": {"type": "integer"}}}]},
                     "Sibling": {"allOf": [ref("Parent"), {"type": "object", "properties": {"mine": {"type": "integer"}}}]}}
            params = [] if kname_ in ("model", "array_model", "array_array", "union") else \
                [{"name": "q" + n, "in": "query", "required": req, "schema": ref("Comp")} for n, req in uses]
            paths = {"/u": {"get": {"operationId": "useComp", "parameters": params,
                                    "responses": {"200": {"description": "d", "content": {"application/json": {"schema": ref("Comp")}}}}}}}
            for lit in ((False, True) if kname_.startswith(("enum", "array_enum")) else (False,)):
                out.append((f"s:multi-use:{kname_}:{first}{'|lit' if lit else ''}", f"shape/multi-use/{kname_}" + ("/lit" if lit else ""),
                            gen.base_doc(comps, paths=paths), {"literal_enums": lit}, {"kind": "matrix"}))
    # ... the same two shapes where an OPERATION uses them (response without optional parameters, body, required query parameter)
    for name in ("class-names-containing-unset-none", "arrays-nested-3-4-levels"):
        comps = copy.deepcopy(shapes[name])
        if name.startswith("class"):
            sch = {"oneOf": [ref("UnsettledTrade"), ref("NoneOrAll"), ref("NoneKind")]}
        else:
            sch = deep(ref("Cell"), 3)
        paths = {"/r": {"get": {"operationId": "getR", "responses": {"200": {"description": "d", "content": {"application/json": {"schema": sch}}}}}},
                 "/b": {"post": {"operationId": "postB", "requestBody": {"required": True, "content": {"application/json": {"schema": copy.deepcopy(sch)}}},
                                 "responses": {"200": {"description": "d", "content": {"application/json": {"schema": {"type": "array", "items": copy.deepcopy(sch)}}}}}}}}
        out.append((f"s:{name}:operations", f"shape/{name}/operations", gen.base_doc(comps, paths=paths), {}, {"kind": "shape"}))
    # response unions over several statuses
    out.append(("s:resp-union", "shape/resp-union", gen.base_doc(
        {"A": {"type": "object", "properties": {"a": {"type": "string"}}}, "B": {"type": "object", "properties": {"b": {"type": "integer"}}}},
        paths={"/x": {"get": {"operationId": "getX", "responses": {
            "200": {"description": "d", "content": {"application/json": {"schema": ref("A")}}}, "201": {"description": "d", "content": {"application/json": {"schema": {"type": "array", "items": ref("B")}}}},
            "404": {"description": "d", "content": {"text/plain": {"schema": {"type": "string"}}}}, "204": {"description": "d"}}}}}), {}, {"kind": "shape"}))
    # every small reference graph (edge kinds: property, items, union member, additionalProperties, allOf parent)
    from specmc.refmodels import graphs as G
    for n, m in (((2, 2),) if tier == "quick" else ((2, 4), (3, 2))):
        for label, edges, order in G.graphs(n, m):
            kinds = "+".join(sorted({kd for _i, _j, kd in edges})) or "none"
            out.append(("g:" + label, f"graph/{kinds}", gen.base_doc(G.components(n, edges, order), paths=G.paths(n)), {}, {"kind": "shape"}))
    # properties that declare a default, required or not, declared before / after a property without one
    from checks import c02
    for c in c02._default_cases(tier):
        if tier == "quick" and "other-opt" in c["labels"]:
            continue
        p = c["payload"]
        out.append(("d:" + "|".join(c["labels"]), "defaults/" + p["targets"][0]["key"].split("/", 1)[1], p["doc"], p["options"], {"kind": "c02", "targets": p["targets"]}))
    if tier == "thorough":
        for c in c02._single_cases("quick"):
            p = c["payload"]
            out.append(("k:" + "|".join(c["labels"]), "kinds/" + p["targets"][0]["key"] + ("/lit" if p["options"].get("literal_enums") else ""), p["doc"], p["options"], {"kind": "c02", "targets": p["targets"]}))
    return out


def cases(tier):
    progs = programs(tier)
    for i in range(0, len(progs), BATCH):
        chunk = progs[i:i + BATCH]
        yield {"labels": [f"batch={i // BATCH}", f"first={chunk[0][0][:60]}"], "payload": {"programs": [[pid, key, doc, opts, extra] for pid, key, doc, opts, extra in chunk]}}
    cases.info = {"extra": {"programs": len(progs), "batch_size": BATCH}}


# ------------------------------------------------------------------------------------------------- oracle 1: mypy

def _mypy_ini(dirpath):
    with open(os.path.join(gen.REPO, "pyproject.toml"), "rb") as f:
        cfg = tomllib.load(f).get("tool", {}).get("mypy", {})
    stubs = os.path.join(dirpath, "stubs")
    os.makedirs(os.path.join(stubs, "dateutil"), exist_ok=True)
    open(os.path.join(stubs, "dateutil", "__init__.pyi"), "w").close()
    with open(os.path.join(stubs, "dateutil", "parser.pyi"), "w") as f:
        f.write("import datetime\nfrom typing import Union\ndef isoparse(dt_str: Union[str, bytes]) -> datetime.datetime: ...\n")
    lines = ["[mypy]"]
    for k, v in cfg.items():
        if k in ("plugins", "overrides"):
            continue
        lines.append(f"{k} = {v if not isinstance(v, bool) else str(v)}")
    lines.append(f"mypy_path = {stubs}")
    ini = os.path.join(dirpath, "mypy.ini")
    with open(ini, "w") as f:
        f.write("\n".join(lines) + "\n")
    return ini, sorted(k for k in cfg if k not in ("plugins", "overrides"))


_MSG = re.compile(r"^(p\d+)/(.+?):(\d+): error: (.*?)(?:  \[([\w-]+)\])?$")


def _norm_msg(m):
    m = re.sub(r'"[^"]*"', '"…"', m)
    return "_".join(re.findall(r"[A-Za-z]+", m)[:8])


def run_mypy(trees):
    """trees: {pkgname: {relpath: bytes}} -> {pkgname: [(file, line, msg, code)]}"""
    d = gen.fresh_dir("mypy")
    os.makedirs(d)
    try:
        ini, flags = _mypy_ini(str(d))
        pk = os.path.join(d, "pk")
        os.makedirs(pk)
        for name, tree in trees.items():
            for rel, b in tree.items():
                p = os.path.join(pk, name, rel)
                os.makedirs(os.path.dirname(p), exist_ok=True)
                with open(p, "wb") as f:
                    f.write(b)
        cache = os.path.join(gen.scratch_root(), "mypy-cache")
        r = subprocess.run([sys.executable, "-m", "mypy", "--config-file", ini, "--cache-dir", cache, "--no-error-summary", "--hide-error-context",
                            "--no-color-output", "--show-error-codes", "--no-pretty"] + sorted(trees), cwd=pk, capture_output=True, text=True, timeout=800)
        out = {n: [] for n in trees}
        stray = []
        for line in r.stdout.splitlines():
            m = _MSG.match(line.strip())
            if m and m.group(1) in out:
                out[m.group(1)].append((m.group(2), int(m.group(3)), m.group(4), m.group(5) or ""))
            elif ": error:" in line:
                stray.append(line)
        if r.returncode not in (0, 1) or stray:
            raise RuntimeError(f"mypy failed (rc {r.returncode}): {(r.stderr or '')[-500:]} {stray[:3]}")
        return out, flags
    finally:
        shutil.rmtree(d, ignore_errors=True)


# ------------------------------------------------------------------------------------------------- oracle 2/3: truthfulness, acceptance

def conforms(v, ann, depth=0):
    if ann is typing.Any or ann is object:
        return True
    if isinstance(ann, (str, typing.ForwardRef)):
        return True
    origin = typing.get_origin(ann)
    if origin is typing.Union:
        return any(conforms(v, a, depth + 1) for a in typing.get_args(ann))
    if origin is typing.Literal:
        return any(type(v) is type(a) and v == a for a in typing.get_args(ann))
    if origin is list:
        args = typing.get_args(ann)
        return isinstance(v, list) and all(conforms(x, args[0], depth + 1) for x in v) if args else isinstance(v, list)
    if origin is dict:
        args = typing.get_args(ann)
        return isinstance(v, dict) and (not args or all(conforms(k, args[0]) and conforms(x, args[1], depth + 1) for k, x in v.items()))
    if origin is tuple:
        return isinstance(v, tuple)
    if ann is None or ann is type(None):
        return v is None
    if isinstance(ann, type):
        if ann is float:
            return isinstance(v, (int, float)) and not isinstance(v, bool)
        if ann is int:
            return isinstance(v, int) and not isinstance(v, bool)
        return isinstance(v, ann)
    return True


def inhabitants(ann, sb, depth=0):
    """A bounded enumeration of values admitted by an annotation."""
    if ann is typing.Any:
        return [1, "x", None]
    if isinstance(ann, (str, typing.ForwardRef)):
        return []
    origin = typing.get_origin(ann)
    if origin is typing.Union:
        out = []
        for a in typing.get_args(ann):
            out += inhabitants(a, sb, depth + 1)[:2]
        return out
    if origin is typing.Literal:
        return list(typing.get_args(ann))[:2]
    if origin is list:
        args = typing.get_args(ann)
        inner = inhabitants(args[0], sb, depth + 1) if args and depth < 3 else []
        return [[]] + ([[inner[0]]] if inner else []) + ([[inner[0], inner[-1]]] if len(inner) > 1 else [])
    if origin is dict:
        return [{}]
    if ann is None or ann is type(None):
        return [None]
    if isinstance(ann, type):
        if ann.__name__ == "Unset":
            return [sb.mod("types").UNSET]
        if issubclass(ann, enum.Enum):
            return list(ann)[:2]
        if ann is bool:
            return [True, False]
        if ann is int:
            return [7, 0]
        if ann is float:
            return [1.5, 2]
        if ann is str:
            return ["s", ""]
        if ann is datetime.datetime:
            return [datetime.datetime(2020, 1, 2, 3, 4, 5, tzinfo=datetime.timezone.utc)]
        if ann is datetime.date:
            return [datetime.date(2020, 1, 2)]
        if ann is uuid.UUID:
            return [uuid.UUID(K.UUID1)]
        if ann.__name__ == "File" and hasattr(ann, "to_tuple"):
            return [ann(payload=io.BytesIO(b"data"), file_name="f")]
        if hasattr(ann, "from_dict") and depth < 3:
            try:
                sig = inspect.signature(ann)
                hints = pyval.hints(ann)
                kw = {}
                for n, prm in sig.parameters.items():
                    if prm.default is inspect.Parameter.empty:
                        inh = inhabitants(hints.get(n, typing.Any), sb, depth + 1)
                        if not inh:
                            return []
                        kw[n] = inh[0]
                return [ann(**kw)]
            except Exception:  # noqa: BLE001
                return []
        if ann is bytes:
            return [b"x"]
    return []


def _truth_models(res, sb, key, extra):
    """Oracle 2+3 on every model class of the package."""
    from checks.c02 import err_class
    viol = []
    steps = 0
    try:
        models = sb.mod("models")
    except Exception:  # noqa: BLE001
        return viol, 0
    unset_t = sb.mod("types").Unset
    for m in res.models:
        cls = getattr(models, m["class"], None)
        if not isinstance(cls, type):
            continue
        hints = pyval.hints(cls)
        # instances: from the labels we know the kind only loosely; use annotation-driven values (oracle 3) and round trip them (oracle 2)
        sig = inspect.signature(cls)
        base_kw = {}
        ok = True
        for n, prm in sig.parameters.items():
            if prm.default is inspect.Parameter.empty:
                inh = inhabitants(hints.get(n, typing.Any), sb)
                if not inh:
                    ok = False
                    break
                base_kw[n] = inh[0]
        if not ok:
            continue
        for n in sig.parameters:
            ann = hints.get(n, typing.Any)
            for v in inhabitants(ann, sb)[:5]:
                kw = dict(base_kw)
                kw[n] = v
                steps += 1
                try:
                    o = cls(**kw)
                    e = o.to_dict()
                except Exception as exc:  # noqa: BLE001
                    viol.append({"oracle": "annotation-admits-rejected-value", "site": "models/<model>.py", "key": f"{key}/{_ann_class(ann)}/{_vt(v)}/{err_class(exc)}",
                                 "detail": f"{cls.__name__}.{n}: {ann!r} admits {v!r} but to_dict raises {type(exc).__name__}: {exc}"})
                    continue
                # decode what was encoded: every attribute must be an instance of its annotation (oracle 2)
                if K.non_plain(e):
                    continue          # multipart/file encodings are not JSON: not an input of from_dict
                try:
                    o2 = cls.from_dict(copy.deepcopy(e))
                except Exception:  # noqa: BLE001
                    continue          # C02's business
                for an, aann in hints.items():
                    if an == "additional_properties" or not hasattr(o2, an):
                        continue
                    got = getattr(o2, an)
                    if not conforms(got, aann):
                        viol.append({"oracle": "untruthful-annotation", "site": "models/<model>.py", "key": f"{key}/{_ann_class(aann)}/{type(got).__name__}",
                                     "detail": f"{cls.__name__}.{an} is annotated {aann!r} but decoding {e!r} yields {type(got).__name__} {got!r}"})
        # typed additional properties
        ap = hints.get("additional_properties")
        if ap is not None and typing.get_args(ap):
            vt = typing.get_args(ap)[1]
            for v in inhabitants(vt, sb)[:3]:
                try:
                    o = cls(**base_kw)
                    o.additional_properties["k1"] = v
                    e = o.to_dict()
                    if K.non_plain(e):
                        continue
                    o2 = cls.from_dict(copy.deepcopy(e))
                    steps += 1
                    got = o2.additional_properties.get("k1", "<absent>")
                    if not conforms(got, vt):
                        viol.append({"oracle": "untruthful-annotation", "site": "models/<model>.py", "key": f"{key}/addl:{_ann_class(vt)}/{type(got).__name__}",
                                     "detail": f"{cls.__name__}.additional_properties is annotated {ap!r} but decoding {e!r} yields {type(got).__name__} {got!r}"})
                except Exception:  # noqa: BLE001
                    pass
    _ = unset_t
    return viol, steps


def _ann_class(ann):
    s = repr(ann)
    s = re.sub(r"gen_\d+\.[\w.]*\.", "", s)
    s = re.sub(r"typing\.", "", s)
    s = re.sub(r"<class '([\w.]+)'>", r"\1", s)
    s = re.sub(r"<enum '([\w.]+)'>", r"\1", s)
    return s.replace(" ", "")[:60]


def _vt(v):
    return type(v).__name__


def _truth_responses(res, sb, key, table):
    """Oracle 2 for parsed response values."""
    import httpx
    import json as _json
    from checks.c04 import _body_bytes, _eff_media
    viol, steps = [], 0
    if not res.endpoints:
        return viol, 0
    ep = res.endpoints[0]
    try:
        mod = wire.endpoint_module(sb, ep)
    except Exception:  # noqa: BLE001
        return viol, 0
    hints = pyval.hints(mod.sync_detailed)
    ret = hints.get("return")
    parsed_ann = typing.get_args(ret)[0] if ret is not None and typing.get_args(ret) else typing.Any
    for spec in table:
        if spec["media"] == "none" or not isinstance(spec["status"], int):
            continue
        for _icls, value in spec["samples"][:2]:
            content = _body_bytes(spec["media"], spec["kind"], value)
            cap = wire.Capture(lambda request, c=content, s=spec: httpx.Response(s["status"], content=c, headers={"content-type": _eff_media(s["media"])}))
            r = wire.call(mod, "sync_detailed", lambda: wire.make_client(sb, cap), cap, {})
            steps += 1
            if not r or not r["ok"]:
                continue            # C04's business
            parsed = r["value"].parsed
            if parsed is not None and not conforms(parsed, parsed_ann):
                site = _eff_media(spec["media"]).split(";")[0]
                viol.append({"oracle": "untruthful-annotation", "site": f"response:{site}", "key": f"{key}/{type(parsed).__name__}",
                             "detail": f"Response.parsed is annotated Optional[{parsed_ann!r}] but status {spec['status']} with body {content[:60]!r} parses to {type(parsed).__name__} {parsed!r}"})
    _ = _json
    return viol, steps


def _accept_params(res, sb, key):
    """Oracle 3 for endpoint parameters and bodies: every inhabitant of the annotation is accepted by the request builder."""
    from checks.c02 import err_class
    import httpx
    viol, steps = [], 0
    for ep in res.endpoints[:1]:
        try:
            mod = wire.endpoint_module(sb, ep)
        except Exception:  # noqa: BLE001
            continue
        fn = mod.sync_detailed
        hints = pyval.hints(fn)
        sig = inspect.signature(fn)
        base = {}
        for n, prm in sig.parameters.items():
            if n != "client" and prm.default is inspect.Parameter.empty:
                inh = inhabitants(hints.get(n, typing.Any), sb)
                if not inh:
                    return viol, steps
                base[n] = inh[0]
        loc_of = {}
        for loc in ("path", "query", "header", "cookie"):
            for q in ep[f"{loc}_params"]:
                loc_of[q["py"]] = loc
        for n in sig.parameters:
            if n == "client":
                continue
            ann = hints.get(n, typing.Any)
            for v in inhabitants(ann, sb)[:5]:
                kw = dict(base)
                kw[n] = v
                if hasattr(kw.get("body"), "payload"):
                    kw["body"].payload.seek(0)
                cap = wire.Capture(lambda request: httpx.Response(418))
                r = wire.call(mod, "sync_detailed", lambda: wire.make_client(sb, cap), cap, kw)
                steps += 1
                if r and not r["ok"]:
                    viol.append({"oracle": "annotation-admits-rejected-value", "site": loc_of.get(n, "body"), "key": f"{key}/{_ann_class(ann)}/{_vt(v)}/{err_class(r['exc'])}",
                                 "detail": f"parameter {n}: {ann!r} admits {v!r} but the call raises {type(r['exc']).__name__}: {r['exc']}"})
    return viol, steps


def run_case(p):
    from checks.c01 import role
    progs = p["programs"]
    trees, results, viol = {}, {}, []
    steps = 0
    skipped = 0
    for i, (pid, key, doc, opts, extra) in enumerate(progs):
        res = gen.generate(doc, **opts)
        if res.crash or res.rejected or res.tree is None or res.has_error:
            skipped += 1
            continue
        name = f"p{i:03d}"
        trees[name] = res.pkg_tree()
        results[name] = (pid, key, res, extra)
    if not trees:
        return {"outcome": "nothing-generated", "nontrivial": False}
    merr, flags = run_mypy(trees)
    for name, errs in merr.items():
        pid, key, _res, _extra = results[name]
        for f, line, msg, code in errs:
            viol.append({"oracle": "mypy", "site": role(f), "key": f"{key}/{code or 'error'}:{_norm_msg(msg)}", "detail": f"[{pid}] {f}:{line}: {msg} [{code}]"})
    steps += sum(len(t) for t in trees.values())
    for name, (pid, key, res, extra) in results.items():
        with Sandbox(trees[name]) as sb:
            try:
                v, s = _truth_models(res, sb, key, extra)
                viol += v
                steps += s
                if extra.get("kind") == "resp":
                    v, s = _truth_responses(res, sb, key, extra["table"])
                    viol += v
                    steps += s
                if extra.get("kind") in ("matrix", "body"):
                    v, s = _accept_params(res, sb, key)
                    viol += v
                    steps += s
            except ImportError:
                continue
    seen, uniq = set(), []
    for v in viol:
        k = (v["oracle"], v["site"], v["key"])
        if k not in seen:
            seen.add(k)
            uniq.append(v)
    return {"violations": uniq, "outcome": "ok" if not uniq else "viol:" + ",".join(sorted({v['oracle'] for v in uniq})), "nontrivial": True, "steps": steps, "units": len(trees),
            "stats": {"programs": len(trees), "programs_skipped": skipped, "files_type_checked": sum(len(t) for t in trees.values())}}
