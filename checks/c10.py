"""C10 — absent, null and present stay three distinct states (DESIGN §C10)."""
from __future__ import annotations

import copy
import inspect
import typing

from specmc import gen, pyval, wire
from specmc.refmodels import kinds as K
from specmc.sandbox import Sandbox

ID = "C10"
LEVEL = "model_checking"
RULE = ("full product kind x required x nullability notation (none, 3.0 nullable, 3.1 type list, oneOf/anyOf null member, null enum "
        "member) x default (absent/present) x position (model property, body property via an endpoint, query, header, cookie, "
        "path); every position also with the parameter shared through a path item (3 operations) or a reusable parameter (3 uses); optional model properties also as parent / sibling of a child that re-states them more strictly (2 orders); present state exercised with every sample incl. falsy members and values; thorough: the holder model as JSON body and response of an operation; non-trivial = the class/function was generated and its three states were exercised; kinds include one-member unions (single-entry type list, anyOf / oneOf of one), falsy enum members, a second inline enum resolving to an existing class, typed + allOf-composed nullable objects; decoding twice from one mapping must agree and leave the mapping as it was; None for a nullable parameter is never transmitted like a value; a JSON request body that is falsy in Python ([], {}, 0, false, "") is transmitted as that value, alone and next to a second media type")
FLOOR = 0.5
ASSUMPTIONS = ["nullable iff nullable:true on a typed non-enum schema, 'null' in a type list, a null oneOf/anyOf member, or null among enum values (DESIGN §2.4)"]

KINDS = ["str", "int", "num", "bool", "date", "datetime", "uuid", "enum_str", "enum_int", "enum_str0", "enum_int0", "const", "model_ref", "enum_ref", "inline_object", "composed_object", "str_typelist1", "int_anyof1", "date_oneof1", "enum_second_use",
         ["array", "str"], ["array", "int"], ["array", "model_ref"], ["array", "date"], ["union", "int", "str"], ["union", "model_ref", "int"]]
DEFAULTS = {"str": "dflt", "int": 3, "num": 2.5, "bool": True, "date": "2001-02-03", "datetime": "2001-02-03T04:05:06+00:00",
            "uuid": K.UUID2, "enum_str": "b", "enum_int": -2, "enum_ref": "y"}
PARAM_OK = {"str_typelist1", "int_anyof1", "date_oneof1", "str", "int", "num", "bool", "date", "datetime", "uuid", "enum_str", "enum_int", "enum_str0", "enum_int0", "enum_ref", "array(str)", "array(int)",
            "union(int,str)"}


def _notations(kind):
    ks = K.kstr(kind)
    out = ["none"]
    if ks in ("enum_str", "enum_int", "enum_str0", "enum_int0"):
        return out + ["oneof", "anyof", "enumnull"]
    if ks == "const":
        return out + ["oneof", "anyof", "oneof-null-first"]
    if ks in ("str_typelist1", "int_anyof1", "date_oneof1", "enum_second_use"):
        return out
    if ks.startswith("union"):
        return out + ["oneof"]
    return out + ["t30", "t31", "oneof", "anyof"]


def _samples(kind):
    base = kind[1] if isinstance(kind, list) and kind[0] == "nullable" else kind
    if base == "composed_object":
        return [("value", {"z": 1, "own": "o"}), ("value", {})] + ([("null", None)] if base is not kind else [])
    alias = {"str_typelist1": "str", "int_anyof1": "int", "date_oneof1": "date", "enum_second_use": "enum_str"}
    if isinstance(base, str) and base in alias:
        return K.samples(alias[base])
    return K.samples(kind)


def _wrap(kind, notation):
    return kind if notation == "none" else ["nullable", kind, notation]


def _schema(full, comps):
    if isinstance(full, list) and full[0] == "nullable" and full[2] == "oneof-null-first":
        return {"oneOf": [{"type": "null"}, K.schema(full[1], comps)]}
    base = full[1] if isinstance(full, list) and full[0] == "nullable" else full
    ONE = {"str_typelist1": {"type": ["string"]}, "int_anyof1": {"anyOf": [{"type": "integer"}]}, "date_oneof1": {"oneOf": [{"type": "string", "format": "date"}]},
           # the SECOND inline enum that resolves to one generated class (same title under one parent); the first one carries a default
           "enum_second_use": {"title": "Shared Kind", "type": "string", "enum": ["a", "b"]}}
    if isinstance(base, str) and base in ONE:
        return copy.deepcopy(ONE[base])
    if base == "composed_object":
        # an object that is typed AND composed with allOf (a reference plus an inline part); nullable through its type
        K.schema("model_ref", comps)
        sch = {"type": "object", "allOf": [{"$ref": "#/components/schemas/Ref"}, {"type": "object", "properties": {"own": {"type": "string"}}}]}
        if full is base:
            return sch
        notation = full[2]
        if notation == "t30":
            return dict(sch, nullable=True)
        if notation == "t31":
            return dict(sch, type=["object", "null"])
        return {("anyOf" if notation == "anyof" else "oneOf"): [sch, {"type": "null"}]}
    return K.schema(full, comps)


def cases(tier):
    yield from _whole_body_cases()
    for kind in KINDS:
        ks = K.kstr(kind)
        for notation in _notations(kind):
            for req in (True, False):
                for dflt in ((False, True) if ks in DEFAULTS else (False,)):
                    full = _wrap(kind, notation)
                    version = "3.0.3" if notation == "t30" else "3.1.0"
                    positions = ["model"]
                    if ks in PARAM_OK:
                        positions += ["query", "header", "cookie"] + (["path"] if req else [])
                    for pos in positions:
                        comps = {}
                        sch = _schema(full, comps)
                        if dflt:
                            sch = _with_default(sch, DEFAULTS[ks])
                        labels = [f"kind={ks}", f"null={notation}", "req" if req else "opt", f"pos={pos}"] + (["default"] if dflt else [])
                        key = f"{ks}/{notation}/{'req' if req else 'opt'}/{'dflt' if dflt else 'nodflt'}"
                        if pos == "model":
                            comps["M"] = {"type": "object", "properties": {"p": sch, "other": {"type": "integer"}}}
                            if ks == "enum_second_use":
                                comps["M"]["properties"] = {"first_use": {"title": "Shared Kind", "type": "string", "enum": ["a", "b"], "default": "b"}, **comps["M"]["properties"]}
                            if req:
                                comps["M"]["required"] = ["p"]
                            doc = gen.base_doc(comps, version=version)
                            if req and not dflt and notation in ("none", "t31"):
                                # requiredness stated by an allOf member instead of next to the properties
                                for route, member in (("allof-required-only", {"required": ["p"]}),
                                                      ("allof-member-props", {"type": "object", "required": ["p"], "properties": {"extra": {"type": "string"}}}),
                                                      ("allof-all-in-member", None)):
                                    c2 = copy.deepcopy(comps)
                                    if member is None:
                                        c2["M"] = {"allOf": [{"type": "object", "required": ["p"], "properties": {"p": copy.deepcopy(sch), "other": {"type": "integer"}}}]}
                                    else:
                                        del c2["M"]["required"]
                                        c2["M"]["allOf"] = [member]
                                    yield {"labels": labels + [f"required-via={route}"], "payload": {
                                        "doc": gen.base_doc(c2, version=version), "pos": pos, "kind": kind, "notation": notation, "required": req,
                                        "default": None, "has_default": False, "key": key + "/" + route}}
                            # the same holder as a CLOSED model (additionalProperties: false)
                            cclosed = copy.deepcopy(comps)
                            cclosed["M"]["additionalProperties"] = False
                            yield {"labels": labels + ["closed-model"], "payload": {
                                "doc": gen.base_doc(cclosed, version=version), "pos": pos, "kind": kind, "notation": notation, "required": req,
                                "default": DEFAULTS[ks] if dflt else None, "has_default": dflt, "key": key, "ctx": "closed-model"}}
                            if not req:
                                # the property is inherited by a child that states it more strictly: M itself (and a sibling
                                # that only inherits) must keep their own three states, whatever the declaration order
                                stricter = [("child-requires", {"required": ["p"]})]
                                if ks in DEFAULTS and not dflt:
                                    stricter.append(("child-defaults", {"type": "object", "properties": {"p": _with_default(sch, DEFAULTS[ks])}}))
                                    stricter.append(("child-redeclares-required", {"type": "object", "required": ["p"], "properties": {"p": copy.deepcopy(sch)}}))
                                for route, member in stricter:
                                    for order in ("kid-first", "kid-last"):
                                        kid = {"allOf": [{"$ref": "#/components/schemas/M"}, member]}
                                        sib = {"allOf": [{"$ref": "#/components/schemas/M"}, {"type": "object", "properties": {"s": {"type": "string"}}}]}
                                        c2 = dict(copy.deepcopy(comps))
                                        c2 = ({"Kid": kid, **c2, "Sib": sib} if order == "kid-first" else {"Sib": sib, **c2, "Kid": kid})
                                        yield {"labels": labels + [f"inherited-by={route}", order], "payload": {
                                            "doc": gen.base_doc(c2, version=version), "pos": pos, "kind": kind, "notation": notation, "required": req,
                                            "default": DEFAULTS[ks] if dflt else None, "has_default": dflt, "key": key,
                                            "also": ["Sib"], "ctx": route}}
                            if notation in ("none", "t31") or tier == "thorough":
                                # the same model as multipart/form-data request body: a set value is a part, an absent one is not
                                dm = copy.deepcopy(doc)
                                dm["paths"] = {"/m": {"post": {"operationId": "postM", "requestBody": {"required": True, "content": {"multipart/form-data": {"schema": {"$ref": "#/components/schemas/M"}}}},
                                                               "responses": {"204": {"description": "n"}}}}}
                                yield {"labels": labels + ["via-multipart"], "payload": {
                                    "doc": dm, "pos": "multipart", "kind": kind, "notation": notation, "required": req,
                                    "default": DEFAULTS[ks] if dflt else None, "has_default": dflt, "key": key + "/multipart"}}
                            if tier == "thorough":
                                # the same model as JSON request body and as JSON response of an operation: the three states on the wire
                                d3 = copy.deepcopy(doc)
                                mref = {"$ref": "#/components/schemas/M"}
                                d3["paths"] = {"/m": {"post": {"operationId": "postM", "requestBody": {"required": True, "content": {"application/json": {"schema": mref}}},
                                                               "responses": {"200": {"description": "d", "content": {"application/json": {"schema": mref}}}}}}}
                                yield {"labels": labels + ["via-endpoint"], "payload": {
                                    "doc": d3, "pos": "endpoint", "kind": kind, "notation": notation, "required": req,
                                    "default": DEFAULTS[ks] if dflt else None, "has_default": dflt, "key": key}}
                        else:
                            path = "/r/{p}" if pos == "path" else "/r"
                            param = {"name": "p", "in": pos, "required": req, "schema": sch}
                            ok = {"200": {"description": "d"}}
                            doc = gen.base_doc(comps or None, version=version, paths={path: {"get": {"operationId": "getR", "parameters": [
                                param], "responses": ok}}})
                            # the same parameter object used by several operations: every use keeps the three states
                            path2 = "/s/{p}" if pos == "path" else "/s"
                            shared = {
                                "pathitem": {path: {"parameters": [copy.deepcopy(param)],
                                                    "get": {"operationId": "getR", "responses": ok}, "post": {"operationId": "postR", "responses": ok},
                                                    "delete": {"operationId": "delR", "responses": ok}}},
                                "component": {path: {"get": {"operationId": "getR", "parameters": [{"$ref": "#/components/parameters/Shared"}], "responses": ok}},
                                              path2: {"get": {"operationId": "getS", "parameters": [{"$ref": "#/components/parameters/Shared"}], "responses": ok},
                                                      "put": {"operationId": "putS", "parameters": [{"$ref": "#/components/parameters/Shared"}], "responses": ok}}}}
                            for use, paths in shared.items():
                                d2 = gen.base_doc(comps or None, version=version, paths=paths)
                                if use == "component":
                                    d2.setdefault("components", {})["parameters"] = {"Shared": copy.deepcopy(param)}
                                yield {"labels": labels + [f"shared-by={use}"], "payload": {
                                    "doc": d2, "pos": pos, "kind": kind, "notation": notation, "required": req,
                                    "default": DEFAULTS[ks] if dflt else None, "has_default": dflt, "key": key, "ctx": use}}
                        yield {"labels": labels, "payload": {"doc": doc, "pos": pos, "kind": kind, "notation": notation, "required": req,
                                                             "default": DEFAULTS[ks] if dflt else None, "has_default": dflt, "key": key}}


def _with_default(sch, d):
    s = copy.deepcopy(sch)
    if "oneOf" in s or "anyOf" in s:
        s["default"] = d
    else:
        s["default"] = d
    return s


def _admits_none(ann):
    if ann is typing.Any:
        return True
    if ann is type(None) or ann is None:
        return True
    if typing.get_origin(ann) is typing.Union:
        return any(_admits_none(a) for a in typing.get_args(ann))
    return False


def _admits_unset(ann):
    if typing.get_origin(ann) is typing.Union:
        return any(_admits_unset(a) for a in typing.get_args(ann))
    return isinstance(ann, type) and ann.__name__ == "Unset"


def _model(p, res, sb):
    from checks.c02 import find_class
    out = None
    for comp in ["M"] + list(p.get("also", ())):
        cls = find_class(res, sb, comp)
        if cls is None:
            if comp == "M":
                return None
            continue
        v = _model_one(p, cls, sb, p["key"])
        if p.get("ctx"):      # the context is part of the explanation, not of the signature: the expectation is the context-free one
            for x in v:
                x["detail"] += f"  [{'holder' if comp == 'M' else 'sibling'}; context: {p['ctx']}]"
        out = (out or []) + v
    return out


def _model_one(p, cls, sb, key):
    from checks.c02 import err_class
    viol = []
    pos = "model"
    unset = sb.mod("types").UNSET
    nullable = p["notation"] != "none"
    sig = inspect.signature(cls)
    par = sig.parameters.get("p")
    if par is None:
        return [{"oracle": "attribute-missing", "site": pos, "key": key, "detail": f"{cls.__name__}.__init__ has no parameter p: {sig}"}]
    hints = pyval.hints(cls)
    ann = hints.get("p", typing.Any)
    sample = _samples(p["kind"])[0][1]
    # 1. mandatory vs optional argument
    if p["required"] and not p["has_default"]:
        if par.default is not inspect.Parameter.empty:
            viol.append({"oracle": "mandatory-arg", "site": pos, "key": key, "detail": f"required property without default has parameter default {par.default!r}"})
        try:
            cls.from_dict({"other": 1})
            viol.append({"oracle": "mandatory-decode", "site": pos, "key": key, "detail": "from_dict without the required key did not fail"})
        except Exception:  # noqa: BLE001
            pass
    elif not p["required"]:
        if not p["has_default"] and par.default is not unset:
            viol.append({"oracle": "optional-default", "site": pos, "key": key, "detail": f"optional property has parameter default {par.default!r}, not UNSET"})
        if not _admits_unset(ann) and ann is not typing.Any:
            viol.append({"oracle": "hint-unset", "site": pos, "key": key, "detail": f"optional property annotated {ann!r} (no Unset)"})
        # 2. absent
        try:
            o = cls.from_dict({"other": 1})
            if getattr(o, "p") is not unset:
                viol.append({"oracle": "absent-readback", "site": pos, "key": key, "detail": f"absent key reads back as {getattr(o, 'p')!r}"})
            e = o.to_dict()
            if "p" in e:
                viol.append({"oracle": "absent-encode", "site": pos, "key": key, "detail": f"absent key re-encoded as {e!r}"})
        except Exception as exc:  # noqa: BLE001
            viol.append({"oracle": "absent-decode-raises", "site": pos, "key": f"{key}/{err_class(exc)}", "detail": f"from_dict without the optional key raised {exc!r}"})
        if not p["has_default"]:
            try:
                o = cls()
                if o.p is not unset or "p" in o.to_dict():
                    viol.append({"oracle": "absent-construct", "site": pos, "key": key, "detail": f"omitted argument gives {o.p!r} / {o.to_dict()!r}"})
            except Exception as exc:  # noqa: BLE001
                viol.append({"oracle": "absent-construct", "site": pos, "key": f"{key}/{err_class(exc)}", "detail": f"constructing without the optional argument raised {exc!r}"})
    # 3. null
    if nullable:
        try:
            o = cls.from_dict({"p": None, "other": 1})
            if o.p is not None:
                viol.append({"oracle": "null-decode", "site": pos, "key": key, "detail": f"JSON null decodes to {o.p!r}"})
            else:
                e = o.to_dict()
                if "p" not in e or e["p"] is not None:
                    viol.append({"oracle": "null-encode", "site": pos, "key": key, "detail": f"None encodes as {e!r}"})
        except Exception as exc:  # noqa: BLE001
            viol.append({"oracle": "null-decode", "site": pos, "key": f"{key}/{err_class(exc)}", "detail": f"from_dict with null raised {exc!r}"})
    # 4. present: every sample value, the falsy ones ("" / 0 / False / [] / {}) included
    for _c, sample in [x for x in _samples(p["kind"]) if x[0] != "null"][:4]:
        falsy = "/falsy" if (sample in ("", 0, False) or sample == [] or sample == {}) else ""
        try:
            o = cls.from_dict({"p": copy.deepcopy(sample), "other": 1})
            if o.p is unset or (o.p is None and sample is not None):
                viol.append({"oracle": "value-decode", "site": pos, "key": key + falsy, "detail": f"value {sample!r} decodes to {o.p!r}"})
            e = o.to_dict()
            if not K.json_eq(e.get("p", "<absent>"), sample):
                viol.append({"oracle": "value-encode", "site": pos, "key": key + falsy, "detail": f"value {sample!r} re-encodes as {e!r}"})
        except Exception as exc:  # noqa: BLE001
            viol.append({"oracle": "value-decode", "site": pos, "key": f"{key}{falsy}/{err_class(exc)}", "detail": f"from_dict with {sample!r} raised {exc!r}"})
    # 4b. decoding must not consume its input: the same mapping decoded twice gives equal objects, and stays what it was
    for _c, sample in [x for x in _samples(p["kind"])][:3]:
        src = {"p": copy.deepcopy(sample), "other": 1}
        keep = copy.deepcopy(src)
        try:
            o1 = cls.from_dict(src)
            o2 = cls.from_dict(src)
            if not K.json_eq(src, keep):
                viol.append({"oracle": "decode-consumes-input", "site": pos, "key": key, "detail": f"from_dict changed its argument: {keep!r} became {src!r}"})
            elif o1 != o2:
                viol.append({"oracle": "decode-consumes-input", "site": pos, "key": key, "detail": f"the same mapping decoded twice: {o1!r} then {o2!r}"})
        except Exception:  # noqa: BLE001   (judged above)
            pass
    # 5. declared type admits None exactly when the schema is nullable
    if _admits_none(ann) != nullable and ann is not typing.Any:
        viol.append({"oracle": "hint-nullability", "site": pos, "key": key, "detail": f"schema nullable={nullable} but attribute annotated {ann!r}"})
    return viol


def _param(p, res, sb):
    if not res.endpoints:
        return None
    out = []
    for i, ep in enumerate(res.endpoints):
        v = _param_one(p, res, sb, ep, p["key"])
        if v is None:
            return None
        if p.get("ctx"):
            for x in v:
                x["detail"] += f"  [use #{i + 1} ({ep['name']}) of a parameter shared through {p['ctx']}]"
        out += v
    return out


def _param_one(p, res, sb, ep, key):
    from checks.c02 import err_class
    viol = []
    pos = p["pos"]
    mod = wire.endpoint_module(sb, ep)
    unset = sb.mod("types").UNSET
    nullable = p["notation"] != "none"
    lst = ep[f"{pos}_params"]
    if not lst:
        return [{"oracle": "param-not-offered", "site": pos, "key": key, "detail": "declared parameter is not offered by the generated function"}] \
            if "p" not in res.diag_text() else None
    py = lst[0]["py"]
    sig = inspect.signature(mod.sync_detailed)
    par = sig.parameters[py]
    hints = pyval.hints(mod.sync_detailed)
    ann = hints.get(py, typing.Any)
    if p["required"] and not p["has_default"] and par.default is not inspect.Parameter.empty:
        viol.append({"oracle": "mandatory-arg", "site": pos, "key": key, "detail": f"required parameter without default has default {par.default!r}"})
    if not p["required"] and not p["has_default"] and par.default is not unset:
        viol.append({"oracle": "optional-default", "site": pos, "key": key, "detail": f"optional parameter has default {par.default!r}, not UNSET"})
    if not p["required"] and not _admits_unset(ann) and ann is not typing.Any:
        viol.append({"oracle": "hint-unset", "site": pos, "key": key, "detail": f"optional parameter annotated {ann!r} (no Unset)"})
    if _admits_none(ann) != nullable and ann is not typing.Any:
        viol.append({"oracle": "hint-nullability", "site": pos, "key": key, "detail": f"schema nullable={nullable} but parameter annotated {ann!r}"})
    cap = wire.Capture()
    if p["required"] and not p["has_default"]:
        r = wire.call(mod, "sync_detailed", lambda: wire.make_client(sb, cap), cap, {})
        if r["ok"] or not isinstance(r["exc"], TypeError):
            viol.append({"oracle": "mandatory-arg", "site": pos, "key": key, "detail": "calling without the required argument did not raise TypeError"})
    if not p["required"] and not p["has_default"]:
        for variant in ("sync_detailed", "asyncio_detailed"):
            r = wire.call(mod, variant, lambda: wire.make_client(sb, cap), cap, {})
            if not r["ok"]:
                viol.append({"oracle": "absent-call-raises", "site": pos, "key": f"{key}/{err_class(r['exc'])}", "detail": f"omitting the optional argument raised {r['exc']!r}"})
            elif r["requests"]:
                q = r["requests"][0]
                sent = (pos == "query" and q["query"]) or (pos == "cookie" and q["cookies"]) or (pos == "header" and any(k == "p" for k, _ in q["headers"]))
                if sent:
                    viol.append({"oracle": "param-absent-wire", "site": pos, "key": key, "detail": f"omitted parameter transmitted: {wire.req_summary(q)!r}"})
    # null: what a nullable parameter transmits for None is never what it transmits for a value (the falsy ones included)
    null_req = None
    if pos != "path" and nullable and _admits_none(ann):
        r = wire.call(mod, "sync_detailed", lambda: wire.make_client(sb, cap), cap, {py: None})
        if r["ok"] and r["requests"]:
            null_req = wire.req_summary(r["requests"][0])
            ra = wire.call(mod, "asyncio_detailed", lambda: wire.make_client(sb, cap), cap, {py: None})
            if ra["ok"] and ra["requests"] and wire.req_summary(ra["requests"][0]) != null_req:
                viol.append({"oracle": "param-null-wire", "site": pos, "key": key + "/variants", "detail": f"None is transmitted as {null_req!r} by sync_detailed and as {wire.req_summary(ra['requests'][0])!r} by asyncio_detailed"})
    # present: every sample value, the falsy ones included, is transmitted (an empty array has nothing to transmit)
    if pos != "path":
        for _c, sample in [x for x in _samples(p["kind"]) if x[0] != "null"][:4]:
            if sample == []:
                continue
            try:
                val = pyval.pythonize(ann, copy.deepcopy(sample))
            except pyval.NoFit:
                continue
            r = wire.call(mod, "sync_detailed", lambda: wire.make_client(sb, cap), cap, {py: val})
            if not r["ok"] or not r["requests"]:
                continue          # a value the location cannot carry raises in httpx: C03's recorded business
            q = r["requests"][0]
            sent = (pos == "query" and any(k == "p" for k, _ in q["query"])) or (pos == "cookie" and "p" in q["cookies"]) or (pos == "header" and any(k == "p" for k, _ in q["headers"]))
            if not sent:
                falsy = "/falsy" if sample in ("", 0, False) else ""
                viol.append({"oracle": "param-present-wire", "site": pos, "key": key + falsy, "detail": f"argument {sample!r} was passed but nothing was transmitted: {wire.req_summary(q)!r}"})
            elif null_req is not None and wire.req_summary(q) == null_req:
                viol.append({"oracle": "param-null-wire", "site": pos, "key": key, "detail": f"None and {sample!r} are transmitted identically: {null_req!r}"})
    return viol


def _endpoint(p, res, sb):
    """The holder model as JSON request body and JSON response: absent / null / value as they appear on the wire."""
    import json

    import httpx

    from checks.c02 import err_class, find_class
    cls = find_class(res, sb, "M")
    if cls is None or not res.endpoints:
        return None
    key, viol = p["key"], []
    mod = wire.endpoint_module(sb, res.endpoints[0])
    unset = sb.mod("types").UNSET
    sample = _samples(p["kind"])[0][1]
    states = [("value", {"p": copy.deepcopy(sample), "other": 1})]
    if not p["required"]:
        states.append(("absent", {"other": 1}))
    if p["notation"] != "none":
        states.append(("null", {"p": None, "other": 1}))
    for state, inst in states:
        try:
            body = cls.from_dict(copy.deepcopy(inst))
        except Exception:  # noqa: BLE001   (decoding is judged by the model position)
            continue
        cap = wire.Capture(lambda request, inst=inst: httpx.Response(200, json=inst))
        for variant in ("sync_detailed", "asyncio_detailed"):
            r = wire.call(mod, variant, lambda: wire.make_client(sb, cap), cap, {"body": body})
            if not r["ok"] or not r["requests"]:
                viol.append({"oracle": "endpoint-call-raises", "site": "endpoint", "key": f"{key}/{state}/{err_class(r.get('exc'))}", "detail": f"{variant} with p {state} raised {r.get('exc')!r}"})
                continue
            try:
                sent = json.loads(r["requests"][0]["content"])
            except ValueError:
                sent = "<not json>"
            if not K.json_eq(sent, inst) and not (state == "absent" and p["has_default"]):
                viol.append({"oracle": f"{state}-on-the-wire", "site": "endpoint", "key": key, "detail": f"{variant}: body with p {state} sent as {sent!r}, expected {inst!r}"})
            parsed = r["value"].parsed
            got = getattr(parsed, "p", "<no attribute>")
            if state == "absent" and got is not unset and not p["has_default"]:
                viol.append({"oracle": "absent-readback", "site": "endpoint", "key": key, "detail": f"{variant}: response without p parsed to {got!r}"})
            if state == "null" and got is not None:
                viol.append({"oracle": "null-decode", "site": "endpoint", "key": key, "detail": f"{variant}: response with p null parsed to {got!r}"})
            if state == "value" and (got is unset or got is None):
                viol.append({"oracle": "value-decode", "site": "endpoint", "key": key, "detail": f"{variant}: response with p={sample!r} parsed to {got!r}"})
    seen, uniq = set(), []
    for v in viol:
        k = (v["oracle"], v["key"])
        if k not in seen:
            seen.add(k)
            uniq.append(v)
    return uniq


def _multipart(p, res, sb):
    """The holder model as multipart/form-data body: a value that is set is a part of the request, an absent one is not."""
    import httpx

    from checks.c02 import err_class, find_class
    cls = find_class(res, sb, "M")
    if cls is None or not res.endpoints:
        return None
    key, viol = p["key"], []
    mod = wire.endpoint_module(sb, res.endpoints[0])
    states = [("value", {"p": copy.deepcopy(s_[1]), "other": 1}) for s_ in _samples(p["kind"])[:2]]
    if not p["required"] and not p["has_default"]:
        states.append(("absent", {"other": 1}))
    for state, inst in states:
        try:
            body = cls.from_dict(copy.deepcopy(inst))
        except Exception:  # noqa: BLE001   (decoding is judged by the model position)
            continue
        cap = wire.Capture(lambda request: httpx.Response(204))
        for variant in ("sync_detailed", "asyncio_detailed"):
            r = wire.call(mod, variant, lambda: wire.make_client(sb, cap), cap, {"body": body})
            if not r["ok"] or not r["requests"]:
                viol.append({"oracle": "multipart-call-raises", "site": "multipart", "key": f"{key}/{state}/{err_class(r.get('exc'))}", "detail": f"{variant} with p {state} ({inst.get('p')!r}) raised {r.get('exc')!r}"})
                continue
            content = r["requests"][0]["content"]
            has_p, has_other = b'name="p"' in content, b'name="other"' in content
            if not has_other:
                viol.append({"oracle": "multipart-sibling-lost", "site": "multipart", "key": key, "detail": f"{variant}: part `other` missing with p {state}"})
            if state == "value" and not has_p:
                viol.append({"oracle": "value-on-the-wire", "site": "multipart", "key": key, "detail": f"{variant}: p={inst['p']!r} is set but the request has no part named p"})
            if state == "absent" and has_p:
                viol.append({"oracle": "absent-on-the-wire", "site": "multipart", "key": key, "detail": f"{variant}: p is absent but the request has a part named p"})
    seen, uniq = set(), []
    for v in viol:
        k = (v["oracle"], v["key"])
        if k not in seen:
            seen.add(k)
            uniq.append(v)
    return uniq


# the request body as a whole: present values that are falsy in Python are still PRESENT on the wire
WHOLE_BODIES = {
    "array_int": ({"type": "array", "items": {"type": "integer"}}, [[], [0], [1, 2]]),
    "array_model": ({"type": "array", "items": {"type": "object", "properties": {"z": {"type": "integer"}}}}, [[], [{}], [{"z": 0}]]),
    "object_all_optional": ({"type": "object", "properties": {"note": {"type": "string"}, "n": {"type": ["integer", "null"]}}}, [{}, {"note": ""}, {"n": None}, {"note": "x", "n": 0}]),
    "int": ({"type": "integer"}, [0, 7]), "num": ({"type": "number"}, [0.0, 1.5]), "bool": ({"type": "boolean"}, [False, True]), "str": ({"type": "string"}, ["", "s"]),
    "nullable_str": ({"type": ["string", "null"]}, ["", "s"]),
}


def _whole_body_cases():
    for name in WHOLE_BODIES:
        for media in ("application/json", "application/vnd.x+json"):
            for others in ("alone", "next-to-text"):
                yield {"labels": [f"whole-body={name}", f"media={media}", others], "payload": {"pos": "whole-body", "body": name, "media": media, "others": others}}


def _run_whole_body(p):
    import json

    import httpx
    sch, values = WHOLE_BODIES[p["body"]]
    content = {p["media"]: {"schema": copy.deepcopy(sch)}}
    if p["others"] == "next-to-text":
        content["application/octet-stream"] = {"schema": {"type": "string", "format": "binary"}}
    doc = gen.base_doc(None, paths={"/b": {"post": {"operationId": "sendB", "requestBody": {"required": True, "content": content}, "responses": {"204": {"description": "n"}}}}})
    res = gen.generate(doc)
    if res.crash:
        return {"skipped_crash": True, "outcome": f"crash:{res.crash['type']}", "nontrivial": False}
    if res.rejected or not res.endpoints:
        return {"outcome": "rejected", "nontrivial": False}
    key = f"whole-body/{p['body']}" + ("/multi" if p["others"] != "alone" else "")
    viol = []
    with Sandbox(res.pkg_tree()) as sb:
        try:
            mod = wire.endpoint_module(sb, res.endpoints[0])
        except Exception as exc:  # noqa: BLE001
            return {"outcome": f"import-fails:{type(exc).__name__}", "nontrivial": False}
        ann = pyval.hints(mod.sync_detailed).get("body", typing.Any)
        for v in values:
            try:
                arg = pyval.pythonize(ann, copy.deepcopy(v))
            except pyval.NoFit:
                continue
            for variant in ("sync_detailed", "asyncio_detailed"):
                cap = wire.Capture(lambda request: httpx.Response(204))
                r = wire.call(mod, variant, lambda: wire.make_client(sb, cap), cap, {"body": arg})      # noqa: B023
                if r is None or not r["ok"] or not r["requests"]:
                    continue
                q = r["requests"][0]
                falsy = "/falsy" if v in ([], {}, 0, 0.0, False, "") else ""
                try:
                    sent = json.loads(q["content"]) if q["content"] else "<nothing>"
                except ValueError:
                    sent = f"<not JSON: {q['content'][:40]!r}>"
                if sent == "<nothing>" or not K.json_eq(sent, v) or type(sent) is not type(v) and not (isinstance(sent, (int, float)) and isinstance(v, (int, float)) and not isinstance(v, bool) and not isinstance(sent, bool)):
                    viol.append({"oracle": "body-present-wire", "site": variant.split("_")[0], "key": key + falsy,
                                 "detail": f"{variant}: body {v!r} was passed, the request carried {sent!r} (Content-Type {q['content_type']!r})"})
                elif (q["content_type"] or "").split(";")[0].strip() != p["media"]:
                    viol.append({"oracle": "body-present-wire", "site": variant.split("_")[0], "key": key + "/content-type" + falsy,
                                 "detail": f"{variant}: body {v!r}: Content-Type {q['content_type']!r}, declared {p['media']!r}"})
    seen, uniq = set(), []
    for x in viol:
        kk = (x["oracle"], x["site"], x["key"])
        if kk not in seen:
            seen.add(kk)
            uniq.append(x)
    return {"violations": uniq, "outcome": "ok" if not uniq else "viol:body-present-wire", "nontrivial": True, "steps": 2 * len(values)}


def run_case(p):
    if p.get("pos") == "whole-body":
        return _run_whole_body(p)
    res = gen.generate(p["doc"])
    if res.crash:
        return {"skipped_crash": True, "outcome": f"crash:{res.crash['type']}", "nontrivial": False}
    if res.rejected:
        return {"outcome": "rejected", "nontrivial": False}
    with Sandbox(res.pkg_tree()) as sb:
        try:
            if p["pos"] == "multipart":
                viol = _multipart(p, res, sb)
            else:
                viol = _model(p, res, sb) if p["pos"] == "model" else (_endpoint(p, res, sb) if p["pos"] == "endpoint" else _param(p, res, sb))
        except ImportError as exc:
            return {"outcome": f"import-fails:{type(exc).__name__}", "nontrivial": False}
    if viol is None:
        return {"outcome": "pruned:" + (res.diags[0].short()[:60] if res.diags else "?"), "nontrivial": False}
    return {"violations": viol, "outcome": "ok" if not viol else "viol:" + ",".join(sorted({v['oracle'] for v in viol})),
            "nontrivial": True, "steps": 6}
