"""C16 — each configuration option has exactly its documented effect (DESIGN §C16)."""
from __future__ import annotations

import ast
import copy
import inspect
import json
import os
import re
import shutil
import typing

from specmc import gen, pyval, wire
from specmc.sandbox import Sandbox

ID = "C16"
LEVEL = "model_checking"
RULE = ("every option of the README's Configuration section and of the generate command (project/package/version overrides, "
        "class_overrides x {class, module, both}, field_prefix, use_path_prefixes_for_title_model_names, literal_enums, "
        "docstrings_on_attributes, generate_all_tags, content_type_overrides, --meta x4, --file-encoding x3, --custom-template-path x "
        "every template file, post_hooks, --output-path) alone and under each of 6 context option sets (pairs), over 6 documents; one "
        "metamorphic relation per option, checked on bytes, ASTs or executed behaviour; non-trivial = relation evaluated; documents include equal module names under different tags, identical inline enums merged through class_overrides, builtin-like class names, override keys with parameters / upper case / malformed; a multi-tag operation with inline schemas under generate_all_tags, the package name derived from an overridden project name, every option through yaml / json / extension-less config files via the real command line, post-hook lists with missing tools, custom templates with non-ASCII text x file encodings; name overrides x every metadata flavour x default location / --output-path (where the project and package directories end up)")
FLOOR = 0.5
CASE_LIMIT = 120
ASSUMPTIONS = ["relations per DESIGN §C16; behaviour = re-encoded model instances built from the annotations' inhabitants + captured requests"]

R = "#/components/schemas/"


def ref(n):
    return {"$ref": R + n}


def docs():
    D = {}
    obj = lambda **p: {"type": "object", "properties": p}  # noqa: E731
    D["shop"] = gen.base_doc(
        {"Order": {"type": "object", "required": ["id", "status"], "description": "An order", "properties": {
            "id": {"type": "integer", "description": "identifier"}, "status": ref("Status"), "1st-line": {"type": "string", "description": "needs a prefix"},
            "priority": {"type": "integer", "enum": [1, 2, 3], "description": "inline int enum"}, "items": {"type": "array", "items": ref("Item")},
            "meta": {"type": "object", "title": "OrderMeta", "properties": {"note": {"type": "string"}}}, "when": {"type": "string", "format": "date-time"}}},
         "Item": obj(sku={"type": "string"}, kind={"type": "string", "enum": ["a", "b"], "default": "a"}, **{"2nd": {"type": "number"}}),
         "Status": {"type": "string", "enum": ["open", "closed"], "description": "order status"}},
        paths={"/orders/{id}": {"get": {"operationId": "getOrder", "tags": ["orders", "admin"], "summary": "Get one",
                                        "parameters": [{"name": "id", "in": "path", "required": True, "schema": {"type": "integer"}},
                                                       {"name": "status", "in": "query", "schema": ref("Status")},
                                                       {"name": "X-Priority", "in": "header", "schema": {"type": "integer", "enum": [1, 2, 3]}},
                                                       {"name": "9lives", "in": "query", "schema": {"type": "string"}}],
                                        "responses": {"200": {"description": "d", "content": {"application/json": {"schema": ref("Order")}}}}}},
               "/orders": {"post": {"operationId": "createOrder", "tags": ["orders"], "requestBody": {"required": True, "content": {"application/json": {"schema": ref("Order")}}},
                                    "responses": {"201": {"description": "d", "content": {"application/json": {"schema": ref("Order")}}}, "400": {"description": "bad", "content": {"application/json": {"schema": obj(msg={"type": "string"})}}}}}},
               "/items": {"get": {"operationId": "listItems", "tags": ["items", "orders", "reports"], "responses": {"200": {"description": "d", "content": {"application/json": {"schema": {"type": "array", "items": ref("Item")}}}}}}}})
    D["media"] = gen.base_doc(
        {"Blob": obj(name={"type": "string"}), "Log": obj(line={"type": "string"})},
        paths={"/zip": {"put": {"operationId": "putZip", "requestBody": {"required": True, "content": {"application/zip": {"schema": {"type": "string", "format": "binary"}}}},
                                "responses": {"200": {"description": "d", "content": {"text/json": {"schema": ref("Blob")}}}, "202": {"description": "d", "content": {"application/x-log": {"schema": {"type": "string"}}}}}}},
               "/j": {"post": {"operationId": "postJ", "requestBody": {"required": True, "content": {"application/x-thing": {"schema": ref("Log")}}},
                               "responses": {"200": {"description": "d", "content": {"application/x-thing": {"schema": ref("Log")}}}}}},
               # override targets that are encoded as forms / multipart parts
               "/f": {"post": {"operationId": "postF", "requestBody": {"required": True, "content": {"application/x-formy": {"schema": ref("Log")}}}, "responses": {"204": {"description": "n"}}}},
               "/mp": {"post": {"operationId": "postMp", "requestBody": {"required": True, "content": {"multipart/mixed": {"schema": ref("Blob")}}}, "responses": {"204": {"description": "n"}}}}})
    # override keys that are not a plain lower-case type/subtype: a key with parameters, upper-case letters, a malformed key
    D["media-odd"] = gen.base_doc(
        {"Blob": obj(name={"type": "string"}), "Log": obj(line={"type": "string"})},
        paths={"/v": {"post": {"operationId": "postV", "requestBody": {"required": True, "content": {"application/vnd.acme.report; version=2": {"schema": ref("Log")}}},
                               "responses": {"200": {"description": "d", "content": {"application/vnd.acme.report; version=2": {"schema": ref("Blob")}}}}}},
               "/u": {"put": {"operationId": "putU", "requestBody": {"required": True, "content": {"Application/X-UPPER": {"schema": ref("Log")}}},
                              "responses": {"200": {"description": "d", "content": {"Application/X-UPPER": {"schema": ref("Log")}}}}}},
               "/m": {"post": {"operationId": "postM", "requestBody": {"required": True, "content": {"openapi/python/client": {"schema": ref("Blob")}}},
                               "responses": {"200": {"description": "d", "content": {"openapi/python/client": {"schema": ref("Blob")}}}}}}})
    # classes whose snake-case name is a Python builtin / keyword-like word get a module name that differs from it (format_, type_, ...)
    D["builtin-names"] = gen.base_doc(
        {"Format": {"type": "string", "enum": ["json", "xml"]}, "Type": {"type": "integer", "enum": [1, 2]}, "Filter": {"type": "string", "enum": ["on", "off"], "default": "on"},
         "List": obj(format=ref("Format"), type=ref("Type"), filter=ref("Filter"), id={"type": "integer"}),
         "Object": obj(items={"type": "array", "items": ref("List")}, inline={"type": "string", "enum": ["i1", "i2"]})},
        paths={"/l": {"get": {"operationId": "getList", "parameters": [{"name": "format", "in": "query", "schema": ref("Format")}, {"name": "type", "in": "query", "schema": ref("Type")}],
                              "responses": {"200": {"description": "d", "content": {"application/json": {"schema": ref("Object")}}}}}}})
    D["titles"] = gen.base_doc(
        {"Outer": obj(inner={"type": "object", "title": "Inner Thing", "properties": {"deep": {"type": "object", "title": "Deep One", "properties": {"v": {"type": "integer"}}},
                                                                               "mode": {"type": "string", "title": "Mode", "enum": ["x", "y"]}}}, plain=obj(z={"type": "string"}))},
        paths={"/t": {"post": {"operationId": "postT", "requestBody": {"content": {"application/json": {"schema": {"type": "object", "title": "Request Shape", "properties": {"a": {"type": "integer"}}}}}},
                               "responses": {"200": {"description": "d", "content": {"application/json": {"schema": ref("Outer")}}}}}}})
    # distinct operations under different tags whose derived module names are equal (named / unnamed), next to a multi-tag one
    ok = lambda n: {"200": {"description": "d", "content": {"application/json": {"schema": ref(n)}}}}  # noqa: E731
    D["samenames"] = gen.base_doc(
        {"Daily": obj(d={"type": "integer"}), "Legacy": obj(l={"type": "string"}), "Thing": obj(t={"type": "boolean"})},
        paths={"/reports/daily": {"get": {"tags": ["reports"], "parameters": [{"name": "day", "in": "query", "schema": {"type": "string", "format": "date"}}], "responses": ok("Daily")}},
               "/reports_daily": {"get": {"tags": ["legacy"], "parameters": [{"name": "n", "in": "query", "required": True, "schema": {"type": "integer"}}], "responses": ok("Legacy")}},
               "/items/{id}": {"get": {"operationId": "getItem", "tags": ["items"], "parameters": [{"name": "id", "in": "path", "required": True, "schema": {"type": "integer"}}], "responses": ok("Thing")}},
               "/inline": {"put": {"operationId": "putInline", "tags": ["single", "items2", "third"],
                                   "requestBody": {"required": True, "content": {"application/json": {"schema": obj(note={"type": "string"}, kind={"type": "string", "enum": ["k1", "k2"]})}}},
                                   "responses": {"200": {"description": "d", "content": {"application/json": {"schema": obj(done={"type": "boolean"}, inner=obj(x={"type": "integer"}))}}}}}},
               "/item": {"get": {"operationId": "get_item", "tags": ["single", "items2"], "parameters": [{"name": "id", "in": "query", "required": True, "schema": {"type": "string"}}], "responses": ok("Legacy")},
                         "post": {"operationId": "GetItem", "tags": ["third"], "requestBody": {"required": True, "content": {"application/json": {"schema": ref("Thing")}}}, "responses": ok("Daily")}}})
    # inline enums with identical values, to be merged onto one class by class_overrides; the first use carries a default
    colour = lambda **kw: {"type": "string", "enum": ["red", "green", "blue"], **kw}  # noqa: E731
    D["merge-enums"] = gen.base_doc(
        {"First": obj(colour=colour(default="red"), n={"type": "integer"}), "Second": obj(colour=colour(), s={"type": "string"}),
         "Third": {"type": "object", "required": ["colour"], "properties": {"colour": colour()}}, "Fourth": obj(colour=colour(default="blue"))},
        paths={"/things": {"get": {"operationId": "listThings", "parameters": [{"name": "colour", "in": "query", "schema": colour()},
                                                                              {"name": "shade", "in": "query", "schema": colour(default="green")}],
                                   "responses": ok("Second")}}})
    # string and integer enums (by reference and inline, single values and arrays) at every place an operation can carry them,
    # all REQUIRED so that the behaviour probe sends them: JSON / form / multipart bodies, path / query / header parameters, response
    body_props = {"s": ref("StrE"), "i": ref("IntE"), "ss": {"type": "array", "items": ref("StrE")}, "ii": {"type": "array", "items": ref("IntE")},
                  "inline_s": {"type": "string", "enum": ["p", "q"]}, "inline_i": {"type": "integer", "enum": [10, 20]}}
    eb = {"type": "object", "required": list(body_props), "properties": body_props}
    okb = {"200": {"description": "d", "content": {"application/json": {"schema": ref("EBody")}}}}
    D["enums-everywhere"] = gen.base_doc(
        {"StrE": {"type": "string", "enum": ["a", "b"]}, "IntE": {"type": "integer", "enum": [1, 2]}, "EBody": eb},
        paths={"/json": {"post": {"operationId": "sendJson", "requestBody": {"required": True, "content": {"application/json": {"schema": ref("EBody")}}}, "responses": okb}},
               "/form": {"post": {"operationId": "sendForm", "requestBody": {"required": True, "content": {"application/x-www-form-urlencoded": {"schema": ref("EBody")}}}, "responses": okb}},
               "/multi": {"post": {"operationId": "sendMulti", "requestBody": {"required": True, "content": {"multipart/form-data": {"schema": ref("EBody")}}}, "responses": okb}},
               "/q/{ps}/{pi}": {"get": {"operationId": "sendParams", "parameters": [
                   {"name": "ps", "in": "path", "required": True, "schema": ref("StrE")}, {"name": "pi", "in": "path", "required": True, "schema": ref("IntE")},
                   {"name": "qs", "in": "query", "required": True, "schema": ref("StrE")}, {"name": "qi", "in": "query", "required": True, "schema": ref("IntE")},
                   {"name": "qss", "in": "query", "required": True, "schema": {"type": "array", "items": ref("StrE")}},
                   {"name": "qii", "in": "query", "required": True, "schema": {"type": "array", "items": {"type": "integer", "enum": [10, 20]}}},
                   {"name": "hs", "in": "header", "required": True, "schema": ref("StrE")}, {"name": "hi", "in": "header", "required": True, "schema": ref("IntE")}],
                   "responses": okb}}})
    for name, fn in (("baseline31", "baseline_openapi_3.1.yaml"),):
        p = os.path.join(gen.REPO, "end_to_end_tests", fn)
        try:
            from ruamel.yaml import YAML
            D[name] = json.loads(json.dumps(YAML(typ="safe").load(open(p, encoding="utf-8")), default=str))
        except OSError:
            pass
    return D


_D = {}


def DOCS():
    if not _D:
        _D.update(docs())
    return _D


CONTEXTS = {"none": {}, "literal_enums": {"literal_enums": True}, "docstrings": {"docstrings_on_attributes": True}, "attr-prefix": {"field_prefix": "attr_"},
            "all-tags": {"generate_all_tags": True}, "no-title-prefix": {"use_path_prefixes_for_title_model_names": False}}
OPTIONS = ["project_name_override", "package_name_override", "both_name_overrides", "package_version_override", "class_override_class", "class_override_module",
           "class_override_both", "class_override_enum", "class_override_merge", "field_prefix_attr", "field_prefix_f", "use_path_prefixes_off", "literal_enums", "docstrings_on_attributes", "generate_all_tags",
           "content_type_overrides", "meta_flavours", "file_encoding_utf16", "file_encoding_utf8sig", "post_hooks", "output_path", "names_x_meta_x_location", "custom_templates", "custom_templates_x_file_encoding", "config_file_formats"]


def cases(tier):
    for dname in DOCS():
        for opt in OPTIONS:
            for cname in CONTEXTS:
                if dname == "baseline31" and (cname != "none" or opt in ("custom_templates",)) and tier == "quick":
                    continue
                if (opt == "content_type_overrides") != (dname in ("media", "media-odd")) and (opt == "content_type_overrides" or dname == "media-odd"):
                    continue
                if (opt == "class_override_merge") != (dname == "merge-enums") and (opt == "class_override_merge" or dname == "merge-enums"):
                    continue
                if opt == "config_file_formats" and (dname != "shop" or cname not in ("none", "literal_enums")):
                    continue
                if opt == "class_override_enum" and dname not in ("shop", "builtin-names"):
                    continue
                if opt.startswith("class_override") and dname not in ("shop", "baseline31", "merge-enums", "builtin-names"):
                    continue
                if dname == "builtin-names" and opt not in ("class_override_enum", "literal_enums", "field_prefix_attr", "generate_all_tags", "docstrings_on_attributes"):
                    continue
                if dname == "merge-enums" and opt not in ("class_override_merge", "literal_enums", "generate_all_tags"):
                    continue
                if dname == "enums-everywhere" and opt not in ("literal_enums", "field_prefix_attr", "docstrings_on_attributes", "generate_all_tags", "class_override_enum"):
                    continue
                if opt == "use_path_prefixes_off" and dname not in ("titles", "shop"):
                    continue
                if cname.replace("-", "_") in opt or (cname == "literal_enums" and opt == "literal_enums") or (cname == "docstrings" and opt == "docstrings_on_attributes") \
                        or (cname == "attr-prefix" and opt.startswith("field_prefix")) or (cname == "all-tags" and opt == "generate_all_tags") \
                        or (cname == "no-title-prefix" and opt == "use_path_prefixes_off"):
                    continue
                yield {"labels": [f"doc={dname}", f"option={opt}"] + ([f"context={cname}"] if cname != "none" else []),
                       "payload": {"doc": dname, "option": opt, "context": cname}}


# ------------------------------------------------------------------------------------------------- behaviour

def behaviour(res, rename=None):
    """JSON-able behaviour of a generated package: re-encoded model instances + captured requests of every endpoint."""
    from checks.c04 import reencode
    from checks.c11 import inhabitants
    import httpx
    out = {"models": {}, "endpoints": {}}
    with Sandbox(res.pkg_tree()) as sb:
        try:
            models = sb.mod("models")
        except Exception as exc:  # noqa: BLE001   a package that does not import has no behaviour: report that as its behaviour
            return {"models": f"models package does not import: {type(exc).__name__}: {str(exc)[:120].replace(sb.pkg, 'pkg')}", "endpoints": {}}
        for m in res.models:
            cls = getattr(sb.mod(f"models.{m['module']}"), m["class"], None)
            if cls is None:
                continue
            hints = pyval.hints(cls)
            sig = inspect.signature(cls)
            outs = []
            base = {}
            ok = True
            for n, prm in sig.parameters.items():
                if prm.default is inspect.Parameter.empty:
                    inh = inhabitants(hints.get(n, typing.Any), sb)
                    if not inh:
                        ok = False
                        break
                    base[n] = inh[0]
            if not ok:
                continue
            names = list(sig.parameters)
            for i, n in enumerate(names):
                for v in inhabitants(hints.get(n, typing.Any), sb)[:3]:
                    kw = dict(base)
                    kw[n] = v
                    try:
                        e = cls(**kw).to_dict()
                        e2 = cls.from_dict(copy.deepcopy(e)).to_dict()
                        outs.append([i, json.dumps(reencode(e), sort_keys=True, default=str), e == e2])
                    except Exception as exc:  # noqa: BLE001
                        outs.append([i, "raises", type(exc).__name__])
            out["models"][m["name"]] = outs
        _ = models
        for ep in res.endpoints:
            try:
                mod = wire.endpoint_module(sb, ep)
            except Exception as exc:  # noqa: BLE001
                out["endpoints"][f"{ep['method']} {ep['path']} [{ep['tag']}]"] = f"import: {type(exc).__name__}"
                continue
            fn = mod.sync_detailed
            hints = pyval.hints(fn)
            kw = {}
            ok = True
            for n, prm in inspect.signature(fn).parameters.items():
                if n == "client":
                    continue
                inh = inhabitants(hints.get(n, typing.Any), sb)
                inh = [x for x in inh if not (isinstance(x, type(sb.mod("types").UNSET)))] or inh
                if prm.default is inspect.Parameter.empty and not inh:
                    ok = False
                    break
                if inh:
                    kw[n] = inh[0]
            if not ok:
                continue
            cap = wire.Capture(lambda request: httpx.Response(200, json={}, headers={"content-type": "application/json"}))
            r = wire.call(mod, "sync_detailed", lambda: wire.make_client(sb, cap), cap, kw)
            key = f"{ep['method']} {re.sub(r'{[^}]*}', '{}', ep['path'])} [{ep['tag']}]"
            if r["requests"]:
                s = wire.req_summary(r["requests"][0])
                out["endpoints"][key] = [s, "ok" if r["ok"] else type(r["exc"]).__name__]
            else:
                out["endpoints"][key] = ["no-request", type(r.get("exc")).__name__ if not r["ok"] else "ok"]
    return out


def _strip_docstrings(src):
    t = ast.parse(src)
    for node in ast.walk(t):
        body = getattr(node, "body", None)
        if isinstance(body, list):
            node.body = [st for st in body if not (isinstance(st, ast.Expr) and isinstance(st.value, ast.Constant) and isinstance(st.value.value, str))] or [ast.Pass()]
    return ast.dump(t)


def _diff(a, b, limit=4):
    return sorted(f for f in set(a) | set(b) if a.get(f) != b.get(f))[:limit]


def _gen(doc, ctx, meta="none", **opts):
    o = dict(ctx)
    o.update(opts)
    return gen.generate(copy.deepcopy(doc), meta=meta, **o)


def run_case(p):
    from checks.c01 import role
    doc = DOCS()[p["doc"]]
    ctx = dict(CONTEXTS[p["context"]])
    opt = p["option"]
    key = f"{opt}" + (f"/{p['context']}" if p["context"] != "none" else "")
    viol = []

    def V(oracle, site, detail, k=None):
        viol.append({"oracle": oracle, "site": site, "key": k or key, "detail": f"[{p['doc']}] {detail}"})

    def crashed(*rs):
        for r in rs:
            if r.crash:
                return {"skipped_crash": True, "outcome": f"crash:{r.crash['type']}@{r.crash['where']}", "nontrivial": False}
            if r.tree is None:
                return {"outcome": "rejected", "nontrivial": False}
        return None
    steps = 2
    if opt in ("project_name_override", "package_name_override", "both_name_overrides", "package_version_override"):
        base = _gen(doc, ctx, meta="poetry")
        o = {}
        if opt in ("project_name_override", "both_name_overrides"):
            o["project_name_override"] = "my-special-project"
        if opt in ("package_name_override", "both_name_overrides"):
            o["package_name_override"] = "my_extra_pkg"
        if opt == "package_version_override":
            o["package_version_override"] = "9.8.7"
        new = _gen(doc, ctx, meta="poetry", **o)
        c = crashed(base, new)
        if c:
            return c
        if base.pkg_tree() != new.pkg_tree():
            V("renaming-changes-package", "package", f"package directory contents differ: {_diff(base.pkg_tree(), new.pkg_tree())}")
        want_pkg = o.get("package_name_override") or (o["project_name_override"].replace("-", "_") if "project_name_override" in o else base.pkg_prefix)
        if new.pkg_prefix != want_pkg:
            V("override-not-applied", "package-dir", f"package directory is {new.pkg_prefix!r}, expected {want_pkg!r}")
        # metadata files: equal after undoing the renaming
        subs = [(new.pkg_prefix, base.pkg_prefix)]
        if "project_name_override" in o:
            subs.append(("my-special-project", _project_name(base)))
        if opt == "package_version_override":
            subs.append(("9.8.7", doc["info"]["version"]))
        for f in ("pyproject.toml", "README.md", ".gitignore"):
            a, b = base.tree.get(f), new.tree.get(f)
            if a is None or b is None:
                V("metadata-missing", f, "metadata file missing")
                continue
            t = b.decode()
            for x, y in subs:
                t = t.replace(x, y)
            if t != a.decode():
                V("renaming-changes-metadata", f, "metadata differs beyond the overridden names: " + _first_line_diff(a.decode(), t))
        if opt == "package_version_override" and 'version = "9.8.7"' not in new.tree["pyproject.toml"].decode():
            V("override-not-applied", "pyproject.toml", "version override missing from pyproject.toml")
        if opt == "project_name_override":
            # the package name derived from an overridden project name: the dashes become underscores, nothing else changes
            for pn, want in (("Acme-SDK2-Client", "Acme_SDK2_Client"), ("my.dotted-Name", "my.dotted_Name"), ("already_snake", "already_snake")):
                r_ = _gen(doc, ctx, meta="poetry", project_name_override=pn)
                steps += 1
                if r_.crash or r_.tree is None:
                    continue
                if r_.pkg_prefix != want:
                    V("override-not-applied", "package-dir", f"project_name_override={pn!r}: package directory is {r_.pkg_prefix!r}, documented {want!r}", k=key + "/derived-package-name")
                elif r_.pkg_tree() != base.pkg_tree():
                    V("renaming-changes-package", "package", f"project_name_override={pn!r}: package contents differ", k=key + "/derived-package-name")
    elif opt == "class_override_merge":
        base = _gen(doc, ctx)
        c = crashed(base)
        if c:
            return c
        # the documented way to merge duplicate enums: map every inline enum class onto one class / module name
        enums = [e["class"] for e in base.enums]
        ov = {n: {"class_name": "Colour", "module_name": "colour"} for n in enums}
        new = _gen(doc, ctx, class_overrides=ov)
        c = crashed(new)
        if c:
            return c
        if len(enums) < 5:
            V("merge-setup", "models", f"expected >= 5 inline enum classes to merge, the generator claims {enums}")
        bb, nb = behaviour(base), behaviour(new)
        steps += 2
        if bb != nb:
            V("renaming-changes-behaviour", "behaviour", "behaviour differs after merging identical enums onto one class: " + _beh_diff(bb, nb))
        if new.diags != base.diags and [d.short() for d in new.diags] != [d.short() for d in base.diags]:
            V("override-diagnostics", "diagnostics", f"{[d.short()[:120] for d in new.diags][:2]}")
        left = [e["class"] for e in new.enums if e["class"] != "Colour"]
        if left or not new.enums:
            V("override-not-applied", "models", f"enum classes after the merge: {[e['class'] for e in new.enums]}")
    elif opt == "class_override_enum":
        # rename an enumeration: a class name and a module name that is NOT derived from it
        target = "Status" if p["doc"] == "shop" else "Format"
        ov = {target: {"class_name": "AccountState", "module_name": "account_states"}}
        base = _gen(doc, ctx)
        new = _gen(doc, ctx, class_overrides=ov)
        c = crashed(base, new)
        if c:
            return c
        try:
            bb, nb = behaviour(base), behaviour(new)
        except Exception as exc:  # noqa: BLE001
            V("renaming-breaks-package", "package", f"behaviour could not be observed: {type(exc).__name__}: {exc}")
            bb = nb = None
        steps += 2
        if bb != nb:
            V("renaming-changes-behaviour", "behaviour", "behaviour differs: " + _beh_diff(bb, nb))
        claim = next((e for e in new.enums if e["name"].endswith("/" + target)), None)
        if claim is None or claim["class"] != "AccountState" or claim["module"] != "account_states":
            V("override-not-applied", "models", f"enum override gave {claim}")
    elif opt.startswith("class_override"):
        target = "Order" if p["doc"] == "shop" else "AModel"
        ov = {}
        if opt in ("class_override_class", "class_override_both"):
            ov["class_name"] = "ShortName"
        if opt in ("class_override_module", "class_override_both"):
            ov["module_name"] = "short_mod"
        base = _gen(doc, ctx)
        new = _gen(doc, ctx, class_overrides={target: ov})
        c = crashed(base, new)
        if c:
            return c
        bb, nb = behaviour(base), behaviour(new)
        steps += 2
        if bb != nb:
            V("renaming-changes-behaviour", "behaviour", "behaviour differs: " + _beh_diff(bb, nb))
        old_mod = next(m["module"] for m in base.models if m["name"].endswith("/" + target))
        new_claim = next(m for m in new.models if m["name"].endswith("/" + target))
        if new_claim["class"] != ov.get("class_name", target) or ("module_name" in ov and new_claim["module"] != "short_mod"):
            V("override-not-applied", "models", f"class override {ov} gave {new_claim}")
        # undo the renaming textually and compare line multisets
        old_cls = target
        def undo(text):
            t = text
            if "class_name" in ov:
                t = re.sub(r"\bShortName\b", old_cls, t)
                t = re.sub(r"\bshort_name\b", old_mod, t) if "module_name" not in ov else t
            if "module_name" in ov:
                t = re.sub(r"\bshort_mod\b", old_mod, t)
            return t
        nt = {}
        for f, b in new.tree.items():
            nt[undo(f)] = sorted(undo(b.decode()).splitlines())
        bt = {f: sorted(b.decode().splitlines()) for f, b in base.tree.items()}
        if nt != bt:
            d = sorted(f for f in set(nt) | set(bt) if nt.get(f) != bt.get(f))
            # names derived from the class (inline children such as OrderMeta) are renamed along: tolerated only if behaviour is equal
            if not all(("models/" in f or "api/" in f) for f in d) or bb != nb:
                V("renaming-changes-tree", "tree", f"after undoing the rename these files differ: {d[:4]}")
    elif opt in ("field_prefix_attr", "field_prefix_f", "use_path_prefixes_off", "literal_enums"):
        o = {"field_prefix_attr": {"field_prefix": "attr_"}, "field_prefix_f": {"field_prefix": "f"}, "use_path_prefixes_off": {"use_path_prefixes_for_title_model_names": False},
             "literal_enums": {"literal_enums": True}}[opt]
        base = _gen(doc, ctx)
        new = _gen(doc, ctx, **o)
        c = crashed(base, new)
        if c:
            return c
        if [d.short() for d in base.diags] != [d.short() for d in new.diags] and opt != "use_path_prefixes_off":
            V("option-changes-diagnostics", "diagnostics", f"{[d.short()[:80] for d in base.diags][:2]} vs {[d.short()[:80] for d in new.diags][:2]}")
        elif not (base.diags or new.diags) or opt != "use_path_prefixes_off":
            bb, nb = behaviour(base), behaviour(new)
            steps += 2
            if bb != nb:
                V("option-changes-behaviour", "behaviour", "behaviour differs: " + _beh_diff(bb, nb))
        if opt.startswith("field_prefix"):
            pre = o["field_prefix"]
            txt = b"\n".join(new.tree.values()).decode()
            if re.search(r"\bfield_(1st|2nd|9lives|\d)", txt) and pre != "field_":
                V("override-not-applied", "tree", f"identifier with the default prefix field_ survives under field_prefix={pre!r}")
    elif opt == "docstrings_on_attributes":
        base = _gen(doc, ctx)
        new = _gen(doc, ctx, docstrings_on_attributes=True)
        c = crashed(base, new)
        if c:
            return c
        if set(base.tree) != set(new.tree):
            V("option-changes-files", "tree", f"file sets differ: {sorted(set(base.tree) ^ set(new.tree))[:4]}")
        for f in sorted(set(base.tree) & set(new.tree)):
            if f.endswith(".py"):
                try:
                    if _strip_docstrings(base.tree[f].decode()) != _strip_docstrings(new.tree[f].decode()):
                        V("option-changes-code", role(f), f"{f}: code differs beyond docstrings")
                except SyntaxError:
                    V("option-breaks-syntax", role(f), f"{f} does not parse")
        changed = [f for f in base.tree if base.tree[f] != new.tree.get(f)]
        if any(not f.startswith("models/") and f != "client.py" for f in changed):      # client.py's own attribute docstrings move as well
            V("option-changes-code", "tree", f"files outside models/ and client.py changed: {[f for f in changed if not f.startswith('models/')][:4]}")
    elif opt == "generate_all_tags":
        base = _gen(doc, ctx)
        new = _gen(doc, ctx, generate_all_tags=True)
        c = crashed(base, new)
        if c:
            return c
        bt, nt = base.tree, new.tree
        for f, b in bt.items():
            if nt.get(f) != b and not (f.startswith("api/") and f.endswith("__init__.py")):
                V("all-tags-changes-first", role(f), f"{f} changes when generate_all_tags is on")
        # every tag of every operation holds an identical module
        tagged = {}
        for path, item in doc["paths"].items():
            for m, op in item.items():
                if isinstance(op, dict) and "responses" in op:
                    tagged[(m, path)] = op.get("tags") or ["default"]
        for ep in new.endpoints:
            pass
        by_op = {}
        for ep in new.endpoints:
            by_op.setdefault((ep["method"], ep["path"], ep["name"]), []).append(ep)
        for (m, _pth, name), eps in by_op.items():
            files = {f"api/{e['tag']}/{e['module']}.py" for e in eps}
            contents = {nt.get(f) for f in files}
            if len(contents) != 1 or None in contents:
                V("all-tags-modules-differ", "api/<tag>/<endpoint>.py", f"operation {name}: modules under its tags differ or are missing: {sorted(files)}")
        generated_ops = {(e["method"], e["path"]) for e in base.endpoints}
        tagged = {k: v for k, v in tagged.items() if any(k[0] == m and _same_path(k[1], pth) for m, pth in generated_ops)}
        n_expected = sum(len(set(_tagid(t) for t in tags)) for tags in tagged.values())
        n_got = len([f for f in nt if f.startswith("api/") and f.count("/") == 2 and not f.endswith("__init__.py")])
        if n_got != n_expected:
            V("all-tags-count", "api", f"{n_got} endpoint modules for {n_expected} (operation, tag) pairs")
        n_base = len([f for f in bt if f.startswith("api/") and f.count("/") == 2 and not f.endswith("__init__.py")])
        if n_base != len(tagged):
            V("first-tag-only", "api", f"{n_base} endpoint modules with the option off for {len(tagged)} operations")
    elif opt == "content_type_overrides":
        ov = {"application/zip": "application/octet-stream", "text/json": "application/json", "application/x-log": "text/plain", "application/x-thing": "application/json",
              "application/x-formy": "application/x-www-form-urlencoded", "multipart/mixed": "multipart/form-data"}
        if p["doc"] == "media-odd":
            ov = {"application/vnd.acme.report; version=2": "application/json", "Application/X-UPPER": "application/json", "openapi/python/client": "application/json"}
        new = _gen(doc, ctx, content_type_overrides=ov)
        twin_doc = json.loads(json.dumps(doc))
        for path, item in twin_doc["paths"].items():
            for m, op in item.items():
                rb = op.get("requestBody", {}).get("content")
                if rb:
                    op["requestBody"]["content"] = {ov.get(k, k): v for k, v in rb.items()}
                for code, resp in op.get("responses", {}).items():
                    if "content" in resp:
                        resp["content"] = {ov.get(k, k): v for k, v in resp["content"].items()}
        twin = _gen(twin_doc, ctx)
        c = crashed(new, twin)
        if c:
            return c
        if [d.short() for d in new.diags] != [d.short() for d in twin.diags]:
            V("override-diagnostics", "diagnostics", f"with overrides: {[d.short()[:90] for d in new.diags][:2]}; document written with the target types: {[d.short()[:90] for d in twin.diags][:2]}")
        # modules equal except for the literal Content-Type that is sent
        for f in sorted(set(new.tree) | set(twin.tree)):
            a, b = new.tree.get(f), twin.tree.get(f)
            if a == b:
                continue
            if a is None or b is None:
                V("override-changes-files", role(f), f"{f} exists in only one of the trees")
                continue
            ta = a.decode()
            for k, v in ov.items():
                ta = ta.replace(f'"{k}"', f'"{v}"')
            # a body declared as multipart/form-data itself lets httpx write the header (it carries the
            # boundary); an override that only maps onto it has to state the declared type, one more line
            tb = b.decode()
            if ta != tb:
                ta = "\n".join(x for x in ta.split("\n") if x.strip() != 'headers["Content-Type"] = "multipart/form-data"')
                tb = "\n".join(x for x in tb.split("\n") if x.strip() != 'headers["Content-Type"] = "multipart/form-data"')
            if ta != tb:
                V("override-changes-code", role(f), f"{f}: differs from the target-type twin beyond the Content-Type literal: " + _first_line_diff(b.decode(), ta))
        # sent as itself
        nb = behaviour(new)
        steps += 1
        for k, v in nb["endpoints"].items():
            if isinstance(v, list) and isinstance(v[0], dict):
                cts = [h[1] for h in v[0]["headers"] if h[0] == "content-type"]
                for path, item in doc["paths"].items():
                    for m, op in item.items():
                        if k.startswith(f"{m} {path} ") and isinstance(op, dict) and op.get("requestBody"):
                            declared = list(op["requestBody"]["content"])[0]
                            if cts != [declared]:
                                V("override-sent-type", "wire", f"{k}: Content-Type {cts} (declared {declared})")
        n_ops = sum(1 for item in doc["paths"].values() for m in item if m in ("get", "put", "post", "delete", "patch"))
        if len(new.endpoints) != n_ops:
            V("override-not-applied", "api", f"{len(new.endpoints)} operations generated for {n_ops} declared: {[d.short()[:100] for d in new.diags][:3]}")
        # decoding behaves like the target type
        tb = behaviour(twin)
        for k in nb["endpoints"]:
            a, b = nb["endpoints"].get(k), tb["endpoints"].get(k)
            if isinstance(a, list) and isinstance(b, list) and a[1] != b[1]:
                V("override-decoding", "behaviour", f"{k}: outcome {a[1]} with overrides, {b[1]} for the target-type twin")
    elif opt == "meta_flavours":
        rs = {m: _gen(doc, ctx, meta=m) for m in ("none", "poetry", "pdm", "setup")}
        c = crashed(*rs.values())
        if c:
            return c
        steps = 4
        base = rs["none"].pkg_tree()
        for m in ("poetry", "pdm", "setup"):
            t = {k: v for k, v in rs[m].pkg_tree().items() if k != "py.typed"}
            if t != base:
                V("meta-changes-package", "package", f"--meta {m}: package files differ from --meta none: {_diff(t, base)}", k=f"{key}/{m}")
            outside = sorted(k for k in rs[m].tree if not k.startswith(rs[m].pkg_prefix + "/"))
            expect = sorted([".gitignore", "README.md", "pyproject.toml"] + (["setup.py"] if m == "setup" else []))
            if outside != expect:
                V("meta-files", "metadata", f"--meta {m}: metadata files {outside}, expected {expect}", k=f"{key}/{m}")
    elif opt.startswith("file_encoding"):
        enc = {"file_encoding_utf16": "utf-16", "file_encoding_utf8sig": "utf-8-sig"}[opt]
        base = _gen(doc, ctx, meta="poetry")
        new = gen.generate(copy.deepcopy(doc), meta="poetry", encoding=enc, **ctx)
        c = crashed(base, new)
        if c:
            return c
        if set(base.tree) != set(new.tree):
            V("encoding-changes-files", "tree", f"{sorted(set(base.tree) ^ set(new.tree))[:4]}")
        for f in sorted(set(base.tree) & set(new.tree)):
            try:
                if new.tree[f].decode(enc) != base.tree[f].decode("utf-8"):
                    V("encoding-changes-text", role(f), f"{f}: decoded text differs under {enc}")
            except UnicodeDecodeError:
                V("encoding-not-applied", role(f), f"{f} is not valid {enc}")
    elif opt == "config_file_formats":
        # every option given through a config FILE (yaml / json / extension-less yaml) via the real command line has the effect it has in process
        from typer.testing import CliRunner
        from openapi_python_client.cli import app
        from ruamel.yaml import YAML
        import io
        settings = {"class_overrides": {"Order": {"class_name": "ShortName", "module_name": "short_mod"}}, "project_name_override": "my-special-project",
                    "package_name_override": "my_extra_pkg", "package_version_override": "9.8.7", "use_path_prefixes_for_title_model_names": False,
                    "post_hooks": ["echo hooked > hooks.log"], "docstrings_on_attributes": True, "field_prefix": "attr_", "generate_all_tags": True,
                    "literal_enums": True, "content_type_overrides": {"application/zip": "application/octet-stream"}, "http_timeout": 9}
        work = gen.fresh_dir("cfgfmt")
        os.makedirs(work)
        try:
            docp = os.path.join(work, "doc.json")
            with open(docp, "w") as f:
                json.dump(doc, f)
            for oname, oval in settings.items():
                expect = gen.generate(copy.deepcopy(doc), meta="poetry", **{**ctx, oname: oval})
                if expect.crash or expect.tree is None:
                    continue
                cfgd = {**ctx, oname: oval}
                cfgd.setdefault("post_hooks", [])
                buf = io.StringIO()
                YAML().dump(cfgd, buf)
                for fmt, fname, text in (("yml", "c.yml", buf.getvalue()), ("yaml", "c.yaml", buf.getvalue()), ("json", "c.json", json.dumps(cfgd)), ("noext", "config", buf.getvalue())):
                    cp = os.path.join(work, fname)
                    with open(cp, "w") as f:
                        f.write(text)
                    outp = os.path.join(work, "out")
                    shutil.rmtree(outp, ignore_errors=True)
                    r_ = CliRunner().invoke(app, ["generate", "--path", docp, "--config", cp, "--meta", "poetry", "--output-path", outp])
                    steps += 1
                    got = gen.read_tree(outp) if os.path.isdir(outp) else None
                    if r_.exception is not None and not isinstance(r_.exception, SystemExit):
                        V("config-file-crash", "cli", f"{oname} via {fmt}: {type(r_.exception).__name__}: {r_.exception}", k=f"{key}/{oname}")
                    elif got != expect.tree:
                        V("config-file-differs", "cli", f"option {oname} given through a {fmt} config file: " + (_diff(expect.tree, got) if got is not None else f"nothing generated: {(r_.output or '')[-200:]!r}"), k=f"{key}/{oname}")
        finally:
            shutil.rmtree(work, ignore_errors=True)
    elif opt == "custom_templates_x_file_encoding":
        # --file-encoding is the encoding of what is WRITTEN; custom templates are read as the UTF-8 files they are
        marker = "# C16-MARKER caf\u00e9 m\u00e9thodes \u00f1 \u00fc \u2014 fin\n"
        tdir = os.path.join(gen.REPO, "openapi_python_client", "templates")
        for t in ("api_init.py.jinja", "model.py.jinja", "README.md.jinja", "types.py.jinja"):
            custom = gen.fresh_dir("tmpl")
            os.makedirs(custom, exist_ok=True)
            with open(os.path.join(custom, t), "w", encoding="utf-8") as f:
                f.write(open(os.path.join(tdir, t), encoding="utf-8").read() + "\n" + marker)
            try:
                ref_ = gen.generate(copy.deepcopy(doc), meta="poetry", custom_template_path=custom, **dict(ctx))
                for enc in ("cp1252", "utf-16", "utf-8-sig", "mac_roman"):
                    new = gen.generate(copy.deepcopy(doc), meta="poetry", custom_template_path=custom, encoding=enc, **dict(ctx))
                    steps += 1
                    if ref_.crash or new.crash or ref_.tree is None or new.tree is None:
                        V("encoding-breaks-generation", t, f"{enc}: {new.crash or ref_.crash or 'rejected'}", k=f"{key}/{enc}")
                        continue
                    for f_ in sorted(set(ref_.tree) | set(new.tree)):
                        a_, b_ = ref_.tree.get(f_), new.tree.get(f_)
                        try:
                            if a_ is None or b_ is None or b_.decode(enc) != a_.decode("utf-8"):
                                V("encoding-changes-text", role(f_), f"custom {t}, --file-encoding {enc}: decoded text of {f_} differs from the UTF-8 generation", k=f"{key}/{enc}")
                        except UnicodeDecodeError:
                            V("encoding-not-applied", role(f_), f"{f_} is not valid {enc}", k=f"{key}/{enc}")
            finally:
                shutil.rmtree(custom, ignore_errors=True)
    elif opt == "post_hooks":
        base = _gen(doc, ctx)
        hooks = ["echo first >> hooks.log", "echo second >> hooks.log", "cp hooks.log copy.log"]
        new = _gen(doc, ctx, post_hooks=hooks)
        failing = _gen(doc, ctx, post_hooks=["echo before >> hooks.log", "false", "echo after >> hooks.log"])
        c = crashed(base, new, failing)
        if c:
            return c
        extra = {k: v for k, v in new.tree.items() if k not in base.tree}
        if {k: v for k, v in new.tree.items() if k in base.tree} != base.tree:
            V("hooks-change-tree", "tree", f"generated files differ when marker hooks run: {_diff(base.tree, new.tree)}")
        if extra != {"hooks.log": b"first\nsecond\n", "copy.log": b"first\nsecond\n"}:
            V("hooks-order", "hooks", f"hook effects {extra}")
        if not any(d.level == "ERROR" for d in failing.diags):
            V("failing-hook-silent", "hooks", "a failing hook produced no error-level diagnostic")
        if failing.tree.get("hooks.log") != b"before\nafter\n":
            V("hooks-order", "hooks", f"with a failing hook in the middle: {failing.tree.get('hooks.log')!r}", k=key + "/failing")
        # a hook whose executable is not installed is skipped with a warning; the other hooks of the list still run, in order
        for name_, hooks_, want_ in (("missing-first", ["c16-no-such-tool --x", "echo a >> hooks.log", "echo b >> hooks.log"], b"a\nb\n"),
                                     ("missing-middle", ["echo a >> hooks.log", "c16-no-such-tool", "echo b >> hooks.log"], b"a\nb\n"),
                                     ("two-missing-first", ["c16-no-such-tool", "c16-neither-this", "echo b >> hooks.log"], b"b\n"),
                                     ("missing-last", ["echo a >> hooks.log", "c16-no-such-tool"], b"a\n")):
            r_ = _gen(doc, ctx, post_hooks=hooks_)
            steps += 1
            if r_.crash or r_.tree is None:
                V("hooks-missing-tool", "hooks", f"{name_}: {r_.crash or 'rejected'}", k=key + "/" + name_)
            elif r_.tree.get("hooks.log") != want_:
                V("hooks-missing-tool", "hooks", f"{name_}: hooks {hooks_} left hooks.log = {r_.tree.get('hooks.log')!r}, expected {want_!r}", k=key + "/" + name_)
            elif {k_: v_ for k_, v_ in r_.tree.items() if k_ in base.tree} != base.tree:
                V("hooks-change-tree", "tree", f"{name_}: generated files differ", k=key + "/" + name_)
    elif opt == "output_path":
        base = _gen(doc, ctx, meta="poetry")
        d = gen.fresh_dir("cwd")
        os.makedirs(d)
        cwd = os.getcwd()
        try:
            os.chdir(d)
            from checks.c09 import _gen_default_dir
            new = _gen_default_dir_opts(copy.deepcopy(doc), ctx)
        finally:
            os.chdir(cwd)
            shutil.rmtree(d, ignore_errors=True)
        c = crashed(base, new)
        if c:
            return c
        if base.tree != new.tree:
            V("output-path-changes-tree", "tree", f"tree at --output-path differs from the default location: {_diff(base.tree, new.tree)}")
    elif opt == "names_x_meta_x_location":
        # where the package ends up: {no override, project, package, both} x every metadata flavour x {default location in the
        # working directory, --output-path}.  README: the project directory is <project name> (default <title>-client), the package
        # <package name> (default: the project name with underscores) inside it; with --meta none the generated directory IS the
        # package (named after the package at the default location); an explicit output path replaces the project directory.
        base = _gen(doc, ctx, meta="none")
        c = crashed(base)
        if c:
            return c
        default_project = None
        for names in ({}, {"project_name_override": "my-special-project"}, {"package_name_override": "my_extra_pkg"},
                      {"project_name_override": "my-special-project", "package_name_override": "my_extra_pkg"}):
            for meta in ("none", "poetry", "pdm", "setup"):
                for loc in ("default", "outpath"):
                    d = gen.fresh_dir("cwd")
                    os.makedirs(d)
                    cwd = os.getcwd()
                    res = None
                    try:
                        os.chdir(d)
                        import contextlib
                        import io
                        cfg = gen.mkconfig(os.path.join(str(d), "chosen-out") if loc == "outpath" else None, meta, **dict(ctx, **names))
                        with contextlib.redirect_stdout(io.StringIO()):
                            data = gen.GeneratorData.from_dict(copy.deepcopy(doc), config=cfg)
                            proj = gen.Project(openapi=data, config=cfg)
                            proj.build()
                        top = sorted(os.listdir(d))
                        tree = gen.read_tree(d)
                    except Exception as exc:  # noqa: BLE001
                        res = gen.crash_info(exc)
                    finally:
                        os.chdir(cwd)
                        shutil.rmtree(d, ignore_errors=True)
                    steps += 1
                    if res is not None:
                        return {"skipped_crash": True, "outcome": f"crash:{res['type']}@{res['where']}", "nontrivial": False}
                    if default_project is None:
                        default_project = top[0] if len(top) == 1 else "?"           # {} / none / default: <title>_client
                    want_project = names.get("project_name_override") or default_project.replace("_", "-")
                    want_package = names.get("package_name_override") or want_project.replace("-", "_")
                    if loc == "outpath":
                        want_top, want_pkgdir = "chosen-out", ("chosen-out" if meta == "none" else f"chosen-out/{want_package}")
                    elif meta == "none":
                        want_top = want_pkgdir = want_package
                    else:
                        want_top, want_pkgdir = want_project, f"{want_project}/{want_package}"
                    k_ = f"{key}/{'+'.join(sorted(x.split('_')[0] for x in names)) or 'no-override'}/{meta}/{loc}"
                    if top != [want_top]:
                        V("override-not-applied", "project-dir", f"{names} --meta {meta} at the {loc} location: the working directory holds {top}, expected [{want_top!r}]", k=k_)
                        continue
                    pk = {f[len(want_pkgdir) + 1:]: b for f, b in tree.items() if f.startswith(want_pkgdir + "/")}
                    if "client.py" not in pk or "__init__.py" not in pk:
                        V("override-not-applied", "package-dir", f"{names} --meta {meta} at the {loc} location: no package at {want_pkgdir!r}: {sorted(tree)[:6]}", k=k_)
                    elif {f: b for f, b in pk.items() if f in base.pkg_tree()} != base.pkg_tree():
                        V("renaming-changes-package", "package", f"{names} --meta {meta} at the {loc} location: package contents differ from the plain generation", k=k_)
    elif opt == "custom_templates":
        base = _gen(doc, ctx, meta="setup")
        c = crashed(base)
        if c:
            return c
        tdir = os.path.join(gen.REPO, "openapi_python_client", "templates")
        templates = []
        for r_, _d, files in os.walk(tdir):
            for fn in files:
                if fn.endswith(".jinja"):
                    templates.append(os.path.relpath(os.path.join(r_, fn), tdir))
        for t in sorted(templates):
            src = open(os.path.join(tdir, t), encoding="utf-8").read()
            marker = "# C16-MARKER\n"
            if t.endswith((".md.jinja", ".toml.jinja", ".gitignore.jinja")):
                marker = "# C16-MARKER\n"
            custom = gen.fresh_dir("tmpl")
            os.makedirs(os.path.join(custom, os.path.dirname(t)), exist_ok=True)
            is_macro_only = t.startswith("property_templates/") or t in ("helpers.jinja", "endpoint_macros.py.jinja")
            with open(os.path.join(custom, t), "w", encoding="utf-8") as f:
                f.write(src + ("" if is_macro_only else "\n" + marker))
                if is_macro_only:
                    f.write("\n{# C16 marker comment #}\n")
            try:
                o = dict(ctx)
                new = gen.generate(copy.deepcopy(doc), meta="setup", custom_template_path=custom, **o)
            finally:
                shutil.rmtree(custom, ignore_errors=True)
            steps += 1
            if new.crash or new.tree is None:
                V("custom-template-breaks", t, f"overriding {t} by itself: {new.crash or 'rejected'}", k=f"{key}/{t}")
                continue
            changed = sorted(f for f in set(base.tree) | set(new.tree) if base.tree.get(f) != new.tree.get(f))
            if is_macro_only:
                if changed:
                    V("custom-template-leaks", t, f"overriding macro template {t} with an identical copy changed {changed[:4]}", k=f"{key}/{t}")
                continue
            for f in changed:
                a, b = base.tree.get(f, b"").decode(), new.tree.get(f, b"").decode()
                if b.replace("\n" + marker, "").rstrip("\n") != a.rstrip("\n") and b.replace(marker, "").rstrip("\n") != a.rstrip("\n"):
                    V("custom-template-leaks", t, f"overriding {t}: {f} differs by more than the marker", k=f"{key}/{t}")
            always = {"client.py.jinja", "errors.py.jinja", "types.py.jinja", "package_init.py.jinja", "api_init.py.jinja", "models_init.py.jinja", "pyproject.toml.jinja",
                      "setup.py.jinja", "README.md.jinja", ".gitignore.jinja"} | ({"model.py.jinja"} if base.models else set()) | (
                          {"endpoint_module.py.jinja", "endpoint_init.py.jinja"} if base.endpoints else set())
            if not changed and t not in always:
                continue            # this document does not use the template
            if not changed:
                V("custom-template-ignored", t, f"overriding {t} with a marker changed no file", k=f"{key}/{t}")
            else:
                want = _TEMPLATE_TARGETS.get(t)
                if want and not all(re.search(want, f) for f in changed):
                    V("custom-template-leaks", t, f"overriding {t} changed files it does not render: {[f for f in changed if not re.search(want, f)][:4]}", k=f"{key}/{t}")
    seen, uniq = set(), []
    for v in viol:
        k = (v["oracle"], v["site"], v["key"])
        if k not in seen:
            seen.add(k)
            uniq.append(v)
    return {"violations": uniq, "outcome": "ok" if not uniq else "viol:" + ",".join(sorted({v['oracle'] for v in uniq})), "nontrivial": True, "steps": steps}


_TEMPLATE_TARGETS = {"model.py.jinja": r"/models/(?!__init__)", "models_init.py.jinja": r"/models/__init__\.py$", "endpoint_module.py.jinja": r"/api/[^/]+/(?!__init__)",
                     "endpoint_init.py.jinja": r"/api/[^/]+/__init__\.py$", "api_init.py.jinja": r"/api/__init__\.py$", "client.py.jinja": r"/client\.py$", "errors.py.jinja": r"/errors\.py$",
                     "types.py.jinja": r"/types\.py$", "package_init.py.jinja": r"^[^/]+/__init__\.py$", "pyproject.toml.jinja": r"^pyproject\.toml$", "setup.py.jinja": r"^setup\.py$",
                     "README.md.jinja": r"^README\.md$", ".gitignore.jinja": r"^\.gitignore$", "str_enum.py.jinja": r"/models/", "int_enum.py.jinja": r"/models/", "literal_enum.py.jinja": r"/models/"}


def _same_path(a, b):
    return re.sub(r"{[^}]*}", "{}", a) == re.sub(r"{[^}]*}", "{}", b)


def _tagid(t):
    from openapi_python_client import utils
    return str(utils.PythonIdentifier(value=t, prefix="tag"))


def _project_name(res):
    m = re.search(r'^name = "([^"]+)"', res.tree["pyproject.toml"].decode(), re.M)
    return m.group(1) if m else "?"


def _first_line_diff(a, b):
    for i, (x, y) in enumerate(zip(a.splitlines(), b.splitlines())):
        if x != y:
            return f"line {i + 1}: {x!r} != {y!r}"
    return f"{len(a.splitlines())} vs {len(b.splitlines())} lines"


def _beh_diff(a, b):
    if a is None or b is None:
        return "behaviour not observable"
    for sec in ("models", "endpoints"):
        if isinstance(a[sec], str) or isinstance(b[sec], str):
            if a[sec] != b[sec]:
                return f"{sec}: {str(a[sec])[:300]} != {str(b[sec])[:300]}"
            continue
        for k in sorted(set(a[sec]) | set(b[sec])):
            if a[sec].get(k) != b[sec].get(k):
                return f"{sec} {k}: {json.dumps(a[sec].get(k), default=str)[:300]} != {json.dumps(b[sec].get(k), default=str)[:300]}"
    return "?"


def _gen_default_dir_opts(doc, ctx):
    """Generate into the default location (derived from the title, in cwd) with the context options."""
    import contextlib
    import io
    res = gen.GenResult()
    try:
        cfg = gen.mkconfig(None, "poetry", **ctx)
        with contextlib.redirect_stdout(io.StringIO()):
            data = gen.GeneratorData.from_dict(doc, config=cfg)
            gen._record_claims(res, data, cfg)
            proj = gen.Project(openapi=data, config=cfg)
            errs = proj.build()
        res.diags = [gen.Diag(e) for e in errs]
        res.tree = gen.read_tree(proj.project_dir)
        res.pkg_prefix = os.path.relpath(proj.package_dir, proj.project_dir)
    except Exception as exc:  # noqa: BLE001
        res.crash = gen.crash_info(exc)
    return res
