"""C14 — enumerations and constants admit exactly the declared values (DESIGN §C14)."""
from __future__ import annotations

import enum
import itertools
import json
import typing

from specmc import gen, pyval
from specmc.sandbox import Sandbox

ID = "C14"
LEVEL = "model_checking"
RULE = ("all ordered lists of <=2 (thorough: <=3) distinct strings over a 17-string alphabet and of integers over {-2,-1,0,1,2,10}, x null "
        "member x default (none / first / non-member) x inline vs referenced x Enum classes vs literal_enums; consts over 10 values x "
        "required x typed/untyped; a const as a member of a oneOf/anyOf with each of 8 partner kinds, both orders; inputs: every listed value, null, and a probe set of values not listed (case variants, trimmed, "
        "suffixed, other type); non-trivial = the holder model was generated and every listed value exercised; value lists that repeat a value; one inline enum schema object reached by three operations (path-item parameter, reusable parameter / response / request body), with and without null: every user behaves like the first; enums / consts used by an operation: as JSON response and (string enums / consts) as text/plain and text/html response (alone / next to 204, empty 404, default) and as query / header parameter, both enum styles, inline and by reference: every listed value is accepted / transmitted as written, unlisted replies are refused")
FLOOR = 0.4
ASSUMPTIONS = ["the pinned uncaught ValueError('Duplicate key ...') counts as 'reported' for C14 (it is C06's business as a crash)"]

STRS = ["a", "A", "b", "a b", "a-b", "a.b", "a_b", "1a", "1", "", " a", "é", "+a", "a!",
        "value_1", "Value_0",        # values that spell the positional member names given to values that cannot start an identifier
        'a"b']                       # a double quote: escaped once, inside one literal (other hostile characters are C05's)
INTS = [-2, -1, 0, 1, 2, 10]
COLLIDERS = ["m", "M", "a b", "a-b", "a_b", "+a", "a!", "value_2", "2nd"]
SPECIAL_VALUES = ["\U0001f44d", "x\U0001d400y", "\U00020000", "a\u0301", "\u202eabc", "tab\there", "new\nline", "back\\slash", 'quo"te', "apo'strophe", "\x7f",
                  "null", "None", "True", "false", " ", "\u00df", "\u0130", "\u01c5", "\ufeffbom", "a\u00a0b", "%s", "{0}", "$x", "\u2028sep"]
CONSTS = ["k", "", "a b", 0, 3, -1, 1.5, 0.0, True, False]


def vclass(v):
    if isinstance(v, bool):
        return "bool"
    if isinstance(v, int):
        return "int-neg" if v < 0 else ("int-zero" if v == 0 else "int")
    if isinstance(v, float):
        return "float"
    if v == "":
        return "empty"
    if v[0].isdigit():
        return "digit-lead"
    if v[0] == " ":
        return "space-lead"
    if not v[0].isalpha():
        return "symbol-lead"
    if not v.isascii():
        return "non-ascii"
    if not v.isalnum():
        return "punct"
    return "plain"


def _doc(values, null, default, ref, typ):
    sch = {"type": typ, "enum": list(values) + ([None] if null else [])}
    if null:
        sch.pop("type")           # untyped enum-with-null form (the typed+null form is a C17 finding)
    if default != "none":
        sch["default"] = default
    comps = {}
    if ref:
        comps["E"] = sch
        p = {"$ref": "#/components/schemas/E"}
    else:
        p = sch
    comps["M"] = {"type": "object", "properties": {"p": p, "other": {"type": "integer"}}}
    return gen.base_doc(comps)


def probes(values, typ):
    out = []
    if typ == "string":
        for v in values:
            out += [v.upper(), v.lower(), v.strip(), v + "x", " " + v, v.replace(" ", "_"), v.replace("-", "_"), v.replace(".", "_")]
        out += ["zzz", "", 0, 1, True, ["a"], {"a": 1}]
    else:
        for v in values:
            out += [v + 1, v - 1, -v, str(v), float(v) + 0.5]
        out += ["a", 99, True, False, [1]]
    seen, res = [], []
    for x in out:
        if any(type(x) is type(v) and x == v for v in values):
            continue
        # a JSON number equal to a listed integer (1.0 for 1) is the same JSON value: not a probe
        if any(isinstance(x, (int, float)) and not isinstance(x, bool) and isinstance(v, int) and x == v for v in values):
            continue
        k = (type(x).__name__, repr(x))
        if k not in seen:
            seen.append(k)
            res.append(x)
    return res


def cases(tier):
    n = 2 if tier == "quick" else 3
    for typ, alphabet in (("string", STRS), ("integer", INTS)):
        for k in range(1, n + 1):
            for values in itertools.permutations(alphabet, k):
                if typ == "integer" and k == 3 and tier == "quick":
                    continue
                for null in (False, True):
                    for style in ("enum", "literal"):
                        for ref in (False, True):
                            if k == n and n == 3 and (ref or null) and typ == "string":
                                continue
                            defaults = ["none"] if k > 1 and tier == "quick" else ["none", "first", "non-member"]
                            for d in defaults:
                                dv = "none" if d == "none" else (values[0] if d == "first" else ("zz-not-listed" if typ == "string" else 77))
                                yield {"labels": [f"values={list(values)!r}"] + (["null"] if null else []) + [f"style={style}"] + (["ref"] if ref else []) + ([f"default={d}"] if d != "none" else []),
                                       "payload": {"mode": "enum", "type": typ, "values": list(values), "null": null, "style": style, "ref": ref, "default": d, "dv": dv}}
    # value lists that repeat a value (the enumeration admits the SET of listed values, nothing more: in particular not null)
    for typ, (a, b) in (("string", STRS[:2]), ("integer", INTS[:2])):
        for values in ([a, a], [a, b, a], [a, a, b], [b, a, a], [a, b, b, a]):
            for style in ("enum", "literal"):
                for ref in (False, True):
                    yield {"labels": [f"values={values!r}", "repeated-value", f"style={style}"] + (["ref"] if ref else []),
                           "payload": {"mode": "enum", "type": typ, "values": list(values), "null": False, "style": style, "ref": ref, "default": "none", "dv": "none"}}
    # COUNTS: two values whose member names coincide, adjacent or separated by one / two neutral values, in lists of 3 and 4
    for x, y in itertools.permutations(COLLIDERS, 2):
        for values in ([x, "zq", y], ["zq", x, y], [x, y, "zq"], [x, "zq", "zr", y], ["zq", x, "zr", y]):
            for style in ("enum", "literal"):
                yield {"labels": [f"values={values!r}", "separated-colliders", f"style={style}"],
                       "payload": {"mode": "enum", "type": "string", "values": list(values), "null": False, "style": style, "ref": False, "default": "none", "dv": "none"}}
    # values outside the everyday alphabet (astral characters, combining marks, controls, words that are Python / JSON literals), first and last of two
    for v in SPECIAL_VALUES:
        for values in ([v, "plain"], ["plain", v], [v]):
            for style in ("enum", "literal"):
                for ref in (False, True):
                    yield {"labels": [f"values={values!r}", "special-value", f"style={style}"] + (["ref"] if ref else []),
                           "payload": {"mode": "enum", "type": "string", "values": list(values), "null": False, "style": style, "ref": ref, "default": "none", "dv": "none"}}
    yield from _shared_cases()
    # two enums that derive the same class name (a component and an inline enum): reported, or both keep exactly their values
    clash_lists = [["OPEN", "CLOSED"], ["open", "closed"], ["Open", "closed"], ["a", "b"], ["c", "d"], ["a", "b", "c"], ["b", "a"]]
    for x, y in itertools.permutations(clash_lists, 2):
        for style in ("enum", "literal"):
            for first in ("component-first", "holder-first"):
                yield {"labels": [f"clash={x!r}|{y!r}", f"style={style}", first], "payload": {"mode": "clash", "x": x, "y": y, "style": style, "first": first}}
    for c in CONSTS:
        for req in (True, False):
            for typed in (False, True):
                yield {"labels": [f"const={c!r}", "req" if req else "opt"] + (["typed"] if typed else []),
                       "payload": {"mode": "const", "const": c, "required": req, "typed": typed}}
    # enums / consts where an OPERATION uses them: as JSON response (next to a content-less sibling response) and as query / header parameter
    for typ, values in (("string", ["a", "b"]), ("integer", [-1, 0, 2]), ("string", [""]), ("const", ["k"]), ("const", [3])):
        for style in ("enum", "literal"):
            if typ == "const" and style == "literal":
                continue
            for ref in (False, True):
                for sibling in ("none", "204", "404-empty", "default"):
                    yield {"labels": [f"values={values!r}", f"type={typ}", f"style={style}", "as-response", f"sibling={sibling}"] + (["ref"] if ref else []),
                           "payload": {"mode": "enum-response", "type": typ, "values": values, "style": style, "ref": ref, "sibling": sibling}}
                    if all(isinstance(v, str) for v in values):       # string enums / consts also as text/* replies
                        for media in ("text/plain", "text/html"):
                            yield {"labels": [f"values={values!r}", f"type={typ}", f"style={style}", "as-response", f"media={media}", f"sibling={sibling}"] + (["ref"] if ref else []),
                                   "payload": {"mode": "enum-response", "type": typ, "values": values, "style": style, "ref": ref, "sibling": sibling, "media": media}}
                if typ != "const":
                    for loc in ("query", "header"):
                        for req in (True, False):
                            yield {"labels": [f"values={values!r}", f"type={typ}", f"style={style}", f"as-{loc}-parameter"] + (["ref"] if ref else []) + ([] if req else ["opt"]),
                                   "payload": {"mode": "enum-param", "type": typ, "values": values, "style": style, "ref": ref, "loc": loc, "required": req}}
    # a const as one member of a union: the property admits the constant and what the other member admits, nothing else
    for c in ("k", 3, True):
        for partner in PARTNERS:
            for order in ("const-first", "const-last"):
                for comb in ("oneOf", "anyOf"):
                    for req in ((True, False) if tier == "thorough" else (True,)):
                        yield {"labels": [f"const={c!r}", f"with={partner}", order, comb] + ([] if req else ["opt"]),
                               "payload": {"mode": "const-union", "const": c, "partner": partner, "order": order, "comb": comb, "required": req}}


def _enum_of(ann):
    """(members as python objects, their wire values) for an Enum class or Literal alias found in the annotation."""
    if isinstance(ann, type) and issubclass(ann, enum.Enum):
        return list(ann), [m.value for m in ann]
    if typing.get_origin(ann) is typing.Literal:
        return list(typing.get_args(ann)), list(typing.get_args(ann))
    for a in typing.get_args(ann):
        r = _enum_of(a)
        if r:
            return r
    return None


def _run_enum(p):
    from checks.c02 import err_class, find_class
    from checks.c09 import diffclass
    values, typ, null = p["values"], p["type"], p["null"]
    lit = p["style"] == "literal"
    doc = _doc(values, null, p["dv"], p["ref"], typ)
    res = gen.generate(doc, literal_enums=lit)
    style = p["style"] + ("/ref" if p["ref"] else "/inline")
    if res.crash:
        # the pinned ValueError("Duplicate key") is the generator's way of reporting coinciding member names
        return {"skipped_crash": True, "outcome": f"crash:{res.crash['type']}@{res.crash['where']}", "nontrivial": False}
    if res.rejected:
        return {"outcome": "rejected", "nontrivial": False}
    viol = []
    with Sandbox(res.pkg_tree()) as sb:
        try:
            cls = find_class(res, sb, "M")
        except SyntaxError as exc:
            vc = "+".join(sorted({vclass(v) for v in values}))
            return {"violations": [{"oracle": "member-name-invalid", "site": style, "key": f"{vc}", "detail": f"values {values!r}: generated module does not parse: {exc}"}],
                    "outcome": "viol:syntax", "nontrivial": True}
        except Exception as exc:  # noqa: BLE001
            return {"outcome": f"import-fails:{type(exc).__name__}", "nontrivial": False}
        if cls is None:
            if p["default"] == "non-member":
                return {"outcome": "pruned-bad-default", "nontrivial": True} if res.diags else {
                    "violations": [{"oracle": "bad-default-silent", "site": style, "key": typ, "detail": "model missing without diagnostic"}], "outcome": "viol"}
            if res.diags:
                return {"outcome": "diagnosed:" + res.diags[0].detail[:40], "nontrivial": True}
            return {"violations": [{"oracle": "enum-dropped-silently", "site": style, "key": typ, "detail": f"values {values!r}: no model and no diagnostic"}], "outcome": "viol"}
        if p["default"] == "non-member":
            viol.append({"oracle": "bad-default-accepted", "site": style, "key": typ, "detail": f"default {p['dv']!r} is not listed in {values!r} but the model was generated"
                         + (" without diagnostic" if not res.diags else "")})
        ann = pyval.hints(cls).get("p")
        found = _enum_of(ann)
        if found is None:
            return {"violations": [{"oracle": "not-an-enum", "site": style, "key": typ, "detail": f"attribute annotated {ann!r}: no Enum / Literal for values {values!r}"}], "outcome": "viol"}
        members, wire_values = found
        # exactly one member per listed value
        for v in values:
            n = sum(1 for w in wire_values if type(w) is type(v) and w == v)
            if n != 1:
                others = [o for o in values if o != v]
                # what distinguishes v from the listed value it most resembles (document-side classification)
                dcs = [diffclass([v, o]) for o in others] if isinstance(v, str) else []
                dc = next((d for d in dcs if d != "other"), "other") if dcs else "-"
                viol.append({"oracle": "member-count", "site": style, "key": f"{vclass(v)}/{dc}", "detail": f"value {v!r} of {values!r} has {n} members with that wire value; members: {wire_values!r}"})
        distinct = [v for i, v in enumerate(values) if not any(type(v) is type(o) and v == o for o in values[:i])]      # a repeated value is listed once
        if len(wire_values) != len(distinct):
            viol.append({"oracle": "member-total", "site": style, "key": f"{len(distinct)}->{len(wire_values)}", "detail": f"{len(distinct)} distinct values {values!r} but {len(wire_values)} members {wire_values!r}"})
        # decode / encode of every listed value
        for v in values:
            try:
                o = cls.from_dict({"p": v})
                e = o.to_dict()
                if type(e.get("p")) is not type(v) or e.get("p") != v:
                    viol.append({"oracle": "listed-roundtrip", "site": style, "key": vclass(v), "detail": f"listed value {v!r} re-encodes as {e.get('p')!r}"})
                if not lit and not isinstance(o.p, enum.Enum):
                    viol.append({"oracle": "listed-not-member", "site": style, "key": vclass(v), "detail": f"listed value {v!r} decodes to {o.p!r}, not an Enum member"})
            except Exception as exc:  # noqa: BLE001
                viol.append({"oracle": "listed-rejected", "site": style, "key": f"{vclass(v)}/{err_class(exc)}", "detail": f"listed value {v!r} of {values!r} does not decode: {exc!r}"})
        # null
        try:
            o = cls.from_dict({"p": None})
            if not null:
                viol.append({"oracle": "unlisted-accepted", "site": style, "key": "null", "detail": f"null is not listed in {values!r} but decodes to {o.p!r}"})
            elif o.p is not None or o.to_dict().get("p", "<absent>") is not None:
                viol.append({"oracle": "null-roundtrip", "site": style, "key": "null", "detail": f"null decodes to {o.p!r} / encodes {o.to_dict()!r}"})
        except Exception as exc:  # noqa: BLE001
            if null:
                viol.append({"oracle": "null-rejected", "site": style, "key": err_class(exc), "detail": f"null is listed but does not decode: {exc!r}"})
        # values not listed must be refused
        for x in probes(values, typ):
            try:
                o = cls.from_dict({"p": x})
                viol.append({"oracle": "unlisted-accepted", "site": style + ("/nullable" if null else ""), "key": f"{type(x).__name__}",
                             "detail": f"{x!r} is not listed in {values!r}{' + null' if null else ''} but decodes to {o.p!r}"})
            except Exception:  # noqa: BLE001
                pass
    seen, uniq = set(), []
    for v in viol:
        k = (v["oracle"], v["site"], v["key"])
        if k not in seen:
            seen.add(k)
            uniq.append(v)
    return {"violations": uniq, "outcome": "ok" if not uniq else "viol:" + ",".join(sorted({v['oracle'] for v in uniq})), "nontrivial": True, "steps": 2 + len(values) + 10}


def _run_const(p):
    from checks.c02 import find_class
    c = p["const"]
    sch = {"const": c}
    if p["typed"]:
        sch["type"] = "boolean" if isinstance(c, bool) else ("integer" if isinstance(c, int) else ("number" if isinstance(c, float) else "string"))
    m = {"type": "object", "properties": {"p": sch, "other": {"type": "integer"}}}
    if p["required"]:
        m["required"] = ["p"]
    res = gen.generate(gen.base_doc({"M": m}))
    if res.crash:
        return {"skipped_crash": True, "outcome": f"crash:{res.crash['type']}@{res.crash['where']}", "nontrivial": False}
    key = f"{vclass(c)}/{'req' if p['required'] else 'opt'}" + ("/typed" if p["typed"] else "")
    viol = []
    with Sandbox(res.pkg_tree()) as sb:
        try:
            cls = find_class(res, sb, "M")
        except SyntaxError as exc:
            return {"violations": [{"oracle": "const-module-invalid", "site": "const", "key": key, "detail": f"const {c!r}: generated module does not parse: {exc}"}], "outcome": "viol:syntax", "nontrivial": True}
        except Exception as exc:  # noqa: BLE001
            return {"outcome": f"import-fails:{type(exc).__name__}", "nontrivial": False}
        if cls is None:
            if res.diags:
                return {"outcome": "diagnosed", "nontrivial": True}
            return {"violations": [{"oracle": "const-dropped-silently", "site": "const", "key": key, "detail": "no model, no diagnostic"}], "outcome": "viol"}
        try:
            o = cls.from_dict({"p": c})
            e = o.to_dict().get("p", "<absent>")
            if type(e) is not type(c) or e != c:
                viol.append({"oracle": "const-roundtrip", "site": "const", "key": key, "detail": f"const {c!r} re-encodes as {e!r}"})
        except Exception as exc:  # noqa: BLE001
            viol.append({"oracle": "const-rejected", "site": "const", "key": key, "detail": f"the constant {c!r} itself does not decode: {exc!r}"})
        others = ["K", "kk", "x", 5, 1, 0, True, False, 2.5, None, [c], ""]
        for x in others:
            if type(x) is type(c) and x == c:
                continue
            if isinstance(x, (int, float)) and isinstance(c, (int, float)) and not isinstance(x, bool) and not isinstance(c, bool) and x == c:
                continue
            try:
                o = cls.from_dict({"p": x})
                viol.append({"oracle": "const-accepts-other", "site": "const", "key": f"{key}/{type(x).__name__}", "detail": f"const {c!r} accepts {x!r} (decodes to {o.p!r})"})
            except Exception:  # noqa: BLE001
                pass
    return {"violations": viol, "outcome": "ok" if not viol else "viol:" + ",".join(sorted({v['oracle'] for v in viol})), "nontrivial": True, "steps": 14}


PARTNERS = {
    # name: (schema, values it admits, values it does not admit [beyond the generic probes])
    "null": ({"type": "null"}, [None]),
    "int": ({"type": "integer"}, [5, 0]),
    "str": ({"type": "string"}, ["x", ""]),
    "bool": ({"type": "boolean"}, [False]),
    "const2": ({"const": "other"}, ["other"]),
    "enum": ({"type": "string", "enum": ["e1", "e2"]}, ["e1", "e2"]),
    "date": ({"type": "string", "format": "date"}, ["2020-01-02"]),
    "model": ({"type": "object", "required": ["z"], "properties": {"z": {"type": "integer"}}, "additionalProperties": False}, [{"z": 1}]),
}
TYPE_OF = {"null": type(None), "int": int, "str": str, "bool": bool, "const2": str, "enum": str, "date": str, "model": dict}


def _run_const_union(p):
    from checks.c02 import err_class, find_class
    from checks.c04 import reencode
    c = p["const"]
    psch, admits = PARTNERS[p["partner"]]
    members = [{"const": c}, dict(psch)]
    if p["order"] == "const-last":
        members.reverse()
    m = {"type": "object", "properties": {"p": {p["comb"]: members}, "other": {"type": "integer"}}}
    if p["required"]:
        m["required"] = ["p"]
    res = gen.generate(gen.base_doc({"M": m}))
    if res.crash:
        return {"skipped_crash": True, "outcome": f"crash:{res.crash['type']}@{res.crash['where']}", "nontrivial": False}
    key = f"{vclass(c)}+{p['partner']}/{p['order']}"
    viol = []
    with Sandbox(res.pkg_tree()) as sb:
        try:
            cls = find_class(res, sb, "M")
        except SyntaxError as exc:
            return {"violations": [{"oracle": "const-module-invalid", "site": "const-union", "key": key, "detail": f"generated module does not parse: {exc}"}], "outcome": "viol:syntax", "nontrivial": True}
        except Exception as exc:  # noqa: BLE001
            return {"outcome": f"import-fails:{type(exc).__name__}", "nontrivial": False}
        if cls is None:
            return {"outcome": "diagnosed" if res.diags else "dropped", "nontrivial": bool(res.diags)}
        for v in [c] + list(admits):
            try:
                o = cls.from_dict({"p": v, "other": 1})
                e = reencode(o.to_dict()).get("p", "<absent>")
                if type(e) is not type(v) or e != v:
                    viol.append({"oracle": "const-union-roundtrip", "site": "const-union", "key": f"{key}/{vclass(v) if not isinstance(v, (dict, type(None))) else type(v).__name__}",
                                 "detail": f"{p['comb']} of const {c!r} and {p['partner']}: admitted value {v!r} re-encodes as {e!r}"})
            except Exception as exc:  # noqa: BLE001
                viol.append({"oracle": "const-union-rejects-admitted", "site": "const-union", "key": f"{key}/{'const' if v is c else 'partner'}/{err_class(exc)}",
                             "detail": f"{p['comb']} of const {c!r} and {p['partner']}: {v!r} is admitted by a member but does not decode: {exc!r}"})
        ptype = TYPE_OF[p["partner"]]
        for x in ["K", "kk", "x", 5, 1, 0, 7, True, False, 2.5, None, [c], "", {"q": 1}]:
            if type(x) is type(c) and x == c:
                continue
            if type(x) is ptype and (p["partner"] not in ("const2", "enum", "date", "model") or x in admits):
                continue                                  # admitted by the other member
            if ptype is int and isinstance(x, bool) or ptype is bool and isinstance(x, int) or ptype is int and isinstance(x, float):
                continue                                  # bool / int / number conflation is C02's and C14's recorded finding, not this probe's subject
            if isinstance(c, bool) != isinstance(x, bool) and isinstance(c, (int, bool)) and isinstance(x, (int, bool, float)) and x == c:
                continue
            try:
                o = cls.from_dict({"p": x, "other": 1})
                viol.append({"oracle": "const-union-accepts-other", "site": "const-union", "key": f"{key}/{type(x).__name__}",
                             "detail": f"{p['comb']} of const {c!r} and {p['partner']} accepts {x!r} (decodes to {o.p!r})"})
            except Exception:  # noqa: BLE001
                pass
    seen, uniq = set(), []
    for v in viol:
        k = (v["oracle"], v["site"], v["key"])
        if k not in seen:
            seen.add(k)
            uniq.append(v)
    return {"violations": uniq, "outcome": "ok" if not uniq else "viol:" + ",".join(sorted({v['oracle'] for v in uniq})), "nontrivial": True, "steps": 16}


def _op_enum_schema(p, comps):
    sch = {"const": p["values"][0]} if p["type"] == "const" else {"type": p["type"], "enum": list(p["values"])}
    if p["ref"]:
        comps["E"] = sch
        return {"$ref": "#/components/schemas/E"}
    return sch


def _run_enum_response(p):
    import httpx
    from specmc import wire
    comps = {}
    sch = _op_enum_schema(p, comps)
    media = p.get("media", "application/json")
    responses = {"200": {"description": "d", "content": {media: {"schema": sch}}}}
    if p["sibling"] == "204":
        responses["204"] = {"description": "nothing"}
    elif p["sibling"] == "404-empty":
        responses["404"] = {"description": "not found"}
    elif p["sibling"] == "default":
        responses["default"] = {"description": "anything else"}
    doc = gen.base_doc(comps or None, paths={"/e": {"get": {"operationId": "getE", "responses": responses}}})
    res = gen.generate(doc, literal_enums=p["style"] == "literal")
    if res.crash:
        return {"skipped_crash": True, "outcome": f"crash:{res.crash['type']}@{res.crash['where']}", "nontrivial": False}
    if res.rejected or not res.endpoints:
        return {"outcome": "no-endpoint", "nontrivial": False}
    key = f"response/{p['type']}/{p['style']}" + ("/ref" if p["ref"] else "") + ("/text" if media != "application/json" else "")
    viol = []
    values = p["values"]
    with Sandbox(res.pkg_tree()) as sb:
        try:
            mod = wire.endpoint_module(sb, res.endpoints[0])
        except Exception as exc:  # noqa: BLE001
            return {"outcome": f"import-fails:{type(exc).__name__}", "nontrivial": False}
        current = {}
        cap = wire.Capture(lambda request: httpx.Response(200, json=current["v"]) if media == "application/json" else
                           httpx.Response(200, content=str(current["v"]).encode(), headers={"content-type": media}))
        for v in values:
            current["v"] = v
            for variant in ("sync_detailed", "asyncio_detailed"):
                r = wire.call(mod, variant, lambda: wire.make_client(sb, cap), cap, {})
                if not r["ok"]:
                    viol.append({"oracle": "listed-rejected", "site": "response", "key": f"{key}/{vclass(v)}", "detail": f"{variant}: listed value {v!r} as reply raised {r['exc']!r}"})
                    continue
                parsed = r["value"].parsed
                wire_v = parsed.value if isinstance(parsed, enum.Enum) else parsed
                if type(wire_v) is not type(v) or wire_v != v:
                    viol.append({"oracle": "listed-roundtrip", "site": "response", "key": f"{key}/{vclass(v)}", "detail": f"{variant}: listed value {v!r} as reply parsed to {parsed!r}"})
                elif p["style"] == "enum" and p["type"] != "const" and not isinstance(parsed, enum.Enum):
                    viol.append({"oracle": "listed-not-member", "site": "response", "key": f"{key}/{vclass(v)}", "detail": f"{variant}: listed value {v!r} parsed to {parsed!r}, not a member"})
        probes_ = ["zz-not-listed", 77, None] if p["type"] != "integer" else [77, "a", None]
        if media != "application/json":
            probes_ = ["zz-not-listed", "A", ""]
        for x in probes_:
            if any(type(x) is type(v) and x == v for v in values):
                continue
            current["v"] = x
            r = wire.call(mod, "sync_detailed", lambda: wire.make_client(sb, cap), cap, {})
            if r["ok"]:
                viol.append({"oracle": "unlisted-accepted", "site": "response", "key": f"{key}/{type(x).__name__}", "detail": f"reply {x!r} is not listed in {values!r} but parsed to {r['value'].parsed!r}"})
    seen, uniq = set(), []
    for v in viol:
        k = (v["oracle"], v["site"], v["key"])
        if k not in seen:
            seen.add(k)
            uniq.append(v)
    return {"violations": uniq, "outcome": "ok" if not uniq else "viol:" + ",".join(sorted({v['oracle'] for v in uniq})), "nontrivial": True, "steps": 2 * len(values) + 3}


def _run_enum_param(p):
    from specmc import wire
    comps = {}
    sch = _op_enum_schema(p, comps)
    doc = gen.base_doc(comps or None, paths={"/e": {"get": {"operationId": "getE", "parameters": [{"name": "p", "in": p["loc"], "required": p["required"], "schema": sch}],
                                                          "responses": {"200": {"description": "ok"}}}}})
    res = gen.generate(doc, literal_enums=p["style"] == "literal")
    if res.crash:
        return {"skipped_crash": True, "outcome": f"crash:{res.crash['type']}@{res.crash['where']}", "nontrivial": False}
    if res.rejected or not res.endpoints:
        return {"outcome": "no-endpoint", "nontrivial": False}
    key = f"{p['loc']}-parameter/{p['type']}/{p['style']}" + ("/ref" if p["ref"] else "")
    viol = []
    with Sandbox(res.pkg_tree()) as sb:
        try:
            mod = wire.endpoint_module(sb, res.endpoints[0])
        except Exception as exc:  # noqa: BLE001
            return {"outcome": f"import-fails:{type(exc).__name__}", "nontrivial": False}
        ep = res.endpoints[0]
        py = ep[f"{p['loc']}_params"][0]["py"]
        ann = pyval.hints(mod.sync_detailed).get(py)
        cap = wire.Capture()
        for v in p["values"]:
            try:
                arg = pyval.pythonize(ann, v)
            except pyval.NoFit as exc:
                viol.append({"oracle": "annotation-rejects-listed", "site": p["loc"], "key": f"{key}/{vclass(v)}", "detail": f"listed value {v!r} does not fit {ann!r}: {exc}"})
                continue
            for variant in ("sync_detailed", "asyncio_detailed"):
                r = wire.call(mod, variant, lambda: wire.make_client(sb, cap), cap, {py: arg})
                if not r["ok"] or not r["requests"]:
                    viol.append({"oracle": "listed-not-sent", "site": p["loc"], "key": f"{key}/{vclass(v)}", "detail": f"{variant}: passing the listed value {v!r} raised {r.get('exc')!r}"})
                    continue
                q = r["requests"][0]
                got = [x for k_, x in q["query"] if k_ == "p"] if p["loc"] == "query" else [x for k_, x in q["headers"] if k_ == "p"]
                want = v if isinstance(v, str) else json.dumps(v)
                if got != [want]:
                    viol.append({"oracle": "listed-wire-value", "site": p["loc"], "key": f"{key}/{vclass(v)}", "detail": f"{variant}: listed value {v!r} transmitted as {got!r}, expected {[want]!r}"})
    seen, uniq = set(), []
    for v in viol:
        k = (v["oracle"], v["site"], v["key"])
        if k not in seen:
            seen.add(k)
            uniq.append(v)
    return {"violations": uniq, "outcome": "ok" if not uniq else "viol:" + ",".join(sorted({v['oracle'] for v in uniq})), "nontrivial": True, "steps": 2 * len(p["values"])}


def _shared_cases():
    """ONE inline enum schema object that several operations reach (path-item parameter, reusable parameter / response / request body):
    every user gets exactly the listed values (and null iff listed), not only the first one."""
    for typ, values in (("string", ["a", "b"]), ("integer", [0, 3])):
        for null in (False, True):
            for style in ("enum", "literal"):
                for ctx in ("pathitem-param", "component-param", "component-response", "component-body"):
                    yield {"labels": [f"shared-enum={ctx}", f"type={typ}"] + (["null"] if null else []) + [f"style={style}"],
                           "payload": {"mode": "enum-shared", "type": typ, "values": values, "null": null, "style": style, "ctx": ctx}}


def _run_enum_shared(p):
    import httpx
    from specmc import wire
    sch = {"type": [p["type"], "null"] if p["null"] else p["type"], "enum": list(p["values"]) + ([None] if p["null"] else [])}
    methods = ("get", "post", "put")
    ok = {"200": {"description": "ok"}}
    comps = {}
    item = {}
    if p["ctx"] == "pathitem-param":
        item["parameters"] = [{"name": "p", "in": "query", "required": True, "schema": sch}]
        for m in methods:
            item[m] = {"operationId": f"{m}E", "responses": ok}
    elif p["ctx"] == "component-param":
        comps["parameters"] = {"P": {"name": "p", "in": "query", "required": True, "schema": sch}}
        for m in methods:
            item[m] = {"operationId": f"{m}E", "parameters": [{"$ref": "#/components/parameters/P"}], "responses": ok}
    elif p["ctx"] == "component-response":
        comps["responses"] = {"R": {"description": "d", "content": {"application/json": {"schema": sch}}}}
        for m in methods:
            item[m] = {"operationId": f"{m}E", "responses": {"200": {"$ref": "#/components/responses/R"}}}
    else:
        comps["requestBodies"] = {"B": {"required": True, "content": {"application/json": {"schema": sch}}}}
        for m in methods:
            item[m] = {"operationId": f"{m}E", "requestBody": {"$ref": "#/components/requestBodies/B"}, "responses": ok}
    doc = gen.base_doc(None, paths={"/e": item}, components=comps or None) if comps else gen.base_doc(None, paths={"/e": item})
    res = gen.generate(doc, literal_enums=p["style"] == "literal")
    if res.crash:
        return {"skipped_crash": True, "outcome": f"crash:{res.crash['type']}@{res.crash['where']}", "nontrivial": False}
    if res.rejected or len(res.endpoints) < len(methods):
        return {"outcome": "no-endpoint", "nontrivial": False}
    key = f"shared/{p['ctx']}/{p['type']}/{p['style']}" + ("/null" if p["null"] else "")
    viol, behaviours = [], {}
    values = list(p["values"]) + ([None] if p["null"] else [])
    probes = values + ([None] if not p["null"] else []) + (["zz-not-listed"] if p["type"] == "string" else [77])
    with Sandbox(res.pkg_tree()) as sb:
        for ep in res.endpoints:
            try:
                mod = wire.endpoint_module(sb, ep)
            except Exception as exc:  # noqa: BLE001
                behaviours[ep["method"]] = f"import-fails:{type(exc).__name__}"
                continue
            beh = []
            if p["ctx"] == "component-response":
                for v in probes:
                    cap = wire.Capture(lambda request, v=v: httpx.Response(200, content=json.dumps(v).encode(), headers={"content-type": "application/json"}))
                    r = wire.call(mod, "sync_detailed", lambda: wire.make_client(sb, cap), cap, {})      # noqa: B023
                    if r["ok"]:
                        parsed = r["value"].parsed
                        beh.append([repr(v), "ok", repr(parsed.value if isinstance(parsed, enum.Enum) else parsed)])
                    else:
                        beh.append([repr(v), "raises"])
            else:
                argname = ep["query_params"][0]["py"] if "param" in p["ctx"] else "body"
                ann = pyval.hints(mod.sync_detailed).get(argname)
                beh.append(["admits-None", type(None) in getattr(ann, "__args__", ()) or ann is type(None)])
                for v in probes:
                    try:
                        arg = pyval.pythonize(ann, v)
                    except pyval.NoFit:
                        beh.append([repr(v), "does-not-fit-annotation"])
                        continue
                    cap = wire.Capture(lambda request: httpx.Response(200))
                    r = wire.call(mod, "sync_detailed", lambda: wire.make_client(sb, cap), cap, {argname: arg})      # noqa: B023
                    if r["ok"] and r["requests"]:
                        q = r["requests"][0]
                        beh.append([repr(v), "sent", [x for k_, x in q["query"] if k_ == "p"] if "param" in p["ctx"] else q["content"].decode("latin-1")])
                    else:
                        beh.append([repr(v), "raises"])
            behaviours[ep["method"].lower()] = beh
    first = behaviours.get("get")
    for m, beh in behaviours.items():
        if beh != first:
            viol.append({"oracle": "shared-enum-users-differ", "site": p["ctx"], "key": key,
                         "detail": f"the enum {values!r} is one schema object used by {sorted(behaviours)}: the first user behaves as {json.dumps(first)[:300]}, {m} as {json.dumps(beh)[:300]}"})
            break
    # the first user itself: listed values are accepted
    if isinstance(first, list):
        for row in first:
            if row[0] in [repr(v) for v in values] and row[1] in ("raises", "does-not-fit-annotation"):
                viol.append({"oracle": "listed-rejected", "site": p["ctx"], "key": f"{key}/{row[0]}", "detail": f"listed value {row[0]} is refused by the first user: {row}"})
    return {"violations": viol, "outcome": "ok" if not viol else "viol:" + ",".join(sorted({v['oracle'] for v in viol})), "nontrivial": True, "steps": 3 * len(probes)}


def _run_clash(p):
    from checks.c02 import find_class
    x, y = p["x"], p["y"]
    comp = {"type": "string", "enum": list(x)}
    holder = {"type": "object", "properties": {"p": {"type": "string", "enum": list(y)}}}
    user = {"type": "object", "properties": {"e": {"$ref": "#/components/schemas/MP"}}}
    comps = {"MP": comp, "M": holder, "User": user} if p["first"] == "component-first" else {"M": holder, "MP": comp, "User": user}
    res = gen.generate(gen.base_doc(comps), literal_enums=p["style"] == "literal")
    if res.crash:
        return {"skipped_crash": True, "outcome": f"crash:{res.crash['type']}@{res.crash['where']}", "nontrivial": False}
    if res.diags:
        return {"outcome": "clash-reported", "nontrivial": True}
    same = set(x) == set(y)
    key = ("same-member-names" if [v.upper() for v in x] == [v.upper() for v in y] else ("same-set" if same else "different")) + "/" + p["style"]
    viol = []
    with Sandbox(res.pkg_tree()) as sb:
        try:
            m, u = find_class(res, sb, "M"), find_class(res, sb, "User")
        except Exception as exc:  # noqa: BLE001
            return {"outcome": f"import-fails:{type(exc).__name__}", "nontrivial": False}
        for cls, attr, own, other, what in ((u, "e", x, y, "component MP"), (m, "p", y, x, "inline M.p")):
            if cls is None:
                viol.append({"oracle": "clash-dropped-silently", "site": "clash", "key": key, "detail": f"{what}: holder class missing and no diagnostic"})
                continue
            for v in own:
                try:
                    e = cls.from_dict({attr: v}).to_dict().get(attr)
                    if e != v:
                        viol.append({"oracle": "clash-merged", "site": "clash", "key": key, "detail": f"{what} lists {own!r}: {v!r} re-encodes as {e!r} (other enum: {other!r})"})
                except Exception as exc:  # noqa: BLE001
                    viol.append({"oracle": "clash-merged", "site": "clash", "key": key, "detail": f"{what} lists {own!r} but rejects {v!r}: {exc!r} (other enum: {other!r})"})
            for v in other:
                if v in own:
                    continue
                try:
                    cls.from_dict({attr: v})
                    viol.append({"oracle": "clash-merged", "site": "clash", "key": key, "detail": f"{what} lists {own!r} but accepts {v!r} of the other enum {other!r}"})
                except Exception:  # noqa: BLE001
                    pass
    seen, uniq = set(), []
    for v in viol:
        k = (v["oracle"], v["key"])
        if k not in seen:
            seen.add(k)
            uniq.append(v)
    return {"violations": uniq, "outcome": "ok" if not uniq else "viol:clash", "nontrivial": True, "steps": 8}


def run_case(p):
    if p["mode"] == "clash":
        return _run_clash(p)
    if p["mode"] == "const-union":
        return _run_const_union(p)
    if p["mode"] == "enum-shared":
        return _run_enum_shared(p)
    if p["mode"] == "enum-response":
        return _run_enum_response(p)
    if p["mode"] == "enum-param":
        return _run_enum_param(p)
    return _run_enum(p) if p["mode"] == "enum" else _run_const(p)
