"""C07 — nothing in the document is dropped silently (DESIGN §C07)."""
from __future__ import annotations

import copy
import inspect
import itertools
import re
import typing

from specmc import gen, pyval, wire
from specmc.explorer import explore
from specmc.sandbox import Sandbox

ID = "C07"
LEVEL = "model_checking"
RULE = ("full product over pairs of operations (ids x paths x tag layout) and pairs of component schemas (names x kinds) from "
        "collision alphabets; deviation-bounded builder (d<=2 quick, d<=3 thorough) over 3 operations / 3 schemas with broken "
        "units, unsupported or broken responses and request media types, dependants of broken schemas at distance 1 and 2; "
        "oracle = census: every operation is served by its own generated module (found by calling it) or named by a diagnostic, "
        "every object/enum schema has its own class or is named by a diagnostic; non-trivial = generated and census taken; every ordered selection of 1-3 request media types in one body; path items with shared (good / 5 broken) parameters x 4 methods each inheriting / re-declaring / absent; every builder document also under generate_all_tags; operations with an explicit empty tag list or with two tags; typed responses next to content-less statuses, request bodies on all eight methods (inline / by reference), broken-root dependant chains no operation mentions x related names x edge kinds; the census matches whole name tokens; components that are one-member allOf / oneOf / anyOf wrappers, alone or adding additionalProperties / required / properties, declared before / after their target; every parameter declared by an operation or its path item (also by reference, also the same name in another location) is offered by the function or named; inline objects / enumerations nested in inline objects whose derived class names coincide (5 places x 6 naming routes x 2 kinds): each keeps a class of its own or is diagnosed")
FLOOR = 0.5
ASSUMPTIONS = ["a diagnostic 'names' an item when the method and path (or the schema name) occur in its header+detail+data",
               "which class belongs to a component is read from the generator's own claim and then verified on the tree"]

OPIDS = ["getThing", "get_thing", "get-thing", "GetThing", "other", None]
PATHPAIRS = [("/a", "/b"), ("/a_b", "/a/b"), ("/a/{id}", "/a/{id}/x"), ("/a-b", "/a_b")]
TAGS = ["same", "different", "none", "empty-list", "empty-list+tag", "two-tags"]
SNAMES = ["AB", "Ab", "a_b", "A B", "Foo", "foo"]
SKINDS = {
    "object": lambda: {"type": "object", "properties": {"v": {"type": "integer"}}},
    "str_enum": lambda: {"type": "string", "enum": ["a", "b"]},
    "int_enum": lambda: {"type": "integer", "enum": [1, 2]},
    "array": lambda: {"type": "array", "items": {"type": "string"}},
    "scalar": lambda: {"type": "string"},
}
OK = {"200": {"description": "ok"}}


def _op(op_id, tag, path, responses=None, body=None, params=None):
    op = {"responses": responses or {"200": {"description": "ok"}}}
    if op_id is not None:
        op["operationId"] = op_id
    if tag is not None:
        op["tags"] = list(tag) if isinstance(tag, (list, tuple)) else [tag]       # () is an explicit, empty tag list
    ps = [{"name": m, "in": "path", "required": True, "schema": {"type": "string"}} for m in re.findall(r"\{(\w+)\}", path)]
    if params:
        ps += params
    if ps:
        op["parameters"] = ps
    if body is not None:
        op["requestBody"] = body
    return op


def _op_pairs():
    for ia, ib in itertools.product(OPIDS, OPIDS):
        for pa, pb in PATHPAIRS:
            for tags in TAGS:
                ta, tb = {"same": ("t", "t"), "different": ("t", "u"), "none": (None, None), "empty-list": ((), ()), "empty-list+tag": ((), "t"), "two-tags": (("t", "u"), ("u", "t"))}[tags]
                paths = {pa: {"get": _op(ia, ta, pa)}, pb: {"get": _op(ib, tb, pb)}}
                doc = gen.base_doc(None, paths=paths)
                yield {"labels": [f"op0.id={ia}", f"op1.id={ib}", f"paths={pa}|{pb}", f"tags={tags}"],
                       "payload": {"doc": doc, "key": "op-pair"}}
    # same path, two methods; same id under different methods
    for ia, ib in itertools.product(OPIDS[:4] + [None], repeat=2):
        paths = {"/m": {"get": _op(ia, "t", "/m"), "post": _op(ib, "t", "/m")}}
        yield {"labels": [f"op0.id={ia}", f"op1.id={ib}", "same-path-two-methods"], "payload": {"doc": gen.base_doc(None, paths=paths), "key": "op-pair-methods"}}


def _schema_pairs():
    for na, nb in itertools.permutations(SNAMES, 2):
        for ka, kb in itertools.product(("object", "str_enum", "int_enum"), repeat=2):
            comps = {na: SKINDS[ka](), nb: SKINDS[kb]()}
            yield {"labels": [f"S0.name={na}", f"S1.name={nb}", f"S0.kind={ka}", f"S1.kind={kb}"],
                   "payload": {"doc": gen.base_doc(comps), "key": "schema-pair"}}
    # a component and an inline class that derive the same name
    for style in ("object", "str_enum"):
        for first in ("component-first", "holder-first"):
            inner = SKINDS[style]()
            holder = {"type": "object", "properties": {"bar": inner}}
            clash = None
            for clash_kind in ("object", "str_enum"):
                c = {"type": "object", "properties": {"w": {"type": "string"}}} if clash_kind == "object" else {"type": "string", "enum": ["x", "y"]}
                comps = {"FooBar": c, "Foo": holder} if first == "component-first" else {"Foo": holder, "FooBar": c}
                yield {"labels": [f"inline-clash={style}", f"component={clash_kind}", first],
                       "payload": {"doc": gen.base_doc(comps), "key": "inline-clash"}}
            _ = clash


def _wrapper_cases():
    """A component that is a one-member allOf / oneOf / anyOf around a reference, alone (an alias of the referenced class) or adding
    something of its own (then it is a schema of its own and needs its own class or a diagnostic)."""
    base = {"type": "object", "required": ["id"], "properties": {"id": {"type": "integer"}, "label": {"type": "string"}}}
    extras = {"alias": {}, "closed": {"additionalProperties": False}, "open": {"additionalProperties": True}, "typed-addl": {"additionalProperties": {"type": "string"}},
              "requires": {"required": ["label"]}, "own-property": {"properties": {"own": {"type": "boolean"}}}, "empty-properties": {"properties": {}},
              "described": {"description": "a described alias"}}
    for kw in ("allOf", "oneOf", "anyOf"):
        for ename, extra in extras.items():
            if kw != "allOf" and ename not in ("alias", "described", "closed", "open"):
                continue        # properties / required next to a one-member oneOf / anyOf: not a shape the supported subset defines
            for order in ("base-first", "wrapper-first"):
                w = {kw: [{"$ref": "#/components/schemas/Base"}], **copy.deepcopy(extra)}
                comps = {"Base": copy.deepcopy(base), "Wrapped": w} if order == "base-first" else {"Wrapped": w, "Base": copy.deepcopy(base)}
                paths = {"/w": {"get": {"operationId": "getW", "responses": {"200": {"description": "d", "content": {"application/json": {"schema": {"$ref": "#/components/schemas/Wrapped"}}}}}}}}
                yield {"labels": [f"wrapper={kw}", f"adds={ename}", order], "payload": {"doc": gen.base_doc(comps, paths=paths), "key": f"wrapper/{kw}/{ename}", "alias_ok": ename in ("alias", "described", "empty-properties")}}


BREAKS = {
    "none": None,
    "array-no-items": {"type": "array"},
    "dangling-ref": {"$ref": "#/components/schemas/Nope"},
    "mixed-enum": {"enum": ["a", 1]},
    "bad-default": {"type": "integer", "default": "x"},
}


def _build(ch):
    ref = lambda n: {"$ref": f"#/components/schemas/{n}"}  # noqa: E731
    comps = {}
    s_kinds = [ch.pick(f"S{i}.kind", ["object", "str_enum", "int_enum", "array", "scalar"]) for i in range(3)]
    s_break = [ch.pick(f"S{i}.broken", list(BREAKS)) for i in range(3)]
    dep = ch.pick("deps", ["none", "S1->S0", "S2->S1->S0", "S1-items->S0", "S1-allOf->S0", "S1-union->S0", "S1-addl->S0"])
    names = {"unrelated": ["Alpha", "Beta", "Gamma"], "dependants-are-prefixes": ["UserGroupSet", "UserGroup", "User"],
             "dependants-are-suffixes": ["Set", "GroupSet", "UserGroupSet"]}[ch.pick("names", ["dependants-are-prefixes", "unrelated", "dependants-are-suffixes"])]      # default: related names (a substring census would be fooled)
    for i, n in enumerate(names):
        sch = SKINDS[s_kinds[i]]()
        if s_break[i] != "none":
            if sch.get("type") == "object":
                sch["properties"]["bad"] = BREAKS[s_break[i]]
            else:
                sch = dict(BREAKS[s_break[i]])
        comps[n] = sch

    def link(src, dst, how):
        s = comps[src]
        if s.get("type") != "object" or "properties" not in s:
            comps[src] = s = {"type": "object", "properties": {"v": {"type": "integer"}}}
        if how == "prop":
            s["properties"]["link"] = ref(dst)
        elif how == "items":
            s["properties"]["links"] = {"type": "array", "items": ref(dst)}
        elif how == "allOf":
            comps[src] = {"allOf": [ref(dst), {"type": "object", "properties": {"own": {"type": "string"}}}]}
        elif how == "union":
            s["properties"]["either"] = {"oneOf": [ref(dst), {"type": "integer"}]}
        elif how == "addl":
            s["additionalProperties"] = ref(dst)
    if dep == "S1->S0":
        link(names[1], names[0], "prop")
    elif dep == "S2->S1->S0":
        link(names[1], names[0], "prop")
        link(names[2], names[1], "prop")
    elif dep.startswith("S1-"):
        link(names[1], names[0], dep[3:].split("->")[0])
    # operations
    paths = {}
    tagging = ch.pick("tags", ["own-tag-each", "all-untagged", "one-shared-tag", "empty-tag-lists", "two-tags-each"])
    for i in range(3):
        present = ch.pick(f"op{i}", ["plain", "absent"] if i == 2 else ["plain"])
        if present == "absent":
            continue
        resp = ch.pick(f"op{i}.responses", ["200-ref", "200+404", "200-unsupported-media", "200-broken-schema", "default-only", "2XX", "bad-code", "none-documented-201", "200-ref+204+404-empty"])
        body = ch.pick(f"op{i}.body", ["none", "json-ref", "json+xml", "xml-only", "broken-schema", "json+form", "ref-dangling"])
        param = ch.pick(f"op{i}.param", ["none", "optional-path", "dangling-ref-param", "duplicate", "no-schema"])
        target = names[i]
        r = {}
        if resp == "200-ref":
            r["200"] = {"description": "d", "content": {"application/json": {"schema": ref(target)}}}
        elif resp == "200+404":
            r["200"] = {"description": "d", "content": {"application/json": {"schema": ref(target)}}}
            r["404"] = {"description": "d", "content": {"application/json": {"schema": {"type": "string"}}}}
        elif resp == "200-ref+204+404-empty":      # a typed response next to documented statuses that carry no content
            r["200"] = {"description": "d", "content": {"application/json": {"schema": ref(target)}}}
            r["204"] = {"description": "nothing"}
            r["404"] = {"description": "not found"}
        elif resp == "200-unsupported-media":
            r["200"] = {"description": "d", "content": {"application/xml": {"schema": ref(target)}}}
            r["204"] = {"description": "d"}
        elif resp == "200-broken-schema":
            r["200"] = {"description": "d", "content": {"application/json": {"schema": {"type": "array"}}}}
            r["204"] = {"description": "d"}
        elif resp == "default-only":
            r["default"] = {"description": "d"}
        elif resp == "2XX":
            r["2XX"] = {"description": "d"}
            r["404"] = {"description": "d"}
        elif resp == "bad-code":
            r["abc"] = {"description": "d"}
            r["200"] = {"description": "d"}
        else:
            r["201"] = {"description": "d"}
        b = None
        if body == "json-ref":
            b = {"content": {"application/json": {"schema": ref(target)}}}
        elif body == "json+xml":
            b = {"content": {"application/json": {"schema": ref(target)}, "application/xml": {"schema": ref(target)}}}
        elif body == "xml-only":
            b = {"content": {"application/xml": {"schema": ref(target)}}}
        elif body == "broken-schema":
            b = {"content": {"application/json": {"schema": {"type": "array"}}}}
        elif body == "json+form":
            b = {"content": {"application/json": {"schema": ref(target)}, "application/x-www-form-urlencoded": {"schema": {"type": "object", "properties": {"f": {"type": "string"}}}}}}
        elif body == "ref-dangling":
            b = {"$ref": "#/components/requestBodies/Nope"}
        path = f"/op{i}"
        params = []
        if param == "optional-path":
            path = f"/op{i}/{{pp}}"
        elif param == "dangling-ref-param":
            params = [{"$ref": "#/components/parameters/Nope"}]
        elif param == "duplicate":
            params = [{"name": "q", "in": "query", "schema": {"type": "string"}}, {"name": "q", "in": "query", "schema": {"type": "integer"}}]
        elif param == "no-schema":
            params = [{"name": "q", "in": "query"}]
        tag = {"own-tag-each": f"tag{i}", "all-untagged": None, "one-shared-tag": "shared", "empty-tag-lists": (), "two-tags-each": (f"tag{i}", "shared")}[tagging]
        op = _op(f"op{i}Id", tag, path if param != "optional-path" else f"/op{i}", responses=r, body=b, params=params)
        if param == "optional-path":
            op["parameters"] = [{"name": "pp", "in": "path", "required": False, "schema": {"type": "string"}}]
        paths[path] = {"post": op}
    return {"doc": gen.base_doc(comps, paths=paths), "key": "builder"}


MEDIAS = ["application/json", "application/merge-patch+json", "application/vnd.api+json", "application/json; charset=utf-8", "application/x-www-form-urlencoded",
          "multipart/form-data", "application/octet-stream", "text/plain", "application/xml", "application/x-yaml", "*/*"]


def _media_sets():
    """One request body documenting two (thorough: three) media types, every ordered selection: each is handled or named."""
    ref = lambda n: {"$ref": f"#/components/schemas/{n}"}  # noqa: E731
    comps = {f"Body{i}": {"type": "object", "properties": {f"f{i}": {"type": "string"}}} for i in range(3)}

    def sch(media, i):
        return {"type": "string", "format": "binary"} if media == "application/octet-stream" else ({"type": "string"} if media == "text/plain" else ref(f"Body{i}"))
    for k in (1, 2, 3):
        for medias in itertools.permutations(MEDIAS, k):
            if k == 3 and not all(m in MEDIAS[:6] for m in medias):
                continue
            body = {"required": True, "content": {m: {"schema": sch(m, i)} for i, m in enumerate(medias)}}
            doc = gen.base_doc(dict(comps), paths={"/b": {"post": _op("sendBody", None, "/b", body=body)}})
            yield {"labels": [f"media{i}={m}" for i, m in enumerate(medias)], "payload": {"doc": doc, "key": f"media-set{k}"}}
    # a documented request body on every HTTP method
    for method in ("get", "put", "post", "delete", "options", "head", "patch", "trace"):
        for medias in (("application/json",), ("application/json", "application/x-www-form-urlencoded"), ("application/xml",), ("multipart/form-data",)):
            for by_ref in (False, True):
                body = {"required": True, "content": {m: {"schema": sch(m, i)} for i, m in enumerate(medias)}}
                extra = {}
                if by_ref:
                    extra = {"components": {"requestBodies": {"TheBody": body}}}
                    body = {"$ref": "#/components/requestBodies/TheBody"}
                doc = gen.base_doc(dict(comps), paths={"/b": {method: _op("sendBody", None, "/b", body=body)}}, **extra)
                yield {"labels": [f"method={method}"] + [f"media{i}={m}" for i, m in enumerate(medias)] + (["body-by-ref"] if by_ref else []),
                       "payload": {"doc": doc, "key": f"body-on-{method}"}}


SHARED_PARAMS = {
    "good": {"name": "q", "in": "query", "schema": {"type": "string"}},
    "dangling-ref": {"$ref": "#/components/parameters/Nope"},
    "bad-schema": {"name": "q", "in": "query", "schema": {"type": "array"}},
    "no-schema": {"name": "q", "in": "query"},
    "duplicate": [{"name": "q", "in": "query", "schema": {"type": "string"}}, {"name": "q", "in": "query", "schema": {"type": "integer"}}],
    "optional-path": {"name": "pp", "in": "path", "required": False, "schema": {"type": "string"}},
}


def _pathitem_cases():
    """A path item with shared (possibly broken) parameters and several methods, each inheriting or re-declaring them:
    every operation is generated or named, whatever happens to its siblings."""
    methods = ("get", "put", "post", "delete")
    for sname, shared in SHARED_PARAMS.items():
      for flavour in (("plain", "with-warnings") if sname == "good" else ("plain",)):
        for modes in itertools.product(("inherits", "overrides", "other-location", "absent"), repeat=len(methods)):
            if modes.count("absent") > 2 or modes.count("other-location") > 1 or (modes.count("other-location") and sname not in ("good", "optional-path")):
                continue
            path = "/shared/{pp}" if sname == "optional-path" else "/shared"
            item = {"parameters": copy.deepcopy(shared if isinstance(shared, list) else [shared])}
            for m, mode in zip(methods, modes):
                if mode == "absent":
                    continue
                op = {"operationId": f"{m}Shared", "responses": {"200": {"description": "ok"}}}
                if flavour == "with-warnings":      # statuses / media types that are left out with a warning
                    op["responses"].update({"default": {"description": "d"}, "5XX": {"description": "e"}})
                    if m in ("put", "post"):
                        op["requestBody"] = {"content": {"application/json": {"schema": {"type": "object", "properties": {"a": {"type": "string"}}}},
                                                         "application/xml": {"schema": {"type": "string"}}, "text/csv": {"schema": {"type": "string"}}}}
                if mode == "other-location":      # the operation declares the SAME NAME in another location: both stay
                    op["parameters"] = [{"name": "q", "in": "header", "schema": {"type": "string"}}] if sname != "optional-path" else [{"name": "pp", "in": "query", "schema": {"type": "string"}}]
                if mode == "overrides":      # a valid operation-level parameter with the same name and location
                    op["parameters"] = [{"name": "pp", "in": "path", "required": True, "schema": {"type": "string"}}] if sname == "optional-path" else \
                        [{"name": "q", "in": "query", "schema": {"type": "boolean"}}]
                item[m] = op
            yield {"labels": [f"shared-param={sname}", "ops=" + ",".join(f"{m}:{md}" for m, md in zip(methods, modes) if md != "absent")] + ([flavour] if flavour != "plain" else []),
                   "payload": {"doc": gen.base_doc(None, paths={path: item}), "key": f"path-item/{sname}" + ("/warnings" if flavour != "plain" else "")}}


def _dependant_chain_cases():
    """A broken schema, a dependant and a dependant of the dependant that NO operation mentions: every one of the three is named by a
    diagnostic (or generated).  Names unrelated / each a prefix of the broken one's / each a suffix; every edge kind on both edges."""
    ref = lambda n: {"$ref": f"#/components/schemas/{n}"}  # noqa: E731
    namings = {"unrelated": ["Alpha", "Beta", "Gamma"], "prefixes": ["UserGroupSet", "UserGroup", "User"], "suffixes": ["UserGroupSet", "GroupSet", "Set"]}
    edges = ("prop", "items", "allOf", "union", "addl")

    def dependant(on, how):
        s_ = {"type": "object", "properties": {"v": {"type": "integer"}}}
        if how == "prop":
            s_["properties"]["link"] = ref(on)
        elif how == "items":
            s_["properties"]["links"] = {"type": "array", "items": ref(on)}
        elif how == "union":
            s_["properties"]["either"] = {"oneOf": [ref(on), {"type": "integer"}]}
        elif how == "addl":
            s_["additionalProperties"] = ref(on)
        else:
            s_ = {"allOf": [ref(on), {"type": "object", "properties": {"own": {"type": "string"}}}]}
        return s_
    for nname, names in namings.items():
        for brk in [b for b in BREAKS if b != "none"]:
            for e1, e2 in itertools.product(edges, edges):
                for order in ("root-first", "root-last"):
                    root = {"type": "object", "properties": {"v": {"type": "integer"}, "bad": copy.deepcopy(BREAKS[brk])}}
                    comps = {names[0]: root, names[1]: dependant(names[0], e1), names[2]: dependant(names[1], e2)}
                    if order == "root-last":
                        comps = {k: comps[k] for k in reversed(list(comps))}
                    comps["Unrelated"] = {"type": "object", "properties": {"u": {"type": "string"}}}
                    paths = {"/u": {"get": _op("getU", None, "/u", responses={"200": {"description": "d", "content": {"application/json": {"schema": ref("Unrelated")}}}})}}
                    yield {"labels": [f"dependant-chain={nname}", f"broken={brk}", f"edges={e1},{e2}", order],
                           "payload": {"doc": gen.base_doc(comps, paths=paths), "key": f"dependant-chain/{nname}"}}


# inline schemas nested in inline schemas whose derived class names coincide: every inline object / enum is a document item of its own
INLINE_WHERE = ("response", "body", "query-parameter", "component-property", "array-items")
INLINE_ROUTES = {  # how the inner schema comes to derive the outer one's class name: (inner property name, title of outer, title of inner, options)
    "empty-name:_": ("_", None, None, {}), "empty-name:-": ("-", None, None, {}), "empty-name:$": ("$", None, None, {}),
    "same-titles/no-path-prefix": ("child", "Tree Node", "TreeNode", {"use_path_prefixes_for_title_model_names": False}),
    "same-titles/default": ("child", "Tree Node", "TreeNode", {}),
    "distinct-names": ("child", None, None, {}),
}


def _inline_cases():
    for where in INLINE_WHERE:
        for route in INLINE_ROUTES:
            for inner_kind in ("object", "enum"):
                yield {"labels": [f"inline-nesting={where}", f"route={route}", f"inner={inner_kind}"],
                       "payload": {"mode": "inline-census", "where": where, "route": route, "inner": inner_kind}}


def _run_inline(p):
    import ast
    pname, t_outer, t_inner, options = INLINE_ROUTES[p["route"]]
    inner = {"type": "object", "properties": {"mk_inner": {"type": "string"}}} if p["inner"] == "object" else {"type": "string", "enum": ["mk_inner_a", "mk_inner_b"]}
    outer = {"type": "object", "properties": {"mk_outer": {"type": "integer"}, pname: inner}}
    if t_outer:
        outer["title"], inner["title"] = t_outer, t_inner
    ok = {"200": {"description": "d"}}
    comps, paths = None, {}
    where = p["where"]
    if where == "response":
        paths = {"/x": {"get": {"operationId": "theOp", "responses": {"200": {"description": "d", "content": {"application/json": {"schema": outer}}}}}}}
    elif where == "body":
        paths = {"/x": {"post": {"operationId": "theOp", "requestBody": {"required": True, "content": {"application/json": {"schema": outer}}}, "responses": ok}}}
    elif where == "query-parameter":
        paths = {"/x": {"get": {"operationId": "theOp", "parameters": [{"name": "filter", "in": "query", "schema": outer}], "responses": ok}}}
    elif where == "component-property":
        comps = {"Holder": {"type": "object", "properties": {"held": outer}}}
    else:
        comps = {"Holder": {"type": "object", "properties": {"rows": {"type": "array", "items": outer}}}}
    res = gen.generate(gen.base_doc(comps, paths=paths), **options)
    if res.crash:
        return {"skipped_crash": True, "outcome": f"crash:{res.crash['type']}@{res.crash['where']}", "nontrivial": False}
    if res.rejected:
        return {"outcome": "rejected", "nontrivial": False}
    viol = []
    key = f"inline-census/{where}/{p['route'].split(':')[0]}/{p['inner']}"
    if not res.diags:
        found = {"mk_outer": False, "mk_inner": False}
        for k, b in res.pkg_tree().items():
            if not k.startswith("models/") or k.endswith("__init__.py"):
                continue
            for node in ast.parse(b).body:
                if not isinstance(node, ast.ClassDef):
                    continue
                names = {st.target.id for st in node.body if isinstance(st, ast.AnnAssign) and isinstance(st.target, ast.Name)}
                consts = {st.value.value for st in node.body if isinstance(st, ast.Assign) and isinstance(st.value, ast.Constant)}
                if "mk_outer" in names:
                    found["mk_outer"] = True
                if "mk_inner" in names or "mk_inner_a" in consts:
                    found["mk_inner"] = True
            if b"mk_inner_a" in b and b"Literal[" in b:
                found["mk_inner"] = True
        missing = [n for n, ok_ in found.items() if not ok_]
        if missing:
            viol.append({"oracle": "inline-schema-lost", "site": where, "key": key,
                         "detail": f"inline {'object' if p['inner'] == 'object' else 'enumeration'} under property {pname!r} (route {p['route']}): no generated class holds {missing} and there is no diagnostic; "
                                   f"model modules: {sorted(k for k in res.pkg_tree() if k.startswith('models/'))}"})
    return {"violations": viol, "outcome": "ok" if not viol else "viol:inline-schema-lost", "nontrivial": True, "steps": 1}


def cases(tier):
    yield from _inline_cases()
    yield from _wrapper_cases()
    yield from _dependant_chain_cases()
    yield from _op_pairs()
    yield from _schema_pairs()
    yield from _media_sets()
    yield from _pathitem_cases()
    bound = 2 if tier == "quick" else 3
    for labels, payload, _d in explore(_build, bound=bound, limit=6000 if tier == "quick" else 120000):
        yield {"labels": labels, "payload": payload}
        # the same document with every operation placed under all of its tags (diagnostics are collected per tag)
        yield {"labels": labels + ["generate_all_tags"], "payload": dict(payload, options={"generate_all_tags": True})}
    cases.info = {"bounds": {"builder_deviations": bound}, "cap_hit": explore.stats["cap_hit"]}


# ------------------------------------------------------------------------------------------------- census

def _dummy(ann):
    origin = typing.get_origin(ann)
    if origin is typing.Union:
        for a in typing.get_args(ann):
            if getattr(a, "__name__", "") != "Unset" and a is not type(None):
                return _dummy(a)
    if origin in (list,):
        return []
    if ann is int:
        return 1
    if ann is float:
        return 1.5
    if ann is bool:
        return True
    if isinstance(ann, type) and hasattr(ann, "from_dict"):
        sig = inspect.signature(ann)
        kw = {}
        hints = pyval.hints(ann)
        for n, prm in sig.parameters.items():
            if prm.default is inspect.Parameter.empty:
                kw[n] = _dummy(hints.get(n, str))
        return ann(**kw)
    if isinstance(ann, type) and ann.__name__ == "File":
        import io
        return ann(payload=io.BytesIO(b"x"))
    import enum
    if isinstance(ann, type) and issubclass(ann, enum.Enum):
        return list(ann)[0]
    return "v"


def _names(text, name):
    """The diagnostics name a schema when its name occurs as a whole token (UserGroup does not name User)."""
    return re.search(r"(?<![A-Za-z0-9_])" + re.escape(name) + r"(?![A-Za-z0-9_])", text) is not None


def _tmpl_regex(path):
    return re.compile("^" + re.sub(r"\\\{[^}]*\\\}", "[^/]+", re.escape(path)) + "$")


def run_case(p):
    if p.get("mode") == "inline-census":
        return _run_inline(p)
    doc = p["doc"]
    res = gen.generate(doc, **p.get("options", {}))
    if res.crash:
        return {"skipped_crash": True, "outcome": f"crash:{res.crash['type']}@{res.crash['where']}", "nontrivial": False}
    if res.rejected:
        return {"outcome": "rejected", "nontrivial": False}
    viol = []
    key = p["key"]
    pkg = res.pkg_tree()
    diag = res.diag_text()
    # ---- operations
    doc_ops = [(m.upper(), path, op) for path, item in doc.get("paths", {}).items() for m, op in item.items() if m in ("get", "post", "put", "delete", "patch", "options", "head", "trace")]
    on_disk = sorted(k for k in pkg if k.startswith("api/") and k.count("/") == 2 and not k.endswith("__init__.py"))
    served = {}      # (method, path) -> set of module files
    steps = 1
    with Sandbox(pkg) as sb:
        for f in on_disk:
            rel = f[:-3].replace("/", ".")
            try:
                mod = sb.mod(rel)
            except Exception:  # import problems belong to C01  # noqa: BLE001
                continue
            fn = getattr(mod, "sync_detailed", None)
            if fn is None:
                continue
            hints = pyval.hints(fn)
            kwargs = {}
            for n, prm in inspect.signature(fn).parameters.items():
                if n != "client" and prm.default is inspect.Parameter.empty:
                    kwargs[n] = _dummy(hints.get(n, str))
            cap = wire.Capture(lambda request: __import__("httpx").Response(418))
            r = wire.call(mod, "sync_detailed", lambda: wire.make_client(sb, cap), cap, kwargs)
            steps += 1
            if r and not r["requests"]:
                # the call failed before sending (C03's business): fall back to the generator's own claim for this module
                for e in res.endpoints:
                    if f == f"api/{e['tag']}/{e['module']}.py":
                        for m, path, _op in doc_ops:
                            if m == e["method"].upper() and _tmpl_regex(path).match(re.sub(r"\{[^}]*\}", "X", e["path"])):
                                served.setdefault((m, path), set()).add(f)
            if r and r["requests"]:
                q = r["requests"][0]
                import urllib.parse
                got = urllib.parse.unquote(q["path"])
                for m, path, _op in doc_ops:
                    if m == q["method"] and _tmpl_regex(path).match(got):
                        served.setdefault((m, path), set()).add(f)
        # ---- parameters: every parameter an operation or its path item declares is offered by the generated function or named
        comp_params = (doc.get("components", {}) or {}).get("parameters") or {}

        def _resolve(prm):
            hops = 0
            while isinstance(prm, dict) and "$ref" in prm and hops < 5:
                ref_ = prm["$ref"]
                prm = comp_params.get(ref_.rsplit("/", 1)[-1]) if isinstance(ref_, str) and ref_.startswith("#/components/parameters/") else None
                hops += 1
            return prm if isinstance(prm, dict) and isinstance(prm.get("name"), str) and prm.get("in") in ("query", "header", "cookie", "path") else None
        for m, path, op in doc_ops:
            files = served.get((m, path)) or set()
            if len(files) != 1 or not isinstance(op, dict):
                continue
            f = next(iter(files))
            e = next((x for x in res.endpoints if f == f"api/{x['tag']}/{x['module']}.py" and x["method"].upper() == m), None)
            if e is None:
                continue
            declared = {}
            for level, lst in (("path-item", (doc["paths"][path].get("parameters") or [])), ("operation", (op.get("parameters") or []))):
                for prm in lst if isinstance(lst, list) else []:
                    r_ = _resolve(prm)
                    if r_ is not None:
                        declared[(r_["name"], r_["in"])] = (level, r_)
            offered = {(q_["name"], loc) for loc in ("path", "query", "header", "cookie") for q_ in e[f"{loc}_params"]}
            for (pname, loc), (level, r_) in declared.items():
                if (pname, loc) in offered or _names(diag, pname):
                    continue
                flavour = "no-schema" if "schema" not in r_ else ("also-declared-elsewhere" if sum(1 for (n2, _l2) in declared if n2 == pname) > 1 else "plain")
                viol.append({"oracle": "census-parameter", "site": loc, "key": f"{key}/{level}/{flavour}",
                             "detail": f"{m} {path}: the {level}-level {loc} parameter {pname!r} is neither offered by {f} ({sorted(offered)}) nor named in a diagnostic"})
        # ---- schemas (inside the sandbox: classes must import)
        claims = {}
        for kind, lst in (("model", res.models), ("enum", res.enums)):
            for c in lst:
                claims.setdefault(c["name"], []).append((kind, c))
        mods_used, classes_used = {}, {}
        for name, lst in claims.items():
            for kind, c in lst:
                mods_used.setdefault(c["module"], []).append(name)
                classes_used.setdefault(c["class"], []).append(name)
        for sname, sch in (doc.get("components", {}).get("schemas") or {}).items():
            is_obj = isinstance(sch, dict) and (sch.get("type") == "object" or "allOf" in sch or "properties" in sch)
            is_enum = isinstance(sch, dict) and "enum" in sch
            if not (is_obj or is_enum):
                continue
            if p.get("alias_ok") and sname == "Wrapped":
                continue        # a wrapper that adds nothing IS the referenced schema: it shares that class
            refname = f"/components/schemas/{sname}"
            named = _names(diag, sname)
            got = claims.get(refname)
            if not got:
                # a schema used as a multipart body is re-registered by the generator under the body's name: find it by class name
                norm = lambda t: "".join(ch for ch in t if ch.isalnum()).lower()  # noqa: E731
                alt = [(kind, c) for lst in claims.values() for kind, c in lst if norm(c["class"]) == norm(sname) and not c["name"].startswith("/components/")]
                if len(alt) == 1:
                    got = alt
            ok = False
            if got:
                kind, c = got[0]
                try:
                    m = sb.mod(f"models.{c['module']}")
                    cls = getattr(m, c["class"], None)
                    ok = isinstance(cls, type) or (kind == "enum" and cls is not None)
                    if ok and kind == "enum" and isinstance(cls, type):
                        import enum
                        if issubclass(cls, enum.Enum):
                            want = [v for v in sch["enum"] if v is not None]
                            ok = sorted(map(str, (e.value for e in cls))) == sorted(map(str, want))
                    if ok and kind == "model" and is_obj and "properties" in sch:
                        ann = getattr(cls, "__annotations__", {})
                        ok = len([a for a in ann if a != "additional_properties"]) >= len(sch["properties"])
                except Exception:  # noqa: BLE001
                    ok = False
                shared_mod = len(set(mods_used[c["module"]])) > 1
                shared_cls = len(set(classes_used[c["class"]])) > 1
                if shared_mod or shared_cls:
                    if not named:
                        why = "class-collision" if shared_cls else "module-collision"
                        viol.append({"oracle": "census-schema", "site": "models", "key": f"{key}/{why}",
                                     "detail": f"schema {sname!r} shares module {c['module']!r} / class {c['class']!r} with {sorted(set(mods_used[c['module']]) | set(classes_used[c['class']]))}"})
                    continue
            if not ok and not named:
                why = "no-class-no-diagnostic"
                if is_enum and not got:
                    all_s = doc["components"]["schemas"]
                    twins = [o for o, osch in all_s.items() if o != sname and isinstance(osch, dict) and osch.get("enum") == sch.get("enum")
                             and f"/components/schemas/{o}" in claims]
                    if twins:
                        why = "identical-enum-collapsed"
                viol.append({"oracle": "census-schema", "site": "models", "key": f"{key}/{why}",
                             "detail": f"component schema {sname!r} ({'object' if is_obj else 'enum'}) has neither a class of its own nor a diagnostic naming it"})
    # operations verdict
    by_module = {}
    for (m, path), files in served.items():
        for f in files:
            by_module.setdefault(f, []).append((m, path))
    for m, path, op in doc_ops:
        files = served.get((m, path), set())
        exclusive = [f for f in files if len(by_module[f]) == 1 or all(x == (m, path) for x in by_module[f])]
        named = m in diag and path in diag
        if not files and not named:
            why = "overwritten-module" if len(on_disk) < len(res.endpoints) else "no-function-no-diagnostic"
            viol.append({"oracle": "census-operation", "site": "api", "key": f"{key}/{why}",
                         "detail": f"operation {m} {path} (id {op.get('operationId')!r}) is served by no generated module and named by no diagnostic"})
        elif files and not exclusive and not named:
            viol.append({"oracle": "census-operation", "site": "api", "key": f"{key}/collapsed",
                         "detail": f"operation {m} {path} shares its only module {sorted(files)} with another operation"})
    n_claimed = len(res.endpoints)
    if len(on_disk) != n_claimed and not any("collapsed" in v["key"] or "no-function" in v["key"] or "overwritten" in v["key"] for v in viol):
        viol.append({"oracle": "census-count", "site": "api", "key": f"{key}/modules-vs-endpoints",
                     "detail": f"{len(on_disk)} endpoint modules on disk for {n_claimed} endpoints parsed: {on_disk}"})
    # ---- statuses and request media types of generated operations
    for m, path, op in doc_ops:
        files = served.get((m, path), set())
        if not files:
            continue
        src = pkg[sorted(files)[0]].decode("utf-8", "replace")
        for code in op.get("responses", {}):
            handled = re.search(rf"status_code == {re.escape(str(code))}\b", src) is not None if str(code).isdigit() else False
            if not handled and str(code) not in diag:
                viol.append({"oracle": "census-response", "site": "api", "key": f"{key}/status-{'numeric' if str(code).isdigit() else code}",
                             "detail": f"{m} {path}: documented status {code!r} is neither handled nor named in a warning"})
        body = op.get("requestBody") or {}
        if "$ref" in body:
            body = (doc.get("components", {}).get("requestBodies") or {}).get(body["$ref"].split("/")[-1]) or {}
        ep = next((e for e in res.endpoints if f"api/{e['tag']}/{e['module']}.py" in files), None)
        for media in (body.get("content") or {}):
            handled = ep is not None and any(b["content_type"] == media for b in ep["bodies"])
            op_warned = any(m in d.text() and path in d.text() for d in res.diags)      # weakest reading: a warning about this operation
            if not handled and media not in diag and not op_warned:
                viol.append({"oracle": "census-media", "site": "api", "key": f"{key}/{media}",
                             "detail": f"{m} {path}: request media type {media!r} is neither handled nor named in a warning"})
    seen, uniq = set(), []
    for v in viol:
        k = (v["oracle"], v["site"], v["key"], v["detail"])
        if k not in seen:
            seen.add(k)
            uniq.append(v)
    return {"violations": uniq, "outcome": ("ok" if not uniq else "viol:" + ",".join(sorted({v['oracle'] for v in uniq}))) + ("+diag" if res.diags else ""),
            "nontrivial": True, "steps": steps}
