"""C04 — responses are decoded per documented status and media type (DESIGN §C04)."""
from __future__ import annotations

import copy
import datetime
import enum
import json
import uuid

import httpx

from specmc import gen, wire
from specmc.refmodels import kinds as K
from specmc.sandbox import Sandbox

ID = "C04"
LEVEL = "model_checking"
RULE = ("response tables: full product status x media type x schema kind for single-response operations, a pair matrix for "
        "two responses (incl. default/2XX/invalid keys), component-response references, one reusable response under several statuses of an operation, references carrying their own description/summary; inputs: for every documented status "
        "each RM-inst body, undocumented statuses (JSON, non-UTF-8 and empty bodies) x raise_on_unexpected_status x the four call variants; non-trivial = the "
        "operation was generated and at least one documented response was decoded; unions whose members interact (closed models sharing a key, primitive before constructed member), free-form and numeric text/* schemas next to typed ones, an undocumented status outside http.HTTPStatus, raw reply headers under any casing and repeated fields; responses documenting several media types where the unsupported entry carries another schema or none")
FLOOR = 0.5
ASSUMPTIONS = ["httpx.Response decoding (json(), text, content) is trusted",
               "text/*: raw text or schema-decoded text accepted; octet-stream: file object or bytes accepted; empty-schema JSON: value or None accepted"]

STATUSES = [200, 201, 204, 404, 500]
# bodies of responses with an undocumented status: JSON, bytes that are not UTF-8 (a proxy's latin-1 / binary error page), nothing
UNDOC_BODIES = [(b'{"unexpected": true}', "application/json", "json"), (b"caf\xe9 \xff\xfe\x00 page", "text/html; charset=latin-1", "non-utf8"), (b"", None, "empty")]
MEDIAS = ["application/json", "application/vnd.x+json", "application/json; charset=utf-8", "text/plain", "text/html",
          "application/octet-stream", "none", "xml-then-json", "component-ref", "component-ref-described",
          # several media types in one response, the unsupported one carrying ANOTHER schema (or none): the supported entry decides
          "xmlstr-then-json", "yamlbare-then-json", "json-then-xmlstr", "yamlother-then-text"]
MULTI = {"xmlstr-then-json": ("application/json", [("application/xml", {"schema": {"type": "string"}}), ("application/json", None)]),
         "yamlbare-then-json": ("application/json", [("application/x-yaml", {}), ("application/json", None)]),
         "json-then-xmlstr": ("application/json", [("application/json", None), ("application/xml", {"schema": {"type": "string"}})]),
         "yamlother-then-text": ("text/plain", [("application/x-yaml", {"schema": {"type": "object", "required": ["zz"], "properties": {"zz": {"type": "integer"}}}}), ("text/plain", None)])}
RKINDS = ["model_ref", ["array", "model_ref"], "str", "int", "num", "bool", "date", "datetime", "uuid", "enum_str", "enum_int",
          ["union", "model_ref", "model2"], ["union", "int", "str"], "inline_object", "any", "no-schema", ["array", "int"],
          ["array", "date"], ["nullable", "model_ref", "oneof"], "file", "null",
          # unions whose members interact: closed models sharing a required key (the reply matches the LATER member), primitive members listed
          # before a constructed member that comes last, and the reverse
          "closed-cat-or-dog", "str-then-model", "model-then-str", "int-then-array-model", "int-then-date"]


SPECIAL = {
    "closed-cat-or-dog": (lambda c: (c.setdefault("Cat", {"type": "object", "additionalProperties": False, "required": ["id", "meow"], "properties": {"id": {"type": "integer"}, "meow": {"type": "string"}}}),
                                     c.setdefault("Dog", {"type": "object", "additionalProperties": False, "required": ["id", "bark"], "properties": {"id": {"type": "integer"}, "bark": {"type": "string"}}}),
                                     {"oneOf": [{"$ref": "#/components/schemas/Cat"}, {"$ref": "#/components/schemas/Dog"}]})[2],
                          [("branch0", {"id": 1, "meow": "m"}), ("branch1", {"id": 2, "bark": "w"})]),
    "str-then-model": (lambda c: {"oneOf": [{"type": "string"}, K.schema("model_ref", c)]}, [("branch0", "just a label"), ("branch1", {"z": 1})]),
    "model-then-str": (lambda c: {"oneOf": [K.schema("model_ref", c), {"type": "string"}]}, [("branch0", {"z": 1}), ("branch1", "just a label")]),
    "int-then-array-model": (lambda c: {"oneOf": [{"type": "integer"}, {"type": "array", "items": K.schema("model_ref", c)}]}, [("branch0", 7), ("branch1", [{"z": 1}])]),
    "int-then-date": (lambda c: {"anyOf": [{"type": "integer"}, {"type": "string", "format": "date"}]}, [("branch0", 7), ("branch1", "2020-01-02")]),
}


def _schema(kind, comps):
    if isinstance(kind, str) and kind in SPECIAL:
        return SPECIAL[kind][0](comps)
    if kind == "no-schema":
        return None
    if kind == "model2":
        comps.setdefault("Other", {"type": "object", "required": ["name"], "properties": {"name": {"type": "string"}}, "additionalProperties": False})
        return {"$ref": "#/components/schemas/Other"}
    if isinstance(kind, list) and kind[0] == "union" and "model2" in kind:
        return {"oneOf": [_schema(k, comps) for k in kind[1:]]}
    return K.schema(kind, comps)


def _samples(kind):
    if isinstance(kind, str) and kind in SPECIAL:
        return SPECIAL[kind][1]
    if kind == "no-schema":
        return [("value", {"x": 1})]
    if kind == "file":
        return [("value", "BYTES:\x00\x01raw")]
    if kind == "model2":
        return [("value", {"name": "n"})]
    if isinstance(kind, list) and kind[0] == "union" and "model2" in kind:
        return [("branch0", {"z": 1}), ("branch1", {"name": "n"})]
    return K.samples(kind)[:3]


def kname(kind):
    if isinstance(kind, list) and kind[0] == "union" and "model2" in kind:
        return "union(model_ref,model2)"
    return kind if isinstance(kind, str) and (kind in ("no-schema", "file", "model2") or kind in SPECIAL) else K.kstr(kind)


def _response_obj(media, kind, comps, components_responses, name="R"):
    if media == "none":
        return {"description": "d"}
    if media == "none-empty-content":            # COUNT zero: a content map without any media type is a response without a body
        return {"description": "d", "content": {}}
    if media == "none-empty-content-ref":
        components_responses[name] = {"description": "d", "content": {}}
        return {"$ref": f"#/components/responses/{name}"}
    sch = _schema(kind, comps)
    mt = {} if sch is None else {"schema": sch}
    if media == "xml-then-json":
        return {"description": "d", "content": {"application/xml": copy.deepcopy(mt), "application/json": mt}}
    if media in MULTI:
        return {"description": "d", "content": {m: (copy.deepcopy(other) if other is not None else mt) for m, other in MULTI[media][1]}}
    if media.startswith("component-ref"):
        name = media.partition(":")[2] or name        # "component-ref:<name>": several statuses share ONE reusable response
        components_responses[name] = {"description": "d", "content": {"application/json": mt}}
        if media == "component-ref-described":        # 3.1: a Reference Object may carry its own summary / description
            return {"$ref": f"#/components/responses/{name}", "description": "described at the point of use", "summary": "s"}
        return {"$ref": f"#/components/responses/{name}"}
    return {"description": "d", "content": {media: mt}}


def _eff_media(media):
    if media in MULTI:
        return MULTI[media][0]
    return "application/json" if media == "xml-then-json" or media.startswith("component-ref") else media


def _mk(table, labels, key):
    """table: [(status key, media, kind)]"""
    comps, cresp = {}, {}
    responses, spec = {}, []
    for i, (status, media, kind) in enumerate(table):
        responses[str(status)] = _response_obj(media, kind, comps, cresp, name=f"R{i}")
        if media.startswith("none-"):
            media = "none"
        spec.append({"status": status, "media": media, "kind": kind, "samples": [] if media == "none" else [list(x) for x in _samples(kind)]})
    doc = gen.base_doc(comps or None, paths={"/r": {"get": {"operationId": "getR", "responses": responses}}})
    if cresp:
        doc.setdefault("components", {})["responses"] = cresp
    return {"labels": labels, "payload": {"doc": doc, "table": spec, "key": key}}


def cases(tier):
    for status in STATUSES:
        for media in MEDIAS:
            kinds = ["no-schema"] if media == "none" else RKINDS
            for kind in kinds:
                if kind == "file" and media not in ("application/octet-stream",):
                    continue
                if media == "yamlother-then-text" and kind != "str":
                    continue      # text/* with anything but a string schema is a recorded finding of its own
                if isinstance(kind, str) and kind in SPECIAL and not _eff_media(media).startswith("application/json") and "+json" not in media:
                    continue      # member-interaction unions: JSON only (text / binary with constructed schemas is a recorded finding)
                if status in (204,) and media != "none" and tier == "quick" and kind not in ("model_ref", "str"):
                    continue
                if tier == "quick" and status in (201, 500) and media not in ("application/json", "none", "text/plain", "application/octet-stream"):
                    continue
                yield _mk([(status, media, kind)], [f"status={status}", f"media={media}", f"kind={kname(kind)}"],
                          f"{media}/{kname(kind)}")
    # two responses
    firsts = [(200, "application/json", "model_ref"), (200, "application/json", ["array", "model_ref"]), (200, "none", "no-schema"), (200, "none-empty-content", "no-schema"),
              (201, "text/plain", "str"), (200, "application/octet-stream", "file"), (200, "application/json", "date"),
              (200, "application/json", "any"), (200, "application/json", "no-schema"),
              (200, "text/plain", "int"), (200, "text/plain", "num"), (200, "text/html", "bool"),
              # a download typed as text / JSON whose schema is binary, declared BEFORE ordinary text / JSON responses
              (200, "text/csv", "file"), (200, "application/json", "file")]
    seconds = [(404, "application/json", "model2"), (404, "application/json", "model_ref"), (404, "none", "no-schema"),
               (204, "none-empty-content", "no-schema"), (404, "none-empty-content-ref", "no-schema"),
               (500, "text/plain", "str"), (204, "none", "no-schema"), ("default", "application/json", "model2"),
               ("2XX", "application/json", "model2"), ("abc", "application/json", "model2"), (404, "application/xml", "model2"),
               (404, "application/json", "enum_str"), (404, "application/json", ["array", "int"]), (404, "text/html", "str"), (201, "text/plain", "int")]
    for a in firsts:
        for b in seconds:
            yield _mk([a, b], [f"r1={a[0]}:{a[1]}:{kname(a[2])}", f"r2={b[0]}:{b[1]}:{kname(b[2])}"],
                      f"two[{a[1]}/{kname(a[2])}+{b[1]}/{kname(b[2])}]")
            if tier == "thorough":
                yield _mk([b, a], [f"r1={b[0]}:{b[1]}:{kname(b[2])}", f"r2={a[0]}:{a[1]}:{kname(a[2])}"],
                          f"two[{b[1]}/{kname(b[2])}+{a[1]}/{kname(a[2])}]")


    # one reusable response documented under several statuses of the same operation
    for kind in ("model2", "model_ref", ["array", "model_ref"], "str", "enum_str", "date"):
        for statuses in ((400, 404), (400, 404, 409), (200, 201), ("default", 404), (404, "default")):
            shared = [(st, "component-ref:Problem", kind) for st in statuses]
            for lead in ([], [(200, "application/json", "model_ref")], [(204, "none", "no-schema")]):
                if any(x[0] == st for x in lead for st in statuses):
                    continue
                table = lead + shared
                yield _mk(table, [f"shared-response={kname(kind)}", "statuses=" + ",".join(str(x[0]) for x in table)],
                          f"shared[{kname(kind)}x{len(statuses)}]")
            # ... and the other way round: one status between two uses
            yield _mk([shared[0], (302, "none", "no-schema")] + shared[1:], [f"shared-response={kname(kind)}", "interleaved", "statuses=" + ",".join(map(str, statuses))],
                      f"shared[{kname(kind)}x{len(statuses)}]")


# ------------------------------------------------------------------------------------------------- oracle

def reencode(v):
    """Back from a parsed Python value to JSON (reference encoding)."""
    if hasattr(v, "to_dict") and not isinstance(v, dict):
        return v.to_dict()
    if isinstance(v, list):
        return [reencode(x) for x in v]
    if isinstance(v, enum.Enum):
        return v.value
    if isinstance(v, (datetime.date, datetime.datetime)):
        return v.isoformat()
    if isinstance(v, uuid.UUID):
        return str(v)
    return v


def _type_ok(kind, parsed, body):
    """'JSON into the model, list or scalar type': the parsed value has the Python shape of the schema kind."""
    if body is None:
        return parsed is None
    if isinstance(kind, str) and kind in SPECIAL:
        # the decoded value is a model instance exactly when the body is an object
        if isinstance(body, dict):
            return hasattr(parsed, "to_dict") and not isinstance(parsed, dict)
        if isinstance(body, list):
            return isinstance(parsed, list) and all(hasattr(x, "to_dict") for x in parsed)
        return not hasattr(parsed, "to_dict")
    if kind in ("model_ref", "inline_object", "model2"):
        return hasattr(parsed, "to_dict") and not isinstance(parsed, dict)
    if isinstance(kind, list):
        if kind[0] == "array":
            return isinstance(parsed, list) and all(_type_ok(kind[1], p, b) for p, b in zip(parsed, body))
        if kind[0] == "union":
            return any(_type_ok(k, parsed, body) for k in kind[1:])
        if kind[0] == "nullable":
            return _type_ok(kind[1], parsed, body)
    if kind == "date":
        return isinstance(parsed, datetime.date) and not isinstance(parsed, datetime.datetime)
    if kind == "datetime":
        return isinstance(parsed, datetime.datetime)
    if kind == "uuid":
        return isinstance(parsed, uuid.UUID)
    if kind in ("enum_str", "enum_int", "enum_ref"):
        return isinstance(parsed, (enum.Enum, str, int))
    if kind == "str":
        return type(parsed) is str
    if kind == "int":
        return type(parsed) is int
    if kind == "num":
        return type(parsed) in (int, float)
    if kind == "bool":
        return type(parsed) is bool
    return True


def _body_bytes(media, kind, value):
    em = _eff_media(media)
    if isinstance(value, str) and value.startswith("BYTES:"):
        return value[6:].encode("latin-1")
    if em.startswith("text/") or em == "application/octet-stream":
        if isinstance(value, str):
            return value.encode()
        return json.dumps(value).encode()
    return json.dumps(value).encode()


def _check_parsed(spec, value, parsed, key, icls, all_untyped=True):
    media, kind = _eff_media(spec["media"]), spec["kind"]
    site = media.split(";")[0]
    k = f"{key}/{spec['status']}/{icls}"
    raw = _body_bytes(spec["media"], kind, value)
    if kind == "no-schema" and parsed is None:
        return []          # a media type entry WITHOUT a schema may decode to nothing (the repository's own tests pin that)
    if kind == "any" and parsed is None and (all_untyped or not site.startswith("application/json") and "+json" not in site):
        # latitude: when NO response of the operation has a typed schema the generated function has nothing to parse and may
        # return nothing; next to a typed response an untyped JSON response is decoded like any other (the JSON value comes back)
        return []
    if spec["media"] == "none":
        if parsed is not None:
            return [{"oracle": "parsed", "site": "none", "key": k, "detail": f"no-content response parsed to {parsed!r}"}]
        return []
    if kind == "file":
        # a binary schema: the bytes of the body come back (as bytes or as a file object), whatever the media type says
        payload = getattr(parsed, "payload", None)
        data = bytes(parsed) if isinstance(parsed, (bytes, bytearray)) else None
        if payload is not None and hasattr(payload, "read"):
            data = payload.read()
            payload.seek(0)
        if data == raw:
            return []
    if site.startswith("text/"):
        text = raw.decode()
        if parsed == text:
            return []
        if K.json_eq(reencode(parsed), value) and _type_ok(kind, parsed, value):
            return []
        return [{"oracle": "parsed", "site": site, "key": k, "detail": f"text body {text!r} parsed to {parsed!r}"}]
    if site == "application/octet-stream":
        if isinstance(parsed, (bytes, bytearray)) and bytes(parsed) == raw:
            return []
        payload = getattr(parsed, "payload", None)
        if payload is not None and hasattr(payload, "read"):
            data = payload.read()
            payload.seek(0)
            if data == raw:
                return []
        if kind not in ("file", "no-schema", "str", "any") and K.json_eq(reencode(parsed), value) and _type_ok(kind, parsed, value):
            return []
        return [{"oracle": "parsed", "site": site, "key": k, "detail": f"binary body {raw!r} parsed to {parsed!r}"}]
    # JSON
    if kind == "no-schema" or kind == "any":
        if parsed is None and kind == "no-schema":
            return []
        if K.json_eq(parsed, value):
            return []
        return [{"oracle": "parsed", "site": site, "key": k, "detail": f"JSON {value!r} parsed to {parsed!r}"}]
    try:
        back = reencode(parsed)
    except Exception as exc:  # noqa: BLE001
        return [{"oracle": "parsed", "site": site, "key": k, "detail": f"parsed value {parsed!r} cannot be re-encoded: {exc}"}]
    if not K.json_eq(back, value):
        return [{"oracle": "parsed", "site": site, "key": k, "detail": f"JSON {value!r} parsed to {parsed!r} (re-encodes to {back!r})"}]
    if not _type_ok(kind, parsed, value):
        return [{"oracle": "parsed-type", "site": site, "key": k, "detail": f"JSON {value!r} for kind {kname(kind)} parsed to {type(parsed).__name__} {parsed!r}"}]
    return []


def run_case(p):
    from checks.c02 import err_class
    res = gen.generate(p["doc"])
    if res.crash:
        return {"skipped_crash": True, "outcome": f"crash:{res.crash['type']}", "nontrivial": False}
    if res.rejected or not res.endpoints:
        return {"outcome": "no-endpoint", "nontrivial": False}
    ep = res.endpoints[0]
    key = p["key"]
    viol, steps, decoded = [], 1, 0
    diag = res.diag_text()
    with Sandbox(res.pkg_tree()) as sb:
        try:
            mod = wire.endpoint_module(sb, ep)
            errors_mod = sb.mod("errors")
        except Exception as exc:  # noqa: BLE001
            return {"outcome": f"import-fails:{type(exc).__name__}", "nontrivial": False}
        documented = {}
        # "typed" = a response the generator can decode into something: integer status, supported media type, non-empty schema
        all_untyped = all(s_["media"] == "none" or s_["kind"] in ("no-schema", "any") or not isinstance(s_["status"], int) or _eff_media(s_["media"]) == "application/xml"
                          for s_ in p["table"])
        for spec in p["table"]:
            st = spec["status"]
            if not isinstance(st, int):
                continue       # default / 2XX / invalid keys: must be diagnosed (C07), never decoded as a concrete status here
            if spec["media"] == "application/xml":
                continue       # unsupported media type only: must be diagnosed and is then undocumented for the client
            documented[st] = spec
        current = {}

        def responder(request):
            return httpx.Response(current["status"], content=current["content"], headers=current["headers"])

        cap = wire.Capture(responder)

        def run_all(status, content, ctype, raise_flag):
            current.update(status=status, content=content, headers=[("X-Extra", "v1"), ("Set-Cookie", "a=1"), ("Set-Cookie", "b=2")] + ([("Content-Type", ctype)] if ctype else []))
            out = {}
            for variant in wire.VARIANTS:
                r = wire.call(mod, variant, lambda: wire.make_client(sb, cap, raise_on_unexpected_status=raise_flag), cap, {})  # noqa: B023
                if r is not None:
                    out[variant] = r
            return out

        for st, spec in documented.items():
            samples = spec["samples"] or [["none", None]]
            for icls, value in samples:
                content = b"" if spec["media"] == "none" else _body_bytes(spec["media"], spec["kind"], value)
                ctype = None if spec["media"] == "none" else _eff_media(spec["media"])
                for raise_flag in (False, True):
                    outs = run_all(st, content, ctype, raise_flag)
                    steps += len(outs)
                    parsed_vals = {}
                    for variant, r in outs.items():
                        k = f"{key}/{st}/{icls}"
                        if not r["ok"]:
                            viol.append({"oracle": "call-raises", "site": _eff_media(spec["media"]).split(";")[0], "key": f"{k}/{err_class(r['exc'])}",
                                         "detail": f"{variant} on documented {st} with body {content[:80]!r} raised {type(r['exc']).__name__}: {r['exc']}"})
                            continue
                        val = r["value"]
                        if variant.endswith("detailed"):
                            if int(val.status_code) != st:
                                viol.append({"oracle": "status", "site": "-", "key": k, "detail": f"status_code {val.status_code!r} != {st}"})
                            if val.content != content:
                                viol.append({"oracle": "content", "site": "-", "key": k, "detail": f"content {val.content!r} != {content!r}"})
                            h = val.headers
                            try:      # the raw headers: found by the name the server used and by any other casing, repeated fields kept apart
                                ok_h = h.get("x-extra") == "v1" and h.get("X-Extra") == "v1" and h["X-EXTRA"] == "v1" and \
                                    sorted(h.get_list("set-cookie")) == ["a=1", "b=2"]
                            except Exception:  # noqa: BLE001
                                ok_h = False
                            if not ok_h:
                                viol.append({"oracle": "headers", "site": "-", "key": f"{key}/headers", "detail": f"headers are not the raw reply headers: {type(h).__name__} {dict(h)!r}"})
                            parsed = val.parsed
                        else:
                            parsed = val
                        parsed_vals[variant] = parsed
                        viol += _check_parsed(spec, value, parsed, key, icls, all_untyped)
                        decoded += 1
                    reprs = {v: repr(reencode(x)) if not hasattr(x, "payload") else "file" for v, x in parsed_vals.items()}
                    if len(set(reprs.values())) > 1:
                        viol.append({"oracle": "variants-differ", "site": "-", "key": f"{key}/{st}", "detail": str(reprs)[:500]})
        # undocumented statuses
        # one undocumented status of every class (a success, a redirect / not-modified, a client and a server error: the rule
        # "undocumented -> UnexpectedStatus or None" does not depend on the class) + 520, which http.HTTPStatus does not list
        undocumented = []
        for group in ((200, 202, 204), (304, 301), (418, 404), (500, 503)):
            undocumented += [s for s in group if s not in documented][:1]
        undocumented.append(520)
        has_plain = hasattr(mod, "sync")
        for st in undocumented:
            for raise_flag in (False, True):
                for ubody, uctype, uname in UNDOC_BODIES:
                    outs = run_all(st, ubody, uctype, raise_flag)
                    steps += len(outs)
                    for variant, r in outs.items():
                        k = f"{key}/undocumented/{'raise' if raise_flag else 'quiet'}" + (f"/{uname}" if uname != "json" else "")
                        if st == 520:
                            k = f"non-standard-status/{'raise' if raise_flag else 'quiet'}"
                        if raise_flag:
                            exc = r.get("exc")
                            if r["ok"] or type(exc).__name__ != "UnexpectedStatus" or not isinstance(exc, errors_mod.UnexpectedStatus):
                                viol.append({"oracle": "undocumented", "site": variant.split("_")[0], "key": k,
                                             "detail": f"{variant} on undocumented {st} with raise_on_unexpected_status: " + (f"returned {r.get('value')!r}" if r["ok"] else f"raised {exc!r}")})
                            elif getattr(exc, "status_code", None) != st or getattr(exc, "content", None) != ubody:
                                viol.append({"oracle": "undocumented", "site": variant.split("_")[0], "key": k + "/payload",
                                             "detail": f"UnexpectedStatus carries {getattr(exc, 'status_code', None)!r} / {getattr(exc, 'content', None)!r}"})
                        else:
                            if not r["ok"]:
                                viol.append({"oracle": "undocumented", "site": variant.split("_")[0], "key": k + f"/{err_class(r['exc'])}",
                                             "detail": f"{variant} on undocumented {st} raised {r['exc']!r}"})
                            else:
                                val = r["value"]
                                parsed = val.parsed if variant.endswith("detailed") else val
                                if parsed is not None:
                                    viol.append({"oracle": "undocumented", "site": variant.split("_")[0], "key": k, "detail": f"{variant} on undocumented {st} parsed {parsed!r}"})
                                if variant.endswith("detailed") and (int(val.status_code) != st or val.content != ubody):
                                    viol.append({"oracle": "undocumented", "site": variant.split("_")[0], "key": k + "/raw", "detail": f"raw status/content not echoed: {val!r}"})
        _ = has_plain
    seen, uniq = set(), []
    for v in viol:
        kk = (v["oracle"], v["site"], v["key"])
        if kk not in seen:
            seen.add(kk)
            uniq.append(v)
    return {"violations": uniq, "outcome": "ok" if not uniq else "viol:" + ",".join(sorted({v['oracle'] for v in uniq})),
            "nontrivial": decoded > 0, "steps": steps, "stats": {"decoded": decoded}}
