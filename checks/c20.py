"""C20 — using a component by reference is equivalent to writing it inline (DESIGN §C20)."""
from __future__ import annotations

import copy
import itertools
import json
import typing

from specmc import gen, pyval, wire
from specmc.refmodels import deps
from specmc.refmodels import kinds as K
from specmc.sandbox import Sandbox

ID = "C20"
LEVEL = "model_checking"
RULE = ("(1) every subset (2^k) of the reference positions of base documents rewritten between inline and $ref for reusable "
        "parameters (operation and path-item level), request bodies (direct and through chains of 2 and 3 body references) and "
        "responses: endpoint modules byte-identical; (2) every schema position x kind, inline copy vs $ref: same behaviour, and "
        "every reference to one component resolves to one class object; (3) 14 malformed reference strings x every position: "
        "diagnosed and contained (C08's cone oracle); (1m) several operations sharing reusable parameters / bodies / responses with EVERY use site independently inline or by reference (quick: <=3 and >=11 of 12 sites, thorough: all 2^12) x 2-4 path orders; part 2 also with references carrying sibling keywords and with suffix/prefix-related names x declaration order; part 3 also with siblings of the faulted model declared before / after / none; non-trivial = both variants generated and compared; kinds include a self-referential component and 3.0 nullable-reference / nullable-array wrappers")
FLOOR = 0.5
ASSUMPTIONS = ["C08's cone oracle is reused for malformed references", "behaviour equality is judged on re-encoded values and captured requests"]

R = "#/components/schemas/"

# ---------------------------------------------------------------------------------------------------- part 1

PARAM_Q = {"name": "limit", "in": "query", "required": False, "description": "lim", "schema": {"type": "integer", "default": 10}}
PARAM_H = {"name": "X-Trace", "in": "header", "required": True, "schema": {"type": "string"}}
PARAM_P = {"name": "item-id", "in": "path", "required": True, "schema": {"type": "string", "format": "uuid"}}
PARAM_ITEM = {"name": "tenant", "in": "query", "required": True, "schema": {"type": "string", "enum": ["a", "b"]}}
BODY = {"description": "the body", "required": True, "content": {"application/json": {"schema": {"$ref": R + "Thing"}},
                                                                  "multipart/form-data": {"schema": {"type": "object", "properties": {"f": {"type": "string", "format": "binary"}}}}}}
RESP = {"description": "ok", "content": {"application/json": {"schema": {"type": "array", "items": {"$ref": R + "Thing"}}}}}
RESP404 = {"description": "nf", "content": {"application/json": {"schema": {"$ref": R + "Err"}}}}
SCHEMAS = {"Thing": {"type": "object", "required": ["id"], "properties": {"id": {"type": "integer"}, "when": {"type": "string", "format": "date"}}},
           "Err": {"type": "object", "properties": {"msg": {"type": "string"}}}}
POSITIONS1 = ["op-param-q", "op-param-h", "op-param-p", "item-param", "body", "resp200", "resp404"]


def doc_part1(as_ref, body_chain=1, version="3.1.0"):
    # decoys: unused components that share a name (or a differently-styled name) with the used ones but differ in location /
    # requiredness / content; declared first.  They must not influence how the used components are resolved.
    comps = {"parameters": {"ALimitDecoy": {"name": "limit", "in": "header", "required": True, "schema": {"type": "integer", "default": 10}},
                            "AItemIdDecoy": {"name": "item_id", "in": "query", "required": False, "schema": {"type": "string", "format": "uuid"}},
                            "ATraceDecoy": {"name": "x_trace", "in": "cookie", "required": False, "schema": {"type": "string"}}},
             "requestBodies": {"ADecoyBody": {"content": {"application/json": {"schema": {"$ref": R + "Err"}}}}},
             "responses": {"ADecoyResponse": {"description": "decoy", "content": {"text/plain": {"schema": {"type": "string"}}}}}}

    def use(pos, obj, section, name):
        if pos in as_ref:
            comps[section][name] = copy.deepcopy(obj)
            return {"$ref": f"#/components/{section}/{name}"}
        return copy.deepcopy(obj)
    params = [use("op-param-q", PARAM_Q, "parameters", "Limit"), use("op-param-h", PARAM_H, "parameters", "Trace"),
              use("op-param-p", PARAM_P, "parameters", "ItemId")]
    item_params = [use("item-param", PARAM_ITEM, "parameters", "Tenant")]
    body = use("body", BODY, "requestBodies", "ThingBody")
    if "body" in as_ref and body_chain > 1:
        # chain of body references: Rb1 -> Rb2 (-> Rb3) -> the body
        target = comps["requestBodies"].pop("ThingBody")
        names = [f"Rb{i}" for i in range(1, body_chain + 1)]
        for a, b in zip(names, names[1:]):
            comps["requestBodies"][a] = {"$ref": f"#/components/requestBodies/{b}"}
        comps["requestBodies"][names[-1]] = target
        body = {"$ref": f"#/components/requestBodies/{names[0]}"}
    responses = {"200": use("resp200", RESP, "responses", "ThingList"), "404": use("resp404", RESP404, "responses", "NotFound")}
    op = {"operationId": "updateThing", "parameters": params, "requestBody": body, "responses": responses}
    doc = gen.base_doc(copy.deepcopy(SCHEMAS), paths={"/things/{item-id}": {"parameters": item_params, "put": op}}, version=version,
                       components={k: v for k, v in comps.items() if v})
    return doc


# ---------------------------------------------------------------------------------------------------- part 1m

M_ID = {"name": "id", "in": "query", "required": False, "schema": {"type": "string"}}
M_SORT = {"name": "sort", "in": "query", "required": False, "schema": {"type": "string", "enum": ["asc", "desc"], "default": "asc"}}
M_BODY = {"required": True, "content": {"application/json": {"schema": {"$ref": R + "Thing"}}}}
M_RESP = {"description": "ok", "content": {"application/json": {"schema": {"$ref": R + "Thing"}}}}
M_PROBLEM = {"description": "problem", "content": {"application/json": {"schema": {"type": "object", "properties": {"msg": {"type": "string"}}}}}}
SITES_M = ["A.id", "B.id", "C.id", "B.sort", "C.sort", "A2.body", "C.body", "A.resp", "B.resp", "B.problem404", "B.problem409", "C.problem404"]


KEY_SPELLINGS = {   # how the keys of the component tables are spelled (the component name regex allows letters, digits, ".", "-", "_")
    "pascal": lambda n: n,
    "lower": lambda n: n[0].lower() + n[1:],                       # error, notFound, thingResp: camelCase keys
    "odd": lambda n: {"IdQuery": "id.query-v1", "Sort": "s", "ThingResp": "200", "ThingBody": "components", "Problem": "not-found_2"}.get(n, n),
}


def doc_part1m(as_ref, order="ABC", keys="pascal"):
    """Several operations using the SAME reusable components; the first operation forces a conflict rename of `id`
    (path + query).  Every use site is independently inline or by reference."""
    comps = {"parameters": {}, "requestBodies": {}, "responses": {}}

    def use(site, obj, section, name):
        name = KEY_SPELLINGS[keys](name)
        if site in as_ref:
            comps[section][name] = copy.deepcopy(obj)
            return {"$ref": f"#/components/{section}/{name}"}
        return copy.deepcopy(obj)
    pid = {"name": "id", "in": "path", "required": True, "schema": {"type": "integer"}}
    paths = {
        "A": ("/things/{id}", {"get": {"operationId": "opA", "parameters": [copy.deepcopy(pid), use("A.id", M_ID, "parameters", "IdQuery")],
                                       "responses": {"200": use("A.resp", M_RESP, "responses", "ThingResp")}},
                               "put": {"operationId": "opA2", "parameters": [copy.deepcopy(pid)], "requestBody": use("A2.body", M_BODY, "requestBodies", "ThingBody"),
                                       "responses": {"204": {"description": "n"}}}}),
        "B": ("/search", {"get": {"operationId": "opB", "parameters": [use("B.id", M_ID, "parameters", "IdQuery"), use("B.sort", M_SORT, "parameters", "Sort")],
                                  "responses": {"200": use("B.resp", M_RESP, "responses", "ThingResp"), "404": use("B.problem404", M_PROBLEM, "responses", "Problem"),
                                                "409": use("B.problem409", M_PROBLEM, "responses", "Problem")}}}),
        "C": ("/other", {"post": {"operationId": "opC", "parameters": [use("C.id", M_ID, "parameters", "IdQuery"), use("C.sort", M_SORT, "parameters", "Sort")],
                                  "requestBody": use("C.body", M_BODY, "requestBodies", "ThingBody"),
                                  "responses": {"204": {"description": "n"}, "404": use("C.problem404", M_PROBLEM, "responses", "Problem")}}}),
    }
    return gen.base_doc(copy.deepcopy(SCHEMAS), paths={paths[k][0]: paths[k][1] for k in order}, components={k: v for k, v in comps.items() if v})


# ---------------------------------------------------------------------------------------------------- part 2

SCHEMA_POS = ["prop", "item", "union", "addl", "allof", "param", "body", "resp", "via-nullable30", "via-nullable-array"]
REF_KINDS = {
    "object": {"type": "object", "required": ["z"], "properties": {"z": {"type": "integer"}, "day": {"type": "string", "format": "date"}}},
    "enum_str": {"type": "string", "enum": ["a", "b"]},
    "enum_int": {"type": "integer", "enum": [1, -2]},
    "array_obj": {"type": "array", "items": {"type": "object", "properties": {"q": {"type": "string"}}}},
    "str": {"type": "string"},
    "date": {"type": "string", "format": "date"},
    # counts of zero and one: an object that declares no property at all (a marker / free-form base), one with a single optional property
    "empty_object": {"type": "object", "description": "marker"},
    "one_prop": {"type": "object", "properties": {"only": {"type": "string"}}},
    "nested": {"type": "object", "properties": {"inner": {"type": "object", "properties": {"v": {"type": "number"}}}}},
    # refers to the shared component Node, which refers to itself (the inline copy still names Node by reference)
    # refers to itself (the inline copy still names the component Comp by reference)
    "selfref": {"type": "object", "properties": {"v": {"type": "integer"}, "next": {"$ref": R + "Comp"}, "kids": {"type": "array", "items": {"$ref": R + "Comp"}}}},
}
REF_SAMPLES = {"object": [{"z": 1}, {"z": 2, "day": "2020-01-02", "x": 1}], "enum_str": ["a", "b"], "enum_int": [1, -2],
               "array_obj": [[], [{"q": "s"}, {}]], "str": ["s"], "date": ["2020-01-02"], "empty_object": [{}, {"x": 1}], "one_prop": [{}, {"only": "o"}], "nested": [{}, {"inner": {"v": 1.5}}],
               "selfref": [{"v": 1, "kids": []}, {"v": 1, "next": {"v": 2, "kids": [], "next": {"kids": []}}, "kids": [{"v": 3, "kids": []}]}]}


NAMING2 = {"plain": ("M", "Comp"), "suffix": ("Pet", "NewPet"), "prefix": ("ItemBase", "Item"), "suffix-rev": ("NewPet", "Pet")}


def doc_part2(pos, kind, inline, naming="plain", order="comp-first", siblings=False):
    """naming: (holder, component) names, unrelated or one a suffix / prefix of the other; order: which is declared first;
    siblings: the reference object carries sibling keywords (description + example), legal in 3.1 and without effect."""
    d = _doc_part2(pos, kind, inline, siblings)
    if d is None:
        return None
    hold, comp = NAMING2[naming]
    if naming != "plain" or order != "comp-first":
        text = json.dumps(d)
        text = text.replace(R + "Comp", R + "\u0000C").replace('"Comp":', '"\u0000C":').replace(R + "M\"", R + "\u0000M\"").replace('"M":', '"\u0000M":')
        text = text.replace("\u0000C", comp).replace("\u0000M", hold)
        d = json.loads(text)
        s = d.get("components", {}).get("schemas")
        if s and order == "holder-first":
            d["components"]["schemas"] = {k: s[k] for k in sorted(s, key=lambda k: 0 if k == hold else 1)}
    return d


def _doc_part2(pos, kind, inline, siblings=False):
    d = _doc_part2_(pos, kind, inline, siblings)
    if d is not None and kind == "selfref":      # the inline copy still names Comp by reference: the component exists in both variants
        d.setdefault("components", {}).setdefault("schemas", {}).setdefault("Comp", copy.deepcopy(REF_KINDS["selfref"]))
    return d


def _doc_part2_(pos, kind, inline, siblings=False):
    comp = copy.deepcopy(REF_KINDS[kind])
    sch = copy.deepcopy(comp) if inline else {"$ref": R + "Comp"}
    if siblings:
        sch = dict(sch, description="a described use", example=REF_SAMPLES[kind][0])
    comps = {} if inline else {"Comp": comp}
    paths = {}
    if pos in ("via-nullable30", "via-nullable-array"):
        # OpenAPI 3.0 union-like wrappers around a reference to Comp: used through a component (Wrapper) or written at the point of use
        comps = {"Comp": comp}
        wrapper = {"allOf": [{"$ref": R + "Comp"}], "nullable": True} if pos == "via-nullable30" else {"type": "array", "items": {"$ref": R + "Comp"}, "nullable": True}
        if inline:
            comps["M"] = {"type": "object", "properties": {"p": wrapper}}
        else:
            comps = {"Wrapper": wrapper, "Comp": comp, "M": {"type": "object", "properties": {"p": {"$ref": R + "Wrapper"}}}}
        d = gen.base_doc(comps, paths={"/m": {"get": {"operationId": "getM", "responses": {"200": {"description": "d", "content": {"application/json": {"schema": {"$ref": R + "M"}}}}}}}}, version="3.0.3")
        return d
    if pos == "prop":
        comps["M"] = {"type": "object", "properties": {"p": sch}}
    elif pos == "item":
        comps["M"] = {"type": "object", "properties": {"p": {"type": "array", "items": sch}}}
    elif pos == "union":
        comps["M"] = {"type": "object", "properties": {"p": {"oneOf": [sch, {"type": "boolean"}]}}}
    elif pos == "addl":
        comps["M"] = {"type": "object", "additionalProperties": sch}
    elif pos == "allof":
        if kind not in ("object", "nested", "selfref", "empty_object", "one_prop"):
            return None
        comps["M"] = {"allOf": [sch, {"type": "object", "properties": {"own": {"type": "string"}}}]}
    elif pos == "param":
        if kind in ("object", "array_obj", "nested", "selfref"):
            return None
        paths["/x"] = {"get": {"operationId": "theOp", "parameters": [{"name": "p", "in": "query", "required": True, "schema": sch}],
                               "responses": {"204": {"description": "n"}}}}
    elif pos == "body":
        paths["/x"] = {"post": {"operationId": "theOp", "requestBody": {"required": True, "content": {"application/json": {"schema": sch}}},
                                "responses": {"204": {"description": "n"}}}}
    elif pos == "resp":
        paths["/x"] = {"get": {"operationId": "theOp", "responses": {"200": {"description": "d", "content": {"application/json": {"schema": sch}}}}}}
    return gen.base_doc(comps or None, paths=paths)


def instances_part2(pos, kind):
    s = REF_SAMPLES[kind]
    if pos == "via-nullable30":
        return [{}, {"p": None}] + [{"p": copy.deepcopy(v)} for v in s]
    if pos == "via-nullable-array":
        return [{"p": None}, {"p": [copy.deepcopy(v) for v in s]}]
    if pos == "prop" or pos == "union":
        return [{}] + [{"p": copy.deepcopy(v)} for v in s]
    if pos == "item":
        return [{"p": [copy.deepcopy(v) for v in s]}]
    if pos == "addl":
        return [{}, {"k": copy.deepcopy(s[0])}]
    if pos == "allof":
        return [dict(copy.deepcopy(v), own="o") for v in s]
    return [copy.deepcopy(v) for v in s]


# part 2d: defaults next to a reference.  DEF_KINDS: component schema -> (truthy default, falsy default)
DEF_KINDS = {"int": ({"type": "integer"}, 7, 0), "num": ({"type": "number"}, 2.5, 0.0), "bool": ({"type": "boolean"}, True, False),
             "str": ({"type": "string"}, "dv", ""), "enum_int": ({"type": "integer", "enum": [0, 1, 2]}, 2, 0),
             "enum_str": ({"type": "string", "enum": ["", "a", "b"]}, "b", "")}


def doc_part2d(pos, kind, where, falsy, inline):
    """where = "wrapper": the default stands next to a one-member allOf around the reference (inline twin: the schema with that default);
    where = "component": the component itself declares the default (inline twin: a copy of it)."""
    comp, truthy, fv = copy.deepcopy(DEF_KINDS[kind])
    dv = fv if falsy else truthy
    if where == "component":
        comp["default"] = dv
        sch = copy.deepcopy(comp) if inline else {"$ref": R + "Comp"}
    else:
        sch = dict(copy.deepcopy(comp), default=dv) if inline else {"allOf": [{"$ref": R + "Comp"}], "default": dv}
    comps = {} if inline else {"Comp": comp}
    paths = {}
    if pos == "prop":
        comps["M"] = {"type": "object", "properties": {"p": sch, "other": {"type": "string"}}}
    else:
        paths["/x"] = {"get": {"operationId": "theOp", "parameters": [{"name": "p", "in": pos, "required": False, "schema": sch}],
                               "responses": {"204": {"description": "n"}}}}
    return gen.base_doc(comps or None, paths=paths)


def sharing_doc():
    comps = {"Shared": copy.deepcopy(REF_KINDS["object"]), "Kind": copy.deepcopy(REF_KINDS["enum_str"]),
             "A": {"type": "object", "properties": {"s": {"$ref": R + "Shared"}, "k": {"$ref": R + "Kind"}}},
             "B": {"type": "object", "properties": {"many": {"type": "array", "items": {"$ref": R + "Shared"}}, "k2": {"$ref": R + "Kind"},
                                                    "u": {"oneOf": [{"$ref": R + "Shared"}, {"type": "integer"}]}}},
             "C": {"type": "object", "additionalProperties": {"$ref": R + "Shared"}}}
    paths = {"/s": {"post": {"operationId": "postS", "parameters": [{"name": "k", "in": "query", "schema": {"$ref": R + "Kind"}}],
                             "requestBody": {"required": True, "content": {"application/json": {"schema": {"$ref": R + "Shared"}}}},
                             "responses": {"200": {"description": "d", "content": {"application/json": {"schema": {"$ref": R + "Shared"}}}}}}}}
    return gen.base_doc(comps, paths=paths)


# ---------------------------------------------------------------------------------------------------- part 3

MALFORMED = ["#/components/schemas/Nope", "http://remote.example/x.json#/components/schemas/Thing", "other.yaml#/components/schemas/Thing",
             "#/components/responses/Thing", "#", "#/", "#/components/schemas/Thing/", "#/components/schemas/Th%69ng", "",
             "#/components/schemas/", "components/schemas/Thing", "#components/schemas/Thing", "#/definitions/Thing", "#/components/schemas/thing",
             # another resource without a scheme or path (network-path reference, query); a component table with a deeper path
             "//remote.example#/components/schemas/Thing", "?v=2#/components/schemas/Thing", "#/components/schemas/nested/Thing",
             "#/components/responses/nested/Thing", "#/components/requestBodies/nested/Thing", "#/components/parameters/nested/Thing"]
MAL_POS = ["prop", "item", "union", "addl", "allof", "param-schema", "body-schema", "resp-schema", "op-param", "op-body", "op-resp", "item-param"]


def doc_part3(siblings="both"):
    comps = dict(copy.deepcopy(SCHEMAS))
    # unrelated models that merely reference the same schemas as Holder, declared before and / or after it (who registers a
    # shared dependency first is part of the state the generator keeps)
    if siblings in ("before", "both"):
        comps["SiblingBefore"] = {"type": "object", "properties": {"t0": {"$ref": R + "Thing"}, "e0": {"$ref": R + "Err"}}}
    comps["Holder"] = {"type": "object", "properties": {"t": {"$ref": R + "Thing"}}}
    if siblings in ("after", "both"):
        comps["SiblingAfter"] = {"type": "object", "properties": {"t2": {"$ref": R + "Thing"}, "ts": {"type": "array", "items": {"$ref": R + "Thing"}}}}
    comps["SiblingUser"] = {"type": "object", "properties": {"own": {"type": "integer"}}}
    if siblings in ("after", "both"):
        comps["SiblingUser"]["properties"]["sa"] = {"$ref": R + "SiblingAfter"}
    if siblings in ("before", "both"):
        comps["SiblingUser"]["properties"]["sb"] = {"$ref": R + "SiblingBefore"}
    comps["Other"] = {"type": "object", "properties": {"h": {"$ref": R + "Holder"}}}
    comps["ViaItems"] = {"type": "object", "properties": {"hs": {"type": "array", "items": {"$ref": R + "Holder"}}}}
    comps["ViaAlias"] = {"type": "array", "items": {"$ref": R + "Holder"}}
    comps["ViaAliasUser"] = {"type": "object", "properties": {"l": {"$ref": R + "ViaAlias"}}}
    comps["ViaUnion"] = {"type": "object", "properties": {"u": {"oneOf": [{"$ref": R + "Holder"}, {"type": "integer"}]}}}
    comps["ViaAddl"] = {"type": "object", "additionalProperties": {"$ref": R + "Holder"}}
    comps["ViaAllOf"] = {"allOf": [{"$ref": R + "Holder"}, {"type": "object", "properties": {"own": {"type": "string"}}}]}
    comps["Free"] = {"type": "object", "properties": {"n": {"type": "number"}}}
    paths = {"/free": {"get": {"operationId": "getFree", "responses": {"200": {"description": "d", "content": {"application/json": {"schema": {"$ref": R + "Free"}}}}}}},
             "/other": {"get": {"operationId": "getOther", "responses": {"200": {"description": "d", "content": {"application/json": {"schema": {"$ref": R + "Other"}}}}}}},
             "/use": {"post": {"operationId": "useThing", "responses": {"204": {"description": "n"}}}},
             "/sibling": {"get": {"operationId": "getSibling", "responses": {"200": {"description": "d", "content": {"application/json": {"schema": {"$ref": R + "SiblingUser"}}}}}}},
             "/list": {"get": {"operationId": "getList", "responses": {"200": {"description": "d", "content": {"application/json": {"schema": {"$ref": R + "ViaAlias"}}}}}}},
             "/items": {"get": {"operationId": "getItems", "responses": {"200": {"description": "d", "content": {"application/json": {"schema": {"$ref": R + "ViaItems"}}}}}}}}
    return gen.base_doc(comps, paths=paths, components={"requestBodies": {"Thing": {"content": {"application/json": {"schema": {"$ref": R + "Free"}}}}},
                                                           "responses": {"Thing": {"description": "d"}},
                                                           "parameters": {"Thing": {"name": "t", "in": "query", "schema": {"type": "string"}}}})


def insert_malformed(doc, s, pos):
    d = copy.deepcopy(doc)
    bad = {"$ref": s}
    op = d["paths"]["/use"]["post"]
    if pos in ("prop", "item", "union", "addl", "allof"):
        h = d["components"]["schemas"]["Holder"]
        if pos == "prop":
            h["properties"]["bad"] = bad
        elif pos == "item":
            h["properties"]["bad"] = {"type": "array", "items": bad}
        elif pos == "union":
            h["properties"]["bad"] = {"oneOf": [bad, {"type": "string"}]}
        elif pos == "addl":
            h["additionalProperties"] = bad
        else:
            d["components"]["schemas"]["Holder"] = {"allOf": [bad, h]}
        return d, {("schema", "Holder")}
    if pos == "param-schema":
        op["parameters"] = [{"name": "q", "in": "query", "schema": bad}]
    elif pos == "body-schema":
        op["requestBody"] = {"content": {"application/json": {"schema": bad}}}
    elif pos == "resp-schema":
        op["responses"]["200"] = {"description": "d", "content": {"application/json": {"schema": bad}}}
    elif pos == "op-param":
        op["parameters"] = [bad]
    elif pos == "op-body":
        op["requestBody"] = bad
    elif pos == "op-resp":
        op["responses"]["200"] = bad
    elif pos == "item-param":
        d["paths"]["/use"]["parameters"] = [bad]
    return d, {("op", "post", "/use")}


CYCLES = {
    "body-self": {"requestBodies": {"A": {"$ref": "#/components/requestBodies/A"}}, "use": ("op-body", "#/components/requestBodies/A")},
    "body-2cycle": {"requestBodies": {"A": {"$ref": "#/components/requestBodies/B"}, "B": {"$ref": "#/components/requestBodies/A"}}, "use": ("op-body", "#/components/requestBodies/A")},
    "body-3cycle": {"requestBodies": {"A": {"$ref": "#/components/requestBodies/B"}, "B": {"$ref": "#/components/requestBodies/C"}, "C": {"$ref": "#/components/requestBodies/A"}},
                    "use": ("op-body", "#/components/requestBodies/A")},
    "response-self": {"responses": {"A": {"$ref": "#/components/responses/A"}}, "use": ("op-resp", "#/components/responses/A")},
    "response-2cycle": {"responses": {"A": {"$ref": "#/components/responses/B"}, "B": {"$ref": "#/components/responses/A"}}, "use": ("op-resp", "#/components/responses/A")},
    "parameter-self": {"parameters": {"A": {"$ref": "#/components/parameters/A"}}, "use": ("op-param", "#/components/parameters/A")},
    "parameter-2cycle": {"parameters": {"A": {"$ref": "#/components/parameters/B"}, "B": {"$ref": "#/components/parameters/A"}}, "use": ("op-param", "#/components/parameters/A")},
    "schema-alias-self": {"schemas": {"Loop": {"$ref": R + "Loop"}}, "use": ("body-schema", R + "Loop")},
    "schema-alias-2cycle": {"schemas": {"L1": {"$ref": R + "L2"}, "L2": {"$ref": R + "L1"}}, "use": ("resp-schema", R + "L1")},
    "allof-self": {"schemas": {"Loop": {"allOf": [{"$ref": R + "Loop"}, {"type": "object", "properties": {"a": {"type": "string"}}}]}}, "use": ("body-schema", R + "Loop")},
    "allof-2cycle": {"schemas": {"L1": {"allOf": [{"$ref": R + "L2"}]}, "L2": {"allOf": [{"$ref": R + "L1"}, {"type": "object", "properties": {"a": {"type": "string"}}}]}},
                     "use": ("resp-schema", R + "L1")},
    "array-alias-self": {"schemas": {"Loop": {"type": "array", "items": {"$ref": R + "Loop"}}}, "use": ("resp-schema", R + "Loop")},
}


def cases(tier):
    # part 1: all subsets of positions, three body-chain lengths, both versions
    for k in range(len(POSITIONS1) + 1):
        for subset in itertools.combinations(POSITIONS1, k):
            chains = (1, 2, 3) if "body" in subset else (1,)
            for chain in chains:
                for version in (("3.1.0",) if tier == "quick" else ("3.1.0", "3.0.3")):
                    yield {"labels": [f"ref={x}" for x in subset] + ([f"body-chain={chain}"] if chain > 1 else []) + ([f"v={version}"] if version != "3.1.0" else []),
                           "payload": {"part": 1, "as_ref": list(subset), "chain": chain, "version": version}}
    # part 1m: several operations sharing components, every use site inline or by reference
    orders = ("ABC", "CBA") if tier == "quick" else ("ABC", "CBA", "BAC", "BCA")
    for k in range(1, len(SITES_M) + 1):
        if tier == "quick" and 3 < k < len(SITES_M) - 1:
            continue                       # quick: up to 3 references, and all-but-one / all
        for subset in itertools.combinations(SITES_M, k):
            for order in orders:
                yield {"labels": ["multi-op"] + [f"ref={x}" for x in subset] + [f"order={order}"],
                       "payload": {"part": "1m", "as_ref": list(subset), "order": order}}
                if order == "ABC" and (k <= 2 or k == len(SITES_M)):
                    for keys in ("lower", "odd"):
                        yield {"labels": ["multi-op"] + [f"ref={x}" for x in subset] + [f"order={order}", f"component-keys={keys}"],
                               "payload": {"part": "1m", "as_ref": list(subset), "order": order, "keys": keys}}
    # part 2
    for pos in SCHEMA_POS:
        for kind in REF_KINDS:
            if doc_part2(pos, kind, True) is None:
                continue
            yield {"labels": [f"schema-pos={pos}", f"kind={kind}"], "payload": {"part": 2, "pos": pos, "kind": kind}}
            yield {"labels": [f"schema-pos={pos}", f"kind={kind}", "ref-with-siblings"], "payload": {"part": 2, "pos": pos, "kind": kind, "siblings": True}}
            if pos in ("prop", "item", "union", "addl", "allof", "via-nullable30", "via-nullable-array"):
                for naming in NAMING2:
                    for order in ("comp-first", "holder-first"):
                        if (naming, order) != ("plain", "comp-first"):
                            yield {"labels": [f"schema-pos={pos}", f"kind={kind}", f"names={naming}", order],
                                   "payload": {"part": 2, "pos": pos, "kind": kind, "naming": naming, "order": order}}
    for pos in ("prop", "query", "header"):
        for kind in DEF_KINDS:
            for where in ("wrapper", "component"):
                for falsy in (False, True):
                    yield {"labels": [f"default-at={where}", f"schema-pos={pos}", f"kind={kind}", "default=falsy" if falsy else "default=truthy"],
                           "payload": {"part": "2d", "pos": pos, "kind": kind, "where": where, "falsy": falsy}}
    yield {"labels": ["class-sharing"], "payload": {"part": "sharing"}}
    # part 3
    for s in MALFORMED:
        for pos in MAL_POS:
            if pos == "op-resp" and s == "#/components/responses/Thing":
                continue        # a valid reference at this position
            yield {"labels": [f"malformed={s!r}", f"at={pos}"], "payload": {"part": 3, "ref": s, "pos": pos}}
            if pos in ("prop", "item", "union", "addl", "allof") and (tier == "thorough" or s in MALFORMED[:2]):
                for sib in ("none", "before", "after"):
                    yield {"labels": [f"malformed={s!r}", f"at={pos}", f"siblings={sib}"], "payload": {"part": 3, "ref": s, "pos": pos, "siblings": sib}}
    for name in CYCLES:
        yield {"labels": [f"cycle={name}"], "payload": {"part": "cycle", "name": name}}


# ---------------------------------------------------------------------------------------------------- oracle

def _endpoint_files(tree):
    return {k: v for k, v in tree.items() if k.startswith("api/") and not k.endswith("__init__.py")}


def _part1(p):
    if p["part"] == "1m":
        a = gen.generate(doc_part1m(set(), p["order"], p.get("keys", "pascal")))
        b = gen.generate(doc_part1m(set(p["as_ref"]), p["order"], p.get("keys", "pascal")))
        sites = sorted({x.split(".")[1].rstrip("0123456789") for x in p["as_ref"]})
        key = "multi-op/" + "+".join(sites)
    else:
        a = gen.generate(doc_part1(set(), 1, p["version"]))
        b = gen.generate(doc_part1(set(p["as_ref"]), p["chain"], p["version"]))
        key = "+".join(p["as_ref"]) + (f"/chain{p['chain']}" if p["chain"] > 1 else "")
    if a.crash or b.crash:
        c = a.crash or b.crash
        return {"skipped_crash": True, "outcome": f"crash:{c['type']}@{c['where']}", "nontrivial": False}
    viol = []
    if a.rejected or b.rejected:
        return {"violations": [{"oracle": "rejected", "site": "-", "key": key, "detail": "one of the variants was rejected"}], "outcome": "rejected"}
    fa, fb = _endpoint_files(a.tree), _endpoint_files(b.tree)
    for f in sorted(set(fa) | set(fb)):
        if fa.get(f) != fb.get(f):
            viol.append({"oracle": "endpoint-bytes", "site": "api/<tag>/<endpoint>.py", "key": key,
                         "detail": f"{f} differs between the all-inline document and references at {p['as_ref']}:\n" + _first_diff(fa.get(f), fb.get(f))})
    da, db = sorted(d.short() for d in a.diags), sorted(d.short() for d in b.diags)
    if da != db:
        viol.append({"oracle": "diagnostics-differ", "site": "-", "key": key, "detail": f"inline: {da[:2]} / by reference: {db[:2]}"})
    ma = {k: v for k, v in a.tree.items() if k.startswith("models/")}
    mb = {k: v for k, v in b.tree.items() if k.startswith("models/")}
    if ma != mb:
        viol.append({"oracle": "models-differ", "site": "models", "key": key, "detail": f"model files differ: {sorted(set(ma) ^ set(mb))}"})
    return {"violations": viol, "outcome": "ok" if not viol else "viol:" + ",".join(sorted({v['oracle'] for v in viol})), "nontrivial": True, "steps": 2}


def _first_diff(x, y):
    if x is None or y is None:
        return "present in only one tree"
    xs, ys = x.decode().splitlines(), y.decode().splitlines()
    for i, (l1, l2) in enumerate(zip(xs, ys)):
        if l1 != l2:
            return f"line {i + 1}: {l1!r} != {l2!r}"
    return f"length {len(xs)} vs {len(ys)} lines"


def _behaviour(res, pos, kind, holder="M"):
    """JSON-able behaviour of one variant: round trips of the holder model, or wire/parsed observations."""
    from checks.c02 import find_class
    from checks.c04 import reencode
    out = []
    with Sandbox(res.pkg_tree()) as sb:
        if pos in ("prop", "item", "union", "addl", "allof", "via-nullable30", "via-nullable-array"):
            cls = find_class(res, sb, holder)
            if cls is None:
                return None
            def cat(v):      # what kind of Python value the decoder built (class names differ legitimately, categories must not)
                import enum
                if isinstance(v, enum.Enum):
                    return "enum"
                if hasattr(v, "to_dict") and not isinstance(v, dict):
                    return "model"
                if isinstance(v, list):
                    return ["list"] + sorted({json.dumps(cat(x)) for x in v})
                if isinstance(v, dict):
                    return ["dict"] + sorted({json.dumps(cat(x)) for x in v.values()})
                return type(v).__name__
            for inst in instances_part2(pos, kind):
                try:
                    o = cls.from_dict(copy.deepcopy(inst))
                    held = getattr(o, "p", None) if pos != "addl" else dict(getattr(o, "additional_properties", {}))
                    if held is not None and type(held).__name__ == "Unset":
                        held = "<unset>"
                    out.append(["ok", o.to_dict(), cat(held)])
                except Exception as exc:  # noqa: BLE001
                    out.append(["raises", type(exc).__name__])
            return out
        if not res.endpoints:
            return None
        ep = res.endpoints[0]
        mod = wire.endpoint_module(sb, ep)
        hints = pyval.hints(mod.sync_detailed)
        for inst in instances_part2(pos, kind):
            import httpx
            if pos == "resp":
                cap = wire.Capture(lambda request, inst=inst: httpx.Response(200, json=inst))
                r = wire.call(mod, "sync_detailed", lambda: wire.make_client(sb, cap), cap, {})
                out.append(["ok", reencode(r["value"].parsed)] if r["ok"] else ["raises", type(r["exc"]).__name__])
            else:
                cap = wire.Capture(lambda request: httpx.Response(204))
                arg = "p" if pos == "param" else "body"
                py = ep["query_params"][0]["py"] if pos == "param" else "body"
                try:
                    val = pyval.pythonize(hints.get(py, typing.Any), inst)
                except pyval.NoFit as exc:
                    out.append(["nofit", str(exc)[:60]])
                    continue
                r = wire.call(mod, "sync_detailed", lambda: wire.make_client(sb, cap), cap, {py: val})
                out.append(["ok", wire.req_summary(r["requests"][0])] if r["ok"] and r["requests"] else ["raises", type(r.get("exc")).__name__])
                _ = arg
    return out


def _part2(p):
    pos, kind = p["pos"], p["kind"]
    naming, order, sib = p.get("naming", "plain"), p.get("order", "comp-first"), p.get("siblings", False)
    a = gen.generate(doc_part2(pos, kind, True, naming, order, sib))
    b = gen.generate(doc_part2(pos, kind, False, naming, order, sib))
    key = f"{pos}/{kind}" + ("/ref-siblings" if sib else "") + (f"/{naming}" if naming != "plain" else "")
    for r in (a, b):
        if r.crash:
            return {"skipped_crash": True, "outcome": f"crash:{r.crash['type']}@{r.crash['where']}", "nontrivial": False}
    if a.rejected or b.rejected:
        return {"outcome": "rejected", "nontrivial": False}
    viol = []
    try:
        ba, bb = _behaviour(a, pos, kind, NAMING2[naming][0]), _behaviour(b, pos, kind, NAMING2[naming][0])
    except ImportError as exc:
        return {"outcome": f"import-fails:{exc}", "nontrivial": False}
    if ba is None and bb is None:
        return {"outcome": "pruned-both", "nontrivial": False}
    if json.dumps(ba, sort_keys=True, default=str) != json.dumps(bb, sort_keys=True, default=str):
        viol.append({"oracle": "behaviour-differs", "site": pos, "key": key, "detail": f"inline: {json.dumps(ba, default=str)[:300]} / by reference: {json.dumps(bb, default=str)[:300]}"})
    if (len(a.diags) == 0) != (len(b.diags) == 0):
        viol.append({"oracle": "diagnostics-differ", "site": pos, "key": key, "detail": f"inline: {[d.short() for d in a.diags][:2]} / by reference: {[d.short() for d in b.diags][:2]}"})
    return {"violations": viol, "outcome": "ok" if not viol else "viol:" + ",".join(sorted({v['oracle'] for v in viol})), "nontrivial": True, "steps": 2 + 2 * len(ba or [])}


def _behaviour_default(res, pos):
    from checks.c02 import find_class
    from checks.c04 import reencode
    out = []
    with Sandbox(res.pkg_tree()) as sb:
        if pos == "prop":
            cls = find_class(res, sb, "M")
            if cls is None:
                return None
            for inst in ({}, {"other": "o"}):
                try:
                    out.append(["decode", cls.from_dict(dict(inst)).to_dict()])
                except Exception as exc:  # noqa: BLE001
                    out.append(["decode-raises", type(exc).__name__])
            try:
                o = cls()
                out.append(["construct", o.to_dict(), reencode(getattr(o, "p", "<no attribute>")) if type(getattr(o, "p", None)).__name__ != "Unset" else "<unset>"])
            except Exception as exc:  # noqa: BLE001
                out.append(["construct-raises", type(exc).__name__])
            return out
        if not res.endpoints:
            return None
        import httpx
        mod = wire.endpoint_module(sb, res.endpoints[0])
        for variant in ("sync_detailed", "asyncio_detailed"):
            cap = wire.Capture(lambda request: httpx.Response(204))
            r = wire.call(mod, variant, lambda: wire.make_client(sb, cap), cap, {})
            out.append([variant, wire.req_summary(r["requests"][0])] if r["ok"] and r["requests"] else [variant, "raises", type(r.get("exc")).__name__])
    return out


def _part2d(p):
    pos, kind, where, falsy = p["pos"], p["kind"], p["where"], p["falsy"]
    a = gen.generate(doc_part2d(pos, kind, where, falsy, True))
    b = gen.generate(doc_part2d(pos, kind, where, falsy, False))
    key = f"default-{where}/{'param' if pos != 'prop' else 'prop'}/{kind}" + ("/falsy" if falsy else "")
    for r in (a, b):
        if r.crash:
            return {"skipped_crash": True, "outcome": f"crash:{r.crash['type']}@{r.crash['where']}", "nontrivial": False}
    if a.rejected or b.rejected:
        return {"outcome": "rejected", "nontrivial": False}
    viol = []
    try:
        ba, bb = _behaviour_default(a, pos), _behaviour_default(b, pos)
    except ImportError as exc:
        return {"outcome": f"import-fails:{exc}", "nontrivial": False}
    if ba is None and bb is None:
        return {"outcome": "pruned-both", "nontrivial": False}
    if json.dumps(ba, sort_keys=True, default=str) != json.dumps(bb, sort_keys=True, default=str):
        viol.append({"oracle": "behaviour-differs", "site": pos, "key": key, "detail": f"inline: {json.dumps(ba, default=str)[:300]} / by reference: {json.dumps(bb, default=str)[:300]}"})
    if (len(a.diags) == 0) != (len(b.diags) == 0):
        viol.append({"oracle": "diagnostics-differ", "site": pos, "key": key, "detail": f"inline: {[d.short() for d in a.diags][:2]} / by reference: {[d.short() for d in b.diags][:2]}"})
    return {"violations": viol, "outcome": "ok" if not viol else "viol:" + ",".join(sorted({v['oracle'] for v in viol})), "nontrivial": True, "steps": 2 + 2 * len(ba or [])}


def _classes_in(ann, out):
    if isinstance(ann, type):
        out.add(ann)
    for a in typing.get_args(ann):
        _classes_in(a, out)
    return out


def _sharing(p):
    res = gen.generate(sharing_doc())
    if res.crash or res.rejected:
        return {"outcome": "not-generated", "nontrivial": False}
    viol = []
    with Sandbox(res.pkg_tree()) as sb:
        models = sb.mod("models")
        shared, kind = models.Shared, models.Kind
        seen = {}
        for cname, attr in (("A", "s"), ("A", "k"), ("B", "many"), ("B", "k2"), ("B", "u"), ("C", "additional_properties")):
            cls = getattr(models, cname)
            h = pyval.hints(cls)
            seen[(cname, attr)] = _classes_in(h[attr], set())
        ep = res.endpoints[0]
        mod = wire.endpoint_module(sb, ep)
        fh = pyval.hints(mod.sync_detailed)
        seen[("postS", "body")] = _classes_in(fh["body"], set())
        seen[("postS", "k")] = _classes_in(fh[ep["query_params"][0]["py"]], set())
        seen[("postS", "return")] = _classes_in(fh["return"], set())
        for site, classes in seen.items():
            want = kind if site[1] in ("k", "k2") else shared
            named = [c for c in classes if c.__name__ == want.__name__]
            if want not in classes:
                viol.append({"oracle": "class-identity", "site": "models", "key": f"{site[0]}.{site[1]}",
                             "detail": f"{site} resolves to {sorted(c.__name__ for c in classes)}, not to the single class {want.__name__}" + (" (same name, different object)" if named else "")})
        # behaviourally: a decoded nested value is an instance of the one shared class
        o = models.A.from_dict({"s": {"z": 1}, "k": "a"})
        if type(o.s) is not shared or type(o.k) is not kind:
            viol.append({"oracle": "class-identity", "site": "models", "key": "decoded", "detail": f"decoded types {type(o.s)}, {type(o.k)}"})
        files = [k for k in res.pkg_tree() if k.startswith("models/") and not k.endswith("__init__.py")]
        if len(files) != 5:
            viol.append({"oracle": "class-identity", "site": "models", "key": "extra-modules", "detail": f"model modules: {sorted(files)}"})
    return {"violations": viol, "outcome": "ok" if not viol else "viol", "nontrivial": True, "steps": 12}


def _contained(dprime, carriers, d0, key, cleanup=()):
    """C08's oracle with the referencing item as the bad piece."""
    from checks.c01 import role, tree_violations
    r1 = gen.generate(copy.deepcopy(dprime))
    if r1.crash:
        return {"skipped_crash": True, "outcome": f"crash:{r1.crash['type']}@{r1.crash['where']}", "nontrivial": False}
    if r1.rejected:
        # a document-level rejection IS a diagnostic, but it affects everything else: only acceptable for refs pydantic cannot hold
        return {"violations": [{"oracle": "whole-document-rejected", "site": "-", "key": key, "detail": r1.diags[0].short()[:300]}], "outcome": "rejected", "nontrivial": True}
    cone = deps.cone(dprime, carriers)
    dout = deps.remove_units(dprime, cone)
    for sec, name in cleanup:
        dout["components"].get(sec, {}).pop(name, None)
    r2 = gen.generate(dout)
    viol = []
    if r2.crash or r2.rejected or r2.diags:
        return {"harness_error": f"cone-free document not clean: {[d.short() for d in r2.diags][:2]}", "outcome": "HARNESS"}
    for f, b in sorted(r2.tree.items()):
        if f.endswith("__init__.py"):
            continue
        if f not in r1.tree:
            viol.append({"oracle": "outside-cone-missing", "site": role(f), "key": key, "detail": f"{f} missing although it does not depend on the reference"})
        elif r1.tree[f] != b:
            viol.append({"oracle": "outside-cone-changed", "site": role(f), "key": key, "detail": f"{f} differs from the generation without the referencing item"})
    if not r1.diags:
        viol.append({"oracle": "no-diagnostic", "site": "-", "key": key, "detail": "malformed reference accepted without any diagnostic"})
    viol += tree_violations(r1, key)
    return {"violations": viol, "outcome": "ok" if not viol else "viol:" + ",".join(sorted({v['oracle'] for v in viol})), "nontrivial": True, "steps": 2}


def _part3(p):
    d0 = doc_part3(p.get("siblings", "both"))
    dprime, carriers = insert_malformed(d0, p["ref"], p["pos"])
    cls = "empty" if p["ref"] == "" else p["ref"]
    return _contained(dprime, carriers, d0, f"{p['pos']}/{cls}")


def _cycle(p):
    spec = CYCLES[p["name"]]
    d0 = doc_part3()
    for sec in ("requestBodies", "responses", "parameters", "schemas"):
        if sec in spec:
            d0["components"].setdefault(sec, {}).update(copy.deepcopy(spec[sec]))
    pos, refstr = spec["use"]
    dprime, carriers = insert_malformed(d0, refstr, pos)
    for name in spec.get("schemas", {}):
        carriers.add(("schema", name))
    cleanup = [(sec, name) for sec in ("requestBodies", "responses", "parameters") for name in spec.get(sec, {})]
    return _contained(dprime, carriers, d0, f"cycle/{p['name']}", cleanup)


def run_case(p):
    part = p["part"]
    if part in (1, "1m"):
        return _part1(p)
    if part == 2:
        return _part2(p)
    if part == "2d":
        return _part2d(p)
    if part == "sharing":
        return _sharing(p)
    if part == 3:
        return _part3(p)
    return _cycle(p)
