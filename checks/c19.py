"""C19 — generation writes only where told, never clobbers, converges on overwrite (DESIGN §C19; explicit-state BFS)."""
from __future__ import annotations

import contextlib
import hashlib
import io
import itertools
import json
import os
import shutil
import sys
from pathlib import Path

from specmc import gen

ID = "C19"
LEVEL = "model_checking"
RULE = ("explicit-state breadth-first search from the empty sandbox over histories of commands: generate(doc in {A, B disjoint names, G = A under a title spelled differently with the same derived names, H / I = the same names without any schema / without any operation, "
        "C hostile schema/operation/tag names, D hostile title}, meta in {none, poetry}, overwrite in {no, yes}, location in "
        "{default-from-title in cwd, --output-path}) and user edits (make an empty directory or one holding only dot entries where --output-path points, an empty one at the default location, add a file at the project root, at the package root, modify a "
        "generated file), also with generate_all_tags and with post hooks that leave a trace, through the real typer CLI; states = full content of the sandbox + flavours generated per directory, "
        "deduplicated on a canonical hash; every transition audited with sys.addaudithook; quick: depth 3 over the full quick command set + depth 4 over a 16-command core; thorough: depth 4 over the full command set (5 documents, both flavours, both locations) and depth 5 over a 15-command core set; a generation that fails while writing (un-encodable text) must keep the user's files; custom templates taken from a user directory outside the output")
FLOOR = 0.3
ASSUMPTIONS = ["audit hooks see every open-for-write/mkdir/remove/rename/rmtree", "typer's CliRunner reproduces the command line behaviour"]

OK = {"200": {"description": "ok"}}
WRITES = []
REC = [False]
_HOOKED = [False]


def _hook(ev, args):
    if not REC[0]:
        return
    try:
        if ev == "open":
            path, _mode, flags = args
            if isinstance(path, (str, bytes, os.PathLike)) and isinstance(flags, int) and (
                    flags & (os.O_WRONLY | os.O_RDWR | os.O_CREAT | os.O_TRUNC | os.O_APPEND)):
                WRITES.append(("open", os.fsdecode(os.fspath(path))))
        elif ev in ("os.mkdir", "os.remove", "os.rmdir", "os.rename", "shutil.rmtree", "os.unlink", "os.symlink", "os.link", "shutil.move",
                    "shutil.copyfile", "os.chmod", "os.truncate"):
            p = os.fsdecode(os.fspath(args[0]))
            dir_fd = args[-1] if ev not in ("os.rename", "shutil.move", "shutil.copyfile") else None
            if isinstance(dir_fd, int) and dir_fd >= 0 and not os.path.isabs(p):
                try:
                    p = os.path.join(os.readlink(f"/proc/self/fd/{dir_fd}"), p)
                except OSError:
                    pass
            WRITES.append((ev, p))
            if ev in ("os.rename", "shutil.move", "shutil.copyfile", "os.symlink", "os.link") and len(args) > 1:
                try:
                    WRITES.append((ev, os.fsdecode(os.fspath(args[1]))))
                except TypeError:
                    pass
    except Exception:  # noqa: BLE001
        pass


def init_worker():
    if not _HOOKED[0]:
        sys.addaudithook(_hook)
        _HOOKED[0] = True


def mk(title, models, ops, tag="t"):
    return {"openapi": "3.1.0", "info": {"title": title, "version": "1"},
            "paths": {f"/p{i}": {"get": {"tags": [tag], "operationId": o, "responses": OK}} for i, o in enumerate(ops)},
            "components": {"schemas": {m: {"type": "object", "properties": {"x": {"type": "string"}}} for m in models}}}


DOCS = {
    "A": mk("Same Title", ["Alpha", "Shared"], ["opA", "opShared"], tag="store"),
    "B": mk("Same Title", ["Beta", "Shared"], ["opB", "opShared"], tag="users"),
    "C": mk("Same Title", ["../../up", "/abs", "a/b", "..", "."], ["../o", "/x/y", "..", "con/../aux"], tag="../../tg"),
    "D": mk("../../Evil/Title", ["Alpha"], ["opA"], tag="/abs/tag"),
    "E": mk("/abs/../Other Title", ["Alpha"], ["opA"], tag="."),
}
# F: operations with several tags; every tag after the first is hostile (matters when generate_all_tags is on)
DOCS["F"] = mk("Same Title", ["Alpha"], ["opA", "opF"], tag="store")
for _i, (_p, _item) in enumerate(DOCS["F"]["paths"].items()):
    _item["get"]["tags"] = ["store", "../../../escaped_rel", "/tmp/specmc_c19_escaped_abs/x", "..", "a/b"][: 3 + 2 * _i]
DOCS["N"] = mk("Same Title", ["Alpha", "Shared"], ["opA", "opShared"], tag="store")
DOCS["N"]["components"]["schemas"]["Alpha"]["description"] = "caf\u00e9 \u2603 non-ASCII"
# G: document A under a title that is spelled differently but derives the same project / package names: only the metadata files
# (README, pyproject description) and the package docstring tell the two apart
DOCS["G"] = mk("SAME-title!", ["Alpha", "Shared"], ["opA", "opShared"], tag="store")
# H: the same names, but the document has lost every schema (no models at all); I: it has lost every operation (no endpoints at all)
DOCS["H"] = mk("Same Title", [], ["opA", "opShared"], tag="store")
DOCS["I"] = mk("Same Title", ["Alpha", "Shared"], [], tag="store")
USER_FILES = ("USER.txt", "user_mod.py", ".editorconfig")
HOOK_FILES = ("HOOK_RAN.txt", "HOOK_STAMP")       # what the configured post hooks leave behind: not part of the generated tree


def commands(tier):
    cmds = []
    docs = ["A", "B", "C", "D"] if tier == "quick" else ["A", "B", "C", "D", "E"]
    for d in docs:
        for meta in ("none", "poetry"):
            for ow in (False, True):
                cmds.append(["gen", d, meta, ow, "default"])
    for ow in (False, True):
        cmds.append(["gen", "G", "poetry", ow, "default"])
    for d in ("H", "I"):
        cmds.append(["gen", d, "none", True, "default"])
    for d in ("A", "B"):
        for meta in (("none",) if tier == "quick" else ("none", "poetry")):
            for ow in (False, True):
                cmds.append(["gen", d, meta, ow, "outpath"])
    for meta in ("none", "poetry"):
        for ow in (False, True):
            cmds.append(["gen", "F", meta, ow, "default", "alltags"])
    if tier != "quick":
        for ow in (False, True):
            cmds.append(["gen", "F", "none", ow, "outpath", "alltags"])
            cmds.append(["gen", "C", "none", ow, "default", "alltags"])
    for d in (("A",) if tier == "quick" else ("A", "B")):
        for ow in (False, True):
            cmds.append(["gen", d, "none", ow, "default", "hooks"])      # with post hooks configured: a refused generation runs nothing
    # a generation that FAILS while writing (the document cannot be encoded as ASCII): whatever it does, the user's files stay
    for meta in (("none",) if tier == "quick" else ("none", "poetry")):
        cmds.append(["gen", "N", meta, True, "default", "ascii"])
    # custom templates kept in a directory of the user's, outside the output directory
    cmds.append(["gen", "A", "none", True, "default", "templates"])
    # name overrides given as empty strings, default location
    for meta in (("none",) if tier == "quick" else ("none", "poetry")):
        for ow in (False, True):
            cmds.append(["gen", "A", meta, ow, "default", "emptynames"])
    cmds += [["user", "root"], ["user", "pkg"], ["user", "modify"]]
    # directories the user made before any generation: an empty one / one that holds only dot entries at the --output-path location,
    # an empty one where the default (title-derived) location of the metadata-free flavour will be
    cmds += [["user", "mkdir-out"], ["user", "dotfiles-out"], ["user", "mkdir-default"]]
    return cmds


def read_all(root):
    out = {}
    for r, _d, files in os.walk(root):
        for x in files:
            p = os.path.join(r, x)
            try:
                with open(p, "rb") as f:
                    out[os.path.relpath(p, root)] = f.read()
            except OSError:
                out[os.path.relpath(p, root)] = b"<unreadable>"
    for r, dirs, _f in os.walk(root):
        for x in dirs:
            p = os.path.join(r, x)
            if not os.listdir(p):
                out[os.path.relpath(p, root) + "/"] = b""
    return out


def restore(root, files):
    shutil.rmtree(root, ignore_errors=True)
    os.makedirs(root)
    for rel, content in files.items():
        p = Path(root) / rel
        if rel.endswith("/"):
            p.mkdir(parents=True, exist_ok=True)
            continue
        p.parent.mkdir(parents=True, exist_ok=True)
        p.write_bytes(content)


def _templates():
    src = Path(gen.REPO) / "openapi_python_client" / "templates" / "api_init.py.jinja"
    return {"user_templates/api_init.py.jinja": (src.read_text(encoding="utf-8") + "\n# custom\n").encode("utf-8")}


INIT = {"sentinel/keep.txt": b"s", "work/unrelated.txt": b"u", "parent_file.txt": b"p", **_templates()}


def state_key(files, flavours):
    h = hashlib.sha1()
    for k in sorted(files):
        h.update(k.encode("utf-8", "surrogateescape"))
        h.update(hashlib.sha1(files[k]).digest())
    h.update(json.dumps(sorted((k, sorted(v)) for k, v in flavours.items())).encode())
    return h.hexdigest()


_RUNNER = {}


def _cli():
    if not _RUNNER:
        from typer.testing import CliRunner
        from openapi_python_client.cli import app
        _RUNNER["r"], _RUNNER["app"] = CliRunner(), app
    return _RUNNER["r"], _RUNNER["app"]


def _sandbox():
    return gen.scratch_root() / "c19sb"


def _docfile(name, cfgname="plain"):
    p = gen.scratch_root() / f"c19doc_{name}.json"
    if not p.exists():
        p.write_text(json.dumps(DOCS[name]))
    cfg = gen.scratch_root() / f"c19cfg_{cfgname}.yml"
    if not cfg.exists():
        if cfgname == "hooks":      # post hooks that leave a trace in their working directory (the project directory)
            cfg.write_text("post_hooks:\n  - 'echo ran > HOOK_RAN.txt'\n  - 'touch HOOK_STAMP'\n")
        elif cfgname == "emptynames":   # overrides that are present but empty: the same as not given
            cfg.write_text("post_hooks: []\nproject_name_override: ''\npackage_name_override: ''\n")
        else:
            cfg.write_text("post_hooks: []\n" + ("generate_all_tags: true\n" if cfgname == "alltags" else ""))
    return p, cfg


_FRESH = {}


def fresh(doc, meta, loc, cfgname="plain"):
    """(output directory relative to the sandbox, tree of a fresh generation from the empty state)."""
    key = (doc, meta, loc, cfgname)
    if key not in _FRESH:
        sb = gen.scratch_root() / "c19fresh"
        restore(sb, {"work/.keep": b"", **_templates()})
        before = set(read_all(sb))
        r = _invoke(sb, doc, meta, False, loc, cfgname)
        after = read_all(sb)
        new = sorted(k for k in after if k not in before)
        top = sorted({"/".join(k.split("/")[:2]) for k in new})
        outdir = top[0] if len(top) == 1 else None
        tree = {k[len(outdir) + 1:]: v for k, v in after.items() if outdir and k.startswith(outdir + "/")}
        _FRESH[key] = (outdir, tree, r.exit_code, top)
        shutil.rmtree(sb, ignore_errors=True)
    return _FRESH[key]


def _invoke(sb, doc, meta, ow, loc, cfgname="plain"):
    runner, app = _cli()
    work = Path(sb) / "work"
    work.mkdir(exist_ok=True)
    docp, cfg = _docfile(doc, cfgname)
    args = ["generate", "--path", str(docp), "--meta", meta, "--config", str(cfg)] + (["--overwrite"] if ow else [])
    if cfgname == "ascii":
        args += ["--file-encoding", "ascii"]
    if cfgname == "templates":
        args += ["--custom-template-path", str(Path(sb) / "user_templates")]
    if loc == "outpath":
        args += ["--output-path", str(work / "out")]
    cwd = os.getcwd()
    os.chdir(work)
    WRITES.clear()
    REC[0] = True
    try:
        return runner.invoke(app, args)
    finally:
        REC[0] = False
        os.chdir(cwd)


def _user_edit(sb, what):
    work = Path(sb) / "work"
    if what == "mkdir-out":
        (work / "out").mkdir(parents=True, exist_ok=True)
        return
    if what == "dotfiles-out":
        (work / "out" / ".hg").mkdir(parents=True, exist_ok=True)
        (work / "out" / ".hg" / "USER.txt").write_text("user\n")
        (work / "out" / ".editorconfig").write_text("root = true\n")
        return
    if what == "mkdir-default":
        (work / "same_title_client").mkdir(parents=True, exist_ok=True)
        return
    for proj in sorted(work.iterdir()):
        if not proj.is_dir():
            continue
        pkg = next((p for p in sorted(proj.iterdir()) if p.is_dir() and (p / "__init__.py").exists()), None)
        root_is_pkg = (proj / "__init__.py").exists()
        if what == "root":
            (proj / "USER.txt").write_text("user\n")
        elif what == "pkg":
            tgt = proj if root_is_pkg else pkg
            if tgt is not None:
                (tgt / "user_mod.py").write_text("user = 1\n")
        elif what == "modify":
            tgt = proj if root_is_pkg else pkg
            if tgt is not None and (tgt / "client.py").exists():
                with open(tgt / "client.py", "ab") as f:
                    f.write(b"\n# edited by the user\n")


def step(files, flavours, cmd):
    """Apply one command to a state; -> (new files, new flavours, violations, exit code)."""
    sb = _sandbox()
    restore(sb, files)
    before = read_all(sb)
    viol = []
    flavours = {k: list(v) for k, v in flavours.items()}
    if cmd[0] == "user":
        _user_edit(sb, cmd[1])
        after = read_all(sb)
        shutil.rmtree(sb, ignore_errors=True)
        return after, flavours, viol, None
    _, doc, meta, ow, loc = cmd[:5]
    cfgname = cmd[5] if len(cmd) > 5 else "plain"
    outdir, ftree, fexit, ftop = fresh(doc, meta, loc, cfgname)
    key = f"{doc}/{meta}/{'ow' if ow else 'no-ow'}/{loc}" + (f"/{cfgname}" if cfgname != "plain" else "")
    if outdir is None:
        shutil.rmtree(sb, ignore_errors=True)
        return before, flavours, [{"oracle": "fresh-generation", "site": "-", "key": key, "detail": f"fresh generation wrote to {ftop} (exit {fexit})"}], None
    r = _invoke(sb, doc, meta, ow, loc, cfgname)
    after = read_all(sb)
    writes = list(WRITES)
    abs_out = os.path.realpath(os.path.join(sb, outdir))
    # invariant 1: every audited write is inside the chosen output directory; nothing else changed
    for ev, p in writes:
        ap = os.path.realpath(p) if os.path.exists(os.path.dirname(p) or ".") else os.path.abspath(p)
        if not (ap == abs_out or ap.startswith(abs_out + os.sep)):
            viol.append({"oracle": "write-outside", "site": ev, "key": key, "detail": f"{ev} {p} is outside the output directory {abs_out}"})
            break
    changed_outside = sorted(k for k in set(before) | set(after) if before.get(k) != after.get(k) and not (k + "/").startswith(outdir + "/"))
    if changed_outside:
        viol.append({"oracle": "changed-outside", "site": "-", "key": key, "detail": f"paths changed outside {outdir}: {changed_outside[:4]}"})
    existed = any((k + "/").startswith(outdir + "/") for k in before)
    crashed = r.exception is not None and not isinstance(r.exception, SystemExit)
    if crashed:
        # a generation that dies half-way is C06's business; what it must never do is take the user's files with it
        for k, v in before.items():
            if k.split("/")[-1] in USER_FILES and not any(part in ("models", "api") for part in k.split("/")[:-1]) and after.get(k) != v:
                viol.append({"oracle": "user-file-lost", "site": "crash", "key": key, "detail": f"the generation crashed ({type(r.exception).__name__}) and user file {k} was removed or changed"})
                break
        shutil.rmtree(sb, ignore_errors=True)
        return after, flavours, viol, "crash"
    if existed and not ow:
        # invariant 2: untouched, error, exit != 0
        if before != after:
            diff = sorted(k for k in set(before) | set(after) if before.get(k) != after.get(k))
            viol.append({"oracle": "clobbered-without-overwrite", "site": "-", "key": key, "detail": f"existing directory modified without --overwrite: {diff[:4]}"})
        if r.exit_code == 0:
            viol.append({"oracle": "exit-status", "site": "-", "key": key, "detail": "exit 0 although the output directory existed and --overwrite was not given"})
        if "already exists" not in (r.output or ""):
            viol.append({"oracle": "no-error-reported", "site": "-", "key": key, "detail": f"no 'already exists' error in output: {(r.output or '')[-200:]!r}"})
    else:
        if r.exit_code != 0:
            viol.append({"oracle": "exit-status", "site": "-", "key": key, "detail": f"exit {r.exit_code} for a generation that should succeed: {(r.output or '')[-300:]!r}"})
        prev = set(flavours.get(outdir, []))
        mine = {k[len(outdir) + 1:]: v for k, v in after.items() if k.startswith(outdir + "/")}
        user_before = {k[len(outdir) + 1:]: v for k, v in before.items() if k.startswith(outdir + "/") and k.split("/")[-1] in USER_FILES}
        if prev <= {meta}:
            # invariant 3: same names and flavour as every earlier generation here => exactly the fresh tree + untouched user files
            gen_only = {k: v for k, v in mine.items() if k.split("/")[-1] not in USER_FILES + HOOK_FILES}
            ftree = {k: v for k, v in ftree.items() if k.split("/")[-1] not in HOOK_FILES}
            if cfgname == "hooks" and not all(h in mine for h in HOOK_FILES):
                viol.append({"oracle": "hooks-not-run", "site": "-", "key": key, "detail": f"post hooks left no trace after a successful generation: {sorted(mine)[:6]}"})
            if gen_only != ftree:
                stale = sorted(set(gen_only) - set(ftree))
                missing = sorted(set(ftree) - set(gen_only))
                differ = sorted(k for k in ftree if k in gen_only and gen_only[k] != ftree[k])
                cls = "stale" if stale else ("missing" if missing else "content")
                viol.append({"oracle": "not-converged", "site": cls, "key": key,
                             "detail": f"regeneration differs from a fresh generation: stale={stale[:4]} missing={missing[:4]} differing={differ[:4]}"})
            for k, v in user_before.items():
                top = k.split("/")
                inside_wiped = any(part in ("models", "api") for part in top[:-1])
                if not inside_wiped and mine.get(k) != v:
                    viol.append({"oracle": "user-file-lost", "site": "-", "key": key, "detail": f"user file {k} was removed or changed"})
        flavours[outdir] = sorted(prev | {meta})
    shutil.rmtree(sb, ignore_errors=True)
    return after, flavours, viol, r.exit_code


def expand(task):
    files, flavours, cmd = task
    new_files, new_flav, viol, code = step(files, flavours, cmd)
    return {"violations": viol, "outcome": f"{cmd[0]}:{'viol' if viol else 'ok'}:{code}", "nontrivial": cmd[0] == "gen" and code != "crash",
            "skipped_crash": code == "crash", "steps": 1, "_new": (new_files, new_flav)}


def lib_histories(tier):
    """Histories of library calls generate(config=...) in which every Config descends (attr.evolve) from the first one, default
    location: steps = (document, overwrite, working directory).  quick: depth 2; thorough: depth 3."""
    alphabet = [[d, ow, cwd] for d in ("A", "B") for ow in (False, True) for cwd in ("work", "work2")]
    depth = 2 if tier == "quick" else 3
    for meta in ("none", "poetry"):
        for n in range(1, depth + 1):
            for seq in itertools.product(alphabet, repeat=n):
                yield {"lib": [list(x) for x in seq], "meta": meta}


def _lib_run(p, shared):
    from attrs import evolve
    sb = gen.scratch_root() / ("c19lib_shared" if shared else "c19lib_fresh")
    restore(sb, {"work/.keep": b"", "work2/.keep": b""})
    cwd0 = os.getcwd()
    trace, cfg = [], None
    try:
        for doc, ow, cwd in p["lib"]:
            docp, _cfgfile = _docfile(doc)
            os.chdir(Path(sb) / cwd)
            if cfg is None or not shared:
                cfg = gen.mkconfig(None, p["meta"], overwrite=ow, source=docp)
            else:
                cfg = evolve(cfg, document_source=docp, overwrite=ow)
            try:
                with contextlib.redirect_stdout(io.StringIO()):
                    errs = gen.opc.generate(config=cfg)
                trace.append(sorted((type(e).__name__, (e.header or "")[:60]) for e in errs))
            except Exception as exc:  # noqa: BLE001
                trace.append([("raised", type(exc).__name__)])
            os.chdir(cwd0)
        return trace, read_all(sb)
    finally:
        os.chdir(cwd0)
        shutil.rmtree(sb, ignore_errors=True)


def expand_lib(p):
    """One library history twice: Configs descending from the first one vs a Config made from scratch for every call."""
    t1, f1 = _lib_run(p, shared=True)
    t2, f2 = _lib_run(p, shared=False)
    viol = []
    key = f"lib/{p['meta']}/{len(p['lib'])}"
    if f1 != f2:
        diff = sorted(k for k in set(f1) | set(f2) if f1.get(k) != f2.get(k))
        viol.append({"oracle": "config-reuse-changes-files", "site": "-", "key": key,
                     "detail": f"with Configs evolved from the first call's Config the sandbox differs from fresh Configs per call: {diff[:4]} ({len(diff)} paths)"})
    if t1 != t2:
        viol.append({"oracle": "config-reuse-changes-errors", "site": "-", "key": key, "detail": f"errors per call: evolved Config {t1} vs fresh Config {t2}"})
    return {"violations": viol, "outcome": "lib:" + ("viol" if viol else "ok"), "nontrivial": bool(f2) and len(f2) > 2, "steps": 2 * len(p["lib"])}


def run_case(p):
    """Replay a whole history from the initial state (used by replay / confirmation)."""
    if "lib" in p:
        return expand_lib(p)
    files, flavours = dict(INIT), {}
    viol = []
    for cmd in p["history"]:
        files, flavours, v, _code = step(files, flavours, cmd)
        viol = v            # the violations of the LAST transition are the ones recorded for this history
    return {"violations": viol, "outcome": "replayed", "nontrivial": True, "steps": len(p["history"])}


def drive(ctx):
    """quick: depth 4 over the quick command set.  thorough: depth 4 over the full command set, then depth 5 over a core command set
    (the full set at depth 5 does not fit in memory: every state holds the whole sandbox)."""
    if ctx.tier == "quick":
        # depth 3 over the full quick command set + depth 4 over a core set (the full set at depth 4 is ~80 k transitions)
        full = commands("quick")
        core = [c for c in full if c[0] == "user" and c[1] in ("root", "pkg", "modify", "mkdir-out")
                or (c[0] == "gen" and len(c) == 5 and ((c[1] in ("A", "B") and c[2] == "none") or (c[1] in ("A", "G") and c[2] == "poetry" and c[3] and c[4] == "default")
                                                      or (c[1] in ("H", "I"))))]
        c1, r1, i1 = _bfs(ctx, full, 3)
        c2, r2, i2 = _bfs(ctx, core, 4)
        c3, r3, n3 = _lib(ctx)
        info = {"states": i1["states"] + i2["states"], "transitions": i1["transitions"] + i2["transitions"] + n3, "traces": i1["traces"] + i2["traces"] + len(c3), "exhaustive": True,
                "bounds": {"depth_full_command_set": 3, "commands_full": len(full), "depth_core_command_set": 4, "commands_core": len(core), "depth_library_histories": 2},
                "extra": {"frontier_at_bound": i1["extra"]["frontier_at_bound"] + i2["extra"]["frontier_at_bound"], "library_histories": len(c3)}}
        return c1 + c2 + c3, r1 + r2 + r3, info
    c1, r1, i1 = _bfs(ctx, commands("thorough"), 4)
    core = [c for c in commands("thorough") if c[0] == "user" or (c[1] in ("A", "B", "C") and c[2] == "none" and c[4] == "default" and len(c) == 5)
            or (c[1] == "A" and c[2] == "poetry" and c[4] == "default" and len(c) == 5) or (len(c) > 5 and c[1] in ("A", "F") and c[2] == "none" and c[4] == "default")]
    c2, r2, i2 = _bfs(ctx, core, 5)
    c3, r3, n3 = _lib(ctx)
    info = {"states": i1["states"] + i2["states"], "transitions": i1["transitions"] + i2["transitions"] + n3, "traces": i1["traces"] + i2["traces"] + len(c3), "exhaustive": True,
            "bounds": {"depth_full_command_set": 4, "commands_full": i1["bounds"]["commands"], "depth_core_command_set": 5, "commands_core": len(core), "depth_library_histories": 3},
            "extra": {"frontier_at_bound": i1["extra"]["frontier_at_bound"] + i2["extra"]["frontier_at_bound"], "library_histories": len(c3)}}
    return c1 + c2 + c3, r1 + r2 + r3, info


def _lib(ctx):
    payloads = list(lib_histories(ctx.tier))
    outs = ctx.map(payloads, fn="expand_lib")
    cases = [{"labels": ["library"] + [f"call{i}={d}:{'overwrite' if ow else 'no-overwrite'}:{cwd}" for i, (d, ow, cwd) in enumerate(p["lib"])] + [f"meta={p['meta']}"], "payload": p} for p in payloads]
    return cases, outs, sum(2 * len(p["lib"]) for p in payloads)


def _bfs(ctx, cmds, depth):
    init_key = state_key(INIT, {})
    seen = {init_key: []}
    frontier = [(INIT, {}, [])]
    cases, results = [], []
    transitions = 0
    for d in range(depth):
        tasks, meta = [], []
        for files, flav, hist in frontier:
            for cmd in cmds:
                tasks.append((files, flav, cmd))
                meta.append(hist + [cmd])
        outs = ctx.map(tasks, fn="expand")
        transitions += len(tasks)
        nxt = []
        for hist, res in zip(meta, outs):
            new = res.pop("_new", None)
            cases.append({"labels": [_label(c) for c in hist], "payload": {"history": hist}})
            results.append(res)
            if new is None:
                continue
            k = state_key(*new)
            if k not in seen:
                seen[k] = hist
                nxt.append((new[0], new[1], hist))
        frontier = nxt
    info = {"states": len(seen), "transitions": transitions, "traces": transitions, "exhaustive": True,
            "bounds": {"depth": depth, "commands": len(cmds)}, "extra": {"frontier_at_bound": len(frontier)}}
    return cases, results, info


def _label(cmd):
    if cmd[0] == "user":
        return f"user-edit:{cmd[1]}"
    return f"gen:{cmd[1]}:{cmd[2]}:{'overwrite' if cmd[3] else 'no-overwrite'}:{cmd[4]}" + (f":{cmd[5]}" if len(cmd) > 5 else "")
