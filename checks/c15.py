"""C15 — allOf composition is the conjunction of its members (DESIGN §C15)."""
from __future__ import annotations

import copy
import datetime
import enum
import inspect
import itertools
import typing
import uuid

from specmc import gen, pyval
from specmc.refmodels import kinds as K
from specmc.sandbox import Sandbox

ID = "C15"
LEVEL = "model_checking"
RULE = ("shared property p declared by two allOf members: full product of ordered kind pairs (17 x 17) x member form (ref+inline; "
        "thorough: inline+inline, ref+ref) x requiredness pattern (4) x default pattern (none / first member / second member); each "
        "case generates BOTH member orders; plus inheritance chains and diamonds under all declaration orders and members with "
        "disjoint property sets, a colliding sibling (snake-case equal to the shared name), enums whose member names are a subset while the values are not, self-referential root parents inherited through chains, single-reference allOf that adds properties / required / additionalProperties, names that are suffixes / prefixes of one another, schemas titled like the schema they compose, compositions written inline inside a property / array items after an ordinary inline object property (parents declared before or after), a child composed from an alias (one-member allOf / oneOf) of a composed parent or of another alias under all 24 declaration orders; a second composition of the referenced member declared before / after (it keeps the member's own kind, requiredness and default); oracle: order-swap differential on the abstract attribute type, RM-narrow partial order, union of "
        "properties and of requiredness, round trip of instances valid for all members; non-trivial = both orders generated or diagnosed; referenced members without properties, a sibling composition of the same parent that fails (type conflict, non-object member, dangling reference), a default carried by an untyped member")
FLOOR = 0.5
ASSUMPTIONS = ["RM-narrow: integer < number, date/date-time < string, enum < its base type, sub-enum < enum, everything < any, array(k) ordered like k"]

KINDS = ["str", "int", "num", "bool", "date", "datetime", "uuid", "enum_ab", "enum_a", "enum_cd", "ienum_12", "ienum_1", "any",
         ["array", "int"], ["array", "num"], ["array", "str"], "model_ref",
         # enums whose derived member NAMES are a subset of another's while the VALUES are not (case-folded / positional names)
         "enum_kbx", "enum_KBxy", "enum_12xx", "enum_451xx"]
SCH = {"enum_ab": {"type": "string", "enum": ["a", "b"]}, "enum_a": {"type": "string", "enum": ["a"]}, "enum_cd": {"type": "string", "enum": ["c", "d"]},
       "ienum_12": {"type": "integer", "enum": [1, 2]}, "ienum_1": {"type": "integer", "enum": [1]},
       "enum_kbx": {"type": "string", "enum": ["kb", "x"]}, "enum_KBxy": {"type": "string", "enum": ["KB", "x", "y"]},
       "enum_12xx": {"type": "string", "enum": ["1xx", "2xx"]}, "enum_451xx": {"type": "string", "enum": ["4xx", "5xx", "1xx"]}}
SAMPLE = {"str": "s", "int": 7, "num": 1.5, "bool": True, "date": "2020-01-02", "datetime": "2020-01-02T03:04:05+00:00", "uuid": K.UUID1,
          "enum_ab": "b", "enum_a": "a", "enum_cd": "c", "ienum_12": 2, "ienum_1": 1, "any": "x", "model_ref": {"z": 1},
          "enum_kbx": "kb", "enum_KBxy": "KB", "enum_12xx": "2xx", "enum_451xx": "4xx"}
DEFAULT = {"any": "dv", "str": "dv", "int": 3, "num": 2.5, "bool": False, "date": "2001-02-03", "enum_ab": "a", "enum_a": "a", "enum_cd": "d", "ienum_12": 1, "ienum_1": 1}


def kname(k):
    return k if isinstance(k, str) else K.kstr(k)


def schema(k, comps):
    if isinstance(k, str) and k in SCH:
        return copy.deepcopy(SCH[k])
    return K.schema(k, comps)


def sample(k):
    if isinstance(k, list):
        return [SAMPLE[k[1]]]
    return SAMPLE[k]


ABS = {"str": "str", "int": "int", "num": "num", "bool": "bool", "date": "date", "datetime": "datetime", "uuid": "uuid", "any": "any", "model_ref": "model",
       "enum_ab": ("enum", ("a", "b")), "enum_a": ("enum", ("a",)), "enum_cd": ("enum", ("c", "d")), "ienum_12": ("enum", (1, 2)), "ienum_1": ("enum", (1,)),
       "enum_kbx": ("enum", ("kb", "x")), "enum_KBxy": ("enum", ("KB", "x", "y")), "enum_12xx": ("enum", ("1xx", "2xx")),
       "enum_451xx": ("enum", ("4xx", "5xx", "1xx"))}


def abstract_of_kind(k):
    if isinstance(k, list):
        return ("array", abstract_of_kind(k[1]))
    return ABS[k]


def leq(a, b):
    """a is at least as narrow as b in RM-narrow."""
    if a == b or b == "any":
        return True
    if a == "int" and b == "num":
        return True
    if a in ("date", "datetime") and b == "str":
        return True
    if isinstance(a, tuple) and a[0] == "enum":
        base = "int" if isinstance(a[1][0], int) else "str"
        if b == base or (base == "int" and b == "num"):
            return True
        if isinstance(b, tuple) and b[0] == "enum":
            return set(a[1]) <= set(b[1])
    if isinstance(a, tuple) and a[0] == "array" and isinstance(b, tuple) and b[0] == "array":
        return leq(a[1], b[1])
    return False


def narrower(a, b):
    if leq(a, b):
        return a
    if leq(b, a):
        return b
    return None


def abstract_of_ann(ann):
    """Abstract attribute type read from the generated annotation (class names ignored)."""
    if ann is typing.Any:
        return "any"
    if isinstance(ann, (str, typing.ForwardRef)):
        return "model"          # an unresolved forward reference to a sibling model class
    origin = typing.get_origin(ann)
    if origin is typing.Union:
        parts = []
        for a in typing.get_args(ann):
            if isinstance(a, type) and a.__name__ == "Unset":
                continue
            parts.append(abstract_of_ann(a))
        parts = sorted(set(parts), key=repr)
        return parts[0] if len(parts) == 1 else ("union", tuple(parts))
    if origin is typing.Literal:
        return ("enum", tuple(sorted(typing.get_args(ann), key=repr)))
    if origin is list:
        args = typing.get_args(ann)
        return ("array", abstract_of_ann(args[0]) if args else "any")
    if ann is type(None):
        return "null"
    if isinstance(ann, type):
        if issubclass(ann, enum.Enum):
            return ("enum", tuple(sorted((m.value for m in ann), key=repr)))
        if ann is bool:
            return "bool"
        if ann is int:
            return "int"
        if ann is float:
            return "num"
        if ann is str:
            return "str"
        if ann is datetime.datetime:
            return "datetime"
        if ann is datetime.date:
            return "date"
        if ann is uuid.UUID:
            return "uuid"
        if hasattr(ann, "from_dict"):
            return "model"
    return f"other:{ann!r}"


def norm_abs(a):
    if isinstance(a, tuple) and a[0] == "enum":
        return ("enum", tuple(sorted(a[1], key=repr)))
    if isinstance(a, tuple) and a[0] == "array":
        return ("array", norm_abs(a[1]))
    return a


def build_doc(k1, k2, form, req, dflt, swapped, pname="p", collide=None, sib=None):
    comps = {}
    members = []
    for i, k in enumerate((k1, k2)):
        s = schema(k, comps)
        which = "first" if i == 0 else "second"
        if dflt == which and kname(k) in DEFAULT:
            if "$ref" in s:
                s = {"allOf": [s], "default": DEFAULT[kname(k)]}
            else:
                s["default"] = DEFAULT[kname(k)]
        m = {"type": "object", "properties": {pname: s, f"only{i}": {"type": "integer"}}}
        if collide and i == 0:
            # a sibling whose wire name maps to the same Python identifier as the shared property: the generator keeps both apart
            m["properties"] = {collide: {"type": "boolean"}, **m["properties"]}
        if req[i]:
            m["required"] = [pname]
        members.append(m)
    order = [1, 0] if swapped else [0, 1]
    allof = []
    for pos, i in enumerate(order):
        inline = (form == "inline+inline") or (form == "ref+inline" and pos == 1)
        if inline:
            allof.append(members[i])
        else:
            comps[f"Member{i}"] = members[i]
            allof.append({"$ref": f"#/components/schemas/Member{i}"})
    comps["M"] = {"allOf": allof}
    if sib and "$ref" in allof[0]:
        # a second, independent composition of the same referenced member, declared before / after M: what M's other member
        # says about the shared property is none of its business
        s2 = {"allOf": [copy.deepcopy(allof[0]), {"type": "object", "properties": {"sibonly": {"type": "integer"}}}]}
        comps = {"Sib": s2, **comps} if sib == "before" else {**comps, "Sib": s2}
    return gen.base_doc(comps)


def cases(tier):
    forms = ["ref+inline"] if tier == "quick" else ["ref+inline", "inline+inline", "ref+ref"]
    for k1, k2 in itertools.product(KINDS, KINDS):
        for form in forms:
            for req in ((False, False), (True, False), (False, True), (True, True)):
                for dflt in ("none", "first", "second"):
                    if dflt == "first" and kname(k1) not in DEFAULT or dflt == "second" and kname(k2) not in DEFAULT:
                        continue
                    if tier == "quick" and dflt != "none" and req not in ((False, False), (True, False), (False, True)):
                        continue
                    yield {"labels": [f"k1={kname(k1)}", f"k2={kname(k2)}", f"form={form}", f"req={int(req[0])}{int(req[1])}"] + ([f"default={dflt}"] if dflt != "none" else []),
                           "payload": {"mode": "pair", "k1": k1, "k2": k2, "form": form, "req": list(req), "default": dflt}}
        # the shared property spelled with a wire name that needs pythonisation
        for pname in ("createdAt", "item-count", "Order Status"):
            for req in ((False, False), (True, False)):
                yield {"labels": [f"k1={kname(k1)}", f"k2={kname(k2)}", "form=ref+inline", f"req={int(req[0])}{int(req[1])}", f"name={pname}"],
                       "payload": {"mode": "pair", "k1": k1, "k2": k2, "form": "ref+inline", "req": list(req), "default": "none", "pname": pname}}
        yield {"labels": [f"k1={kname(k1)}", f"k2={kname(k2)}", "form=ref+inline", "req=00", "name=itemCount", "sibling=item_count"],
               "payload": {"mode": "pair", "k1": k1, "k2": k2, "form": "ref+inline", "req": [False, False], "default": "none", "pname": "itemCount",
                           "collide": "item_count"}}
    for shape in ("chain3", "diamond", "disjoint3", "selfref-chain", "alias-of-composed-parent", "alias-of-alias", "inline-allof-in-properties", "single-ref+own-properties", "single-ref+required-only", "single-ref+closed", "single-ref+member-requires-inherited",
                  "required-only-ref-member", "required-only-ref-member-last", "nested-inline-allof", "nested-inline-allof-3-levels",
                  "empty-parent:type-only", "empty-parent:addl-only", "empty-parent:empty-properties", "empty-parent:middle-of-chain",
                  "failing-sibling:type-conflict", "failing-sibling:non-object-member", "failing-sibling:dangling"):
        names = {"chain3": ["Base", "Mid", "M"], "diamond": ["Base", "Left", "Right", "M"], "disjoint3": ["P1", "P2", "P3", "M"],
                 "selfref-chain": ["Base", "Mid", "M"], "alias-of-composed-parent": ["Base", "Mid", "Alias", "M"],
                 "alias-of-alias": ["Base", "Alias", "Alias2", "M"], "inline-allof-in-properties": ["Addr", "Event", "M"],
                 "required-only-ref-member": ["ReqOnly", "Base", "M"], "required-only-ref-member-last": ["ReqOnly", "Base", "M"],
                 "nested-inline-allof": ["Base", "Other", "M"], "nested-inline-allof-3-levels": ["Base", "Other", "M"]}.get(shape, ["Base", "Bad", "M", "User"] if shape.startswith("failing-sibling") else ["Base", "M", "User"])
        for order in itertools.permutations(names):
            if tier == "quick" and shape == "diamond" and order[0] not in ("M", "Base"):
                continue
            yield {"labels": [f"shape={shape}", "order=" + ",".join(order)], "payload": {"mode": "shape", "shape": shape, "order": list(order)}}
            # the same shape with names that are suffixes of one another (the parent's name ends with the child's, and the reverse)
            if shape == "chain3":
                # a schema TITLED like the schema it composes (its class is named after the title, the parent's after its own title)
                for tn in TITLES:
                    yield {"labels": [f"shape={shape}", "order=" + ",".join(order), f"titles={tn}"],
                           "payload": {"mode": "shape", "shape": shape, "order": list(order), "titles": tn}}
            if shape in ("chain3", "selfref-chain"):
                for naming in NAMINGS:
                    yield {"labels": [f"shape={shape}", "order=" + ",".join(order), f"names={naming}"],
                           "payload": {"mode": "shape", "shape": shape, "order": list(order), "naming": naming}}


def _observe(doc, target="M"):
    """-> ("diag", text) | ("ok", {attr: (abstract, required, default-json)} , class, sandbox-free round-trip results)"""
    from checks.c02 import find_class
    res = gen.generate(doc)
    if res.crash:
        return ("crash", res.crash)
    if res.rejected:
        return ("diag", res.diags[0].short())
    with Sandbox(res.pkg_tree()) as sb:
        try:
            cls = find_class(res, sb, target)
        except Exception as exc:  # noqa: BLE001
            return ("import-fails", f"{type(exc).__name__}: {exc}")
        if cls is None:
            return ("diag", res.diag_text()[:300]) if res.diags else ("silent-drop", "")
        unset = sb.mod("types").UNSET
        hints = pyval.hints(cls)
        sig = inspect.signature(cls)
        attrs = {}
        for n, par in sig.parameters.items():
            d = par.default
            if d is inspect.Parameter.empty:
                dj, required = "<none>", True
            elif d is unset:
                dj, required = "<unset>", False
            else:
                from checks.c04 import reencode
                dj, required = repr(reencode(d)), "default"
            attrs[n] = (norm_abs(abstract_of_ann(hints.get(n, typing.Any))), required, dj)
        # requiredness as from_dict sees it
        mandatory = set()
        for n in ("p", "only0", "only1"):
            pass
        return ("ok", attrs, res, cls.__name__)


def _roundtrip(doc, inst, target="M"):
    from checks.c02 import find_class
    res = gen.generate(doc)
    if res.crash or res.rejected:
        return None
    with Sandbox(res.pkg_tree()) as sb:
        cls = find_class(res, sb, target)
        if cls is None:
            return None
        out = {}
        try:
            o = cls.from_dict(copy.deepcopy(inst))
            out["encode"] = o.to_dict()
        except Exception as exc:  # noqa: BLE001
            out["error"] = f"{type(exc).__name__}: {exc}"
        try:
            without = {k: v for k, v in inst.items() if k in ("only0", "only1")}
            cls.from_dict(without)
            out["absent_ok"] = True
        except Exception:  # noqa: BLE001
            out["absent_ok"] = False
        return out


def _pair(p):
    k1, k2 = p["k1"], p["k2"]
    key = f"{kname(k1)}+{kname(k2)}/{p['form']}/req{int(p['req'][0])}{int(p['req'][1])}" + (f"/default-{p['default']}" if p["default"] != "none" else "")
    a1, a2 = abstract_of_kind(k1), abstract_of_kind(k2)
    want = narrower(a1, a2)
    pname = p.get("pname", "p")
    collide = p.get("collide")
    docs = [build_doc(k1, k2, p["form"], p["req"], p["default"], swapped, pname, collide) for swapped in (False, True)]
    obs = [_observe(d) for d in docs]
    for o in obs:
        if o[0] == "crash":
            return {"skipped_crash": True, "outcome": f"crash:{o[1]['type']}@{o[1]['where']}", "nontrivial": False}
        if o[0] == "import-fails":
            return {"violations": [{"oracle": "composed-module-broken", "site": p["form"], "key": f"{kname(k1)}+{kname(k2)}" + (f"/default-{p['default']}" if p["default"] != "none" else ""),
                                    "detail": f"the composed model's module fails on import: {o[1]}"}], "outcome": "viol:import", "nontrivial": True}
    viol = []
    kinds = [o[0] for o in obs]
    pairkey = f"{kname(k1)}+{kname(k2)}"
    if "silent-drop" in kinds:
        viol.append({"oracle": "silent-drop", "site": p["form"], "key": pairkey, "detail": "composed model missing without a diagnostic"})
    if kinds[0] != kinds[1]:
        viol.append({"oracle": "order-dependent", "site": p["form"], "key": f"{pairkey}/diag-vs-class",
                     "detail": f"order [{kname(k1)}, {kname(k2)}] -> {kinds[0]}, swapped -> {kinds[1]}: {[o[1] if o[0] != 'ok' else o[1].get('p') for o in obs]}"})
    oks = [o for o in obs if o[0] == "ok"]
    for o in oks:
        attrs = o[1]
        shared = [n for n in attrs if n not in ("only0", "only1")]
        if collide:
            if len(shared) != 2 or collide not in shared:
                viol.append({"oracle": "property-missing", "site": p["form"], "key": f"{pairkey}/shared+sibling",
                             "detail": f"composed class attributes: {sorted(attrs)} (expected one for {pname!r} and one for its sibling {collide!r})"})
            else:
                attrs["p"] = attrs[[n for n in shared if n != collide][0]]
        elif len(shared) != 1:
            viol.append({"oracle": "property-missing", "site": p["form"], "key": f"{pairkey}/shared", "detail": f"composed class attributes: {sorted(attrs)} (expected exactly one for {pname!r})"})
        else:
            attrs["p"] = attrs[shared[0]]
        for need in ("only0", "only1"):
            if need not in attrs:
                viol.append({"oracle": "property-missing", "site": p["form"], "key": f"{pairkey}/{need}", "detail": f"composed class lacks {need}: {sorted(attrs)}"})
        if "p" in attrs:
            got, required, dj = attrs["p"]
            if want is None:
                viol.append({"oracle": "incompatible-accepted", "site": p["form"], "key": pairkey,
                             "detail": f"{kname(k1)} and {kname(k2)} are incomparable but the composed attribute silently became {got!r}"})
            elif got != norm_abs(want):
                viol.append({"oracle": "not-narrowest", "site": p["form"], "key": pairkey,
                             "detail": f"members declare {kname(k1)} and {kname(k2)}: composed attribute is {got!r}, narrowest compatible type is {norm_abs(want)!r}"})
            should_req = any(p["req"])
            is_req = required is True or required == "default" and should_req
            if should_req and required is False:
                viol.append({"oracle": "requiredness", "site": p["form"], "key": f"req{int(p['req'][0])}{int(p['req'][1])}", "detail": f"required by a member but optional in the composed class ({pairkey})"})
            if not should_req and required is True:
                viol.append({"oracle": "requiredness", "site": p["form"], "key": f"req{int(p['req'][0])}{int(p['req'][1])}/invented", "detail": f"no member requires p but the composed class does ({pairkey})"})
            _ = is_req
    if len(oks) == 2 and "p" in oks[0][1] and "p" in oks[1][1] and oks[0][1]["p"] != oks[1][1]["p"]:
        viol.append({"oracle": "order-dependent", "site": p["form"], "key": f"{pairkey}/attribute",
                     "detail": f"attribute p is {oks[0][1]['p']!r} in one member order and {oks[1][1]['p']!r} in the other"})
    # a sibling composition of the same referenced member (declared before and after M) is the conjunction of ITS members:
    # its shared property has the kind, requiredness and default the referenced member declares, whatever M's other member says
    # (a merge that narrows / marks / defaults the parent's property object in place shows up here, not in M)
    steps = 2
    if p["form"] != "inline+inline" and not collide and not viol:
        for swapped, o in zip((False, True), obs):
            if o[0] != "ok":
                continue
            i_ref = 1 if swapped else 0
            k_ref = (k1, k2)[i_ref]
            for where in ("before", "after"):
                ds = build_doc(k1, k2, p["form"], p["req"], p["default"], swapped, pname, None, sib=where)
                so = _observe(ds, "Sib")
                steps += 1
                skey = f"{pairkey}/sibling-{where}"
                if so[0] != "ok":
                    viol.append({"oracle": "sibling-composition", "site": p["form"], "key": skey,
                                 "detail": f"Sib = allOf[Member{i_ref}, {{sibonly}}] next to M = allOf[{kname(k1)}, {kname(k2)}]{' (swapped)' if swapped else ''}: {so[0]}: {str(so[1])[:200]}"})
                    continue
                sattrs = so[1]
                shared = [n for n in sattrs if n not in ("only0", "only1", "sibonly")]
                if len(shared) != 1:
                    viol.append({"oracle": "sibling-composition", "site": p["form"], "key": skey + "/attributes", "detail": f"Sib has attributes {sorted(sattrs)}"})
                    continue
                got, required, dj = sattrs[shared[0]]
                want_s = norm_abs(abstract_of_kind(k_ref))
                has_default = p["default"] == ("first", "second")[i_ref]
                if got != want_s:
                    viol.append({"oracle": "sibling-composition", "site": p["form"], "key": skey + "/type",
                                 "detail": f"Member{i_ref} declares {kname(k_ref)}; its other composition Sib has {got!r} because M = allOf[...] merges it with {kname((k1, k2)[1 - i_ref])}"})
                if not has_default and (required is True) != bool(p["req"][i_ref]):
                    viol.append({"oracle": "sibling-composition", "site": p["form"], "key": skey + "/required",
                                 "detail": f"Member{i_ref} {'requires' if p['req'][i_ref] else 'does not require'} p; in its other composition Sib required={required!r} (M's other member: required={p['req'][1 - i_ref]})"})
                if not has_default and dj not in ("<none>", "<unset>"):
                    viol.append({"oracle": "sibling-composition", "site": p["form"], "key": skey + "/default",
                                 "detail": f"Member{i_ref} declares no default for p; its other composition Sib has default {dj}"})
    # instances valid against all members round-trip
    if want is not None and oks and not viol:
        narrow_k = k1 if norm_abs(a1) == norm_abs(want) else k2
        inst = {pname: sample(narrow_k), "only0": 1, "only1": 2}
        if collide:
            inst[collide] = True
        for d in docs[:1]:
            rt = _roundtrip(d, inst)
            steps += 1
            if rt is None:
                continue
            if "error" in rt:
                viol.append({"oracle": "roundtrip", "site": p["form"], "key": pairkey, "detail": f"instance {inst!r} valid for both members does not decode: {rt['error']}"})
            elif not K.json_eq(rt["encode"], inst):
                viol.append({"oracle": "roundtrip", "site": p["form"], "key": pairkey, "detail": f"{inst!r} -> {rt['encode']!r}"})
            if any(p["req"]) and rt.get("absent_ok"):      # (a declared default does not make a required key optional on the wire)
                viol.append({"oracle": "requiredness", "site": p["form"], "key": f"req{int(p['req'][0])}{int(p['req'][1])}/decode", "detail": f"p is required by a member but from_dict accepts its absence ({pairkey})"})
    seen, uniq = set(), []
    for v in viol:
        k = (v["oracle"], v["site"], v["key"])
        if k not in seen:
            seen.add(k)
            uniq.append(v)
    return {"violations": uniq, "outcome": "/".join(kinds) + (":viol" if uniq else ""), "nontrivial": True, "steps": steps}


NAMINGS = {"parent-ends-with-child": {"Base": "MyNewPet", "Mid": "NewPet", "M": "Pet"}, "child-ends-with-parent": {"Base": "Pet", "Mid": "NewPet", "M": "MyNewPet"},
           "parent-starts-with-child": {"Base": "ItemBaseX", "Mid": "ItemBase", "M": "Item"}}


TITLES = {"child-titled-like-parent": {"M": "Mid", "Mid": "Middle"}, "middle-titled-like-root": {"Mid": "Base", "Base": "Root"},
          "both": {"M": "Mid", "Mid": "Base", "Base": "Root"}}


def _shape(p):
    ref = lambda n: {"$ref": f"#/components/schemas/{n}"}  # noqa: E731
    shape = p["shape"]
    if shape == "chain3":
        comps = {"Base": {"type": "object", "required": ["id"], "properties": {"id": {"type": "integer"}, "amount": {"type": "number"}, "label": {"type": "string"}}},
                 "Mid": {"allOf": [ref("Base"), {"type": "object", "required": ["amount"], "properties": {"amount": {"type": "integer"}, "mid": {"type": "string", "format": "date"}}}]},
                 "M": {"allOf": [ref("Mid"), {"type": "object", "properties": {"label": {"type": "string", "enum": ["x", "y"]}, "own": {"type": "boolean"}}}]}}
        expect = {"id": ("int", True), "amount": ("int", True), "label": (("enum", ("x", "y")), False), "mid": ("date", False), "own": ("bool", False)}
        inst = {"id": 1, "amount": 2, "label": "x", "mid": "2020-01-02", "own": True}
    elif shape == "alias-of-composed-parent":
        # M is composed from an ALIAS (one-member allOf, adds nothing) of a parent that is itself a composition: whatever the declaration
        # order, the alias is resolved when its target is
        comps = {"Base": {"type": "object", "required": ["id"], "properties": {"id": {"type": "integer"}}},
                 "Mid": {"allOf": [ref("Base"), {"type": "object", "properties": {"mid": {"type": "string"}}}]},
                 "Alias": {"allOf": [ref("Mid")]},
                 "M": {"allOf": [ref("Alias"), {"type": "object", "required": ["own"], "properties": {"own": {"type": "boolean"}}}]}}
        expect = {"id": ("int", True), "mid": ("str", False), "own": ("bool", True)}
        inst = {"id": 1, "mid": "m", "own": True}
    elif shape == "inline-allof-in-properties":
        # compositions written INLINE inside property schemas (a property, the items of an array), after an ordinary inline object
        # property of the same model; the referenced parents are declared before or after the model
        comps = {"Addr": {"type": "object", "required": ["street"], "properties": {"street": {"type": "string"}, "zip": {"type": "string"}}},
                 "Event": {"type": "object", "properties": {"at": {"type": "string", "format": "date"}}},
                 "M": {"type": "object", "properties": {
                     "note": {"type": "object", "properties": {"t": {"type": "string"}}},
                     "ship": {"allOf": [ref("Addr"), {"type": "object", "properties": {"fast": {"type": "boolean"}}}]},
                     "hist": {"type": "array", "items": {"allOf": [ref("Event"), {"type": "object", "required": ["what"], "properties": {"what": {"type": "string"}}}]}}}}}
        expect = {"note": ("model", False), "ship": ("model", False), "hist": (("array", "model"), False)}
        inst = {"note": {"t": "x"}, "ship": {"street": "s", "zip": "z", "fast": True}, "hist": [{"at": "2020-01-02", "what": "w"}, {"what": "v"}]}
    elif shape.startswith("required-only-ref-member"):
        # a REFERENCED member that only lists `required` for properties the other members declare (referenced / inline), first or last
        members = [ref("ReqOnly"), ref("Base"), {"type": "object", "properties": {"own": {"type": "boolean"}, "free": {"type": "string"}}}]
        if shape.endswith("-last"):
            members = members[1:] + members[:1]
        comps = {"ReqOnly": {"type": "object", "required": ["label", "own"]},
                 "Base": {"type": "object", "required": ["id"], "properties": {"id": {"type": "integer"}, "label": {"type": "string"}}},
                 "M": {"allOf": members}}
        expect = {"id": ("int", True), "label": ("str", True), "own": ("bool", True), "free": ("str", False)}
        inst = {"id": 1, "label": "l", "own": True, "free": "f"}
    elif shape.startswith("nested-inline-allof"):
        # an inline member that is itself composed (allOf inside an allOf member), two and three levels deep
        inner = {"allOf": [ref("Base"), {"type": "object", "required": ["n"], "properties": {"n": {"type": "integer"}}}]}
        if shape.endswith("3-levels"):
            inner = {"allOf": [inner, ref("Other"), {"required": ["label"]}]}
        else:
            inner["allOf"].append(ref("Other"))
        comps = {"Base": {"type": "object", "required": ["id"], "properties": {"id": {"type": "integer"}, "label": {"type": "string"}}},
                 "Other": {"type": "object", "properties": {"o": {"type": "string", "format": "date"}}},
                 "M": {"allOf": [inner, {"type": "object", "properties": {"own": {"type": "boolean"}}}]}}
        expect = {"id": ("int", True), "label": ("str", shape.endswith("3-levels")), "n": ("int", True), "o": ("date", False), "own": ("bool", False)}
        inst = {"id": 1, "label": "l", "n": 2, "o": "2020-01-02", "own": True}
    elif shape == "alias-of-alias":
        comps = {"Base": {"type": "object", "required": ["id"], "properties": {"id": {"type": "integer"}, "label": {"type": "string"}}},
                 "Alias": {"allOf": [ref("Base")]}, "Alias2": {"oneOf": [ref("Alias")]},
                 "M": {"allOf": [ref("Alias2"), {"type": "object", "properties": {"own": {"type": "boolean"}}}]}}
        expect = {"id": ("int", True), "label": ("str", False), "own": ("bool", False)}
        inst = {"id": 1, "label": "l", "own": False}
    elif shape == "diamond":
        comps = {"Base": {"type": "object", "required": ["id"], "properties": {"id": {"type": "integer"}, "v": {"type": "number"}}},
                 "Left": {"allOf": [ref("Base"), {"type": "object", "properties": {"l": {"type": "string"}, "v": {"type": "integer"}}}]},
                 "Right": {"allOf": [ref("Base"), {"type": "object", "required": ["r"], "properties": {"r": {"type": "string"}}}]},
                 "M": {"allOf": [ref("Left"), ref("Right")]}}
        expect = {"id": ("int", True), "v": ("int", False), "l": ("str", False), "r": ("str", True)}
        inst = {"id": 1, "v": 3, "l": "a", "r": "b"}
    elif shape.startswith("failing-sibling:"):
        # two compositions of one parent; the OTHER one cannot be composed (conflict / clash / dangling member): M is unaffected, whatever the order
        base = {"type": "object", "required": ["id"], "properties": {"id": {"type": "integer"}, "label": {"type": "string"}}}
        bad_member = {"type-conflict": {"type": "object", "properties": {"id": {"type": "string", "format": "date"}}},
                      "non-object-member": {"allOf": [{"type": "string", "enum": ["x"]}]},
                      "dangling": {"type": "object", "properties": {"gone": ref("Nope")}}}[shape.split(":")[1]]
        comps = {"Base": base, "Bad": {"allOf": [ref("Base"), bad_member]},
                 "M": {"allOf": [ref("Base"), {"type": "object", "required": ["own"], "properties": {"own": {"type": "boolean"}}}]},
                 "User": {"type": "object", "properties": {"m": ref("M")}}}
        expect = {"id": ("int", True), "label": ("str", False), "own": ("bool", True)}
        inst = {"id": 1, "label": "l", "own": True}
    elif shape.startswith("empty-parent:"):
        # a referenced member that declares NO properties of its own is still a processed member
        empty = {"type-only": {"type": "object"}, "addl-only": {"type": "object", "additionalProperties": {"type": "string"}},
                 "empty-properties": {"type": "object", "properties": {}}, "middle-of-chain": {"type": "object"}}[shape.split(":")[1]]
        if shape.endswith("middle-of-chain"):
            comps = {"Base": {"type": "object", "required": ["id"], "properties": {"id": {"type": "integer"}}},
                     "User": {"allOf": [ref("Base")]},            # adds nothing (alias), then extended
                     "M": {"allOf": [ref("User"), dict(empty), {"type": "object", "properties": {"own": {"type": "boolean"}}}]}}
            expect = {"id": ("int", True), "own": ("bool", False)}
            inst = {"id": 1, "own": True}
        else:
            comps = {"Base": empty, "M": {"allOf": [ref("Base"), {"type": "object", "required": ["own"], "properties": {"own": {"type": "boolean"}}}]},
                     "User": {"type": "object", "properties": {"m": ref("M")}}}
            expect = {"own": ("bool", True)}
            inst = {"own": False}
    elif shape.startswith("single-ref+"):
        # an allOf with ONE reference member whose schema adds something of its own next to the allOf keyword
        base = {"type": "object", "required": ["id"], "properties": {"id": {"type": "integer"}, "label": {"type": "string"}}}
        own = {"single-ref+own-properties": {"properties": {"own": {"type": "boolean"}}, "required": ["own"]},
               "single-ref+required-only": {"required": ["label"]}, "single-ref+closed": {"additionalProperties": False},
               "single-ref+member-requires-inherited": {}}[shape]
        members = [ref("Base")] + ([{"required": ["label"]}, {"type": "object", "properties": {"z": {"type": "integer"}}}] if shape.endswith("inherited") else [])
        comps = {"Base": base, "M": {"allOf": members, **own}, "User": {"type": "object", "properties": {"m": ref("M"), "b": ref("Base")}}}
        expect = {"id": ("int", True), "label": ("str", shape in ("single-ref+required-only", "single-ref+member-requires-inherited"))}
        inst = {"id": 1, "label": "l"}
        if shape == "single-ref+own-properties":
            expect["own"] = ("bool", True)
            inst["own"] = False
    elif shape == "selfref-chain":
        # the root parent refers to itself (property, array, union): the children inherit those properties unchanged
        comps = {"Base": {"type": "object", "required": ["id"], "properties": {"id": {"type": "integer"}, "next": ref("Base"),
                                                                               "either": {"oneOf": [ref("Base"), {"type": "integer"}]}}},
                 "Mid": {"allOf": [ref("Base"), {"type": "object", "properties": {"name": {"type": "string"}}}]},
                 "M": {"allOf": [ref("Mid"), {"type": "object", "properties": {"own": {"type": "boolean"}}}]}}
        expect = {"id": ("int", True), "name": ("str", False), "own": ("bool", False)}
        inst = {"id": 1, "next": {"id": 2, "next": {"id": 5}}, "either": {"id": 6, "either": 7}, "name": "n", "own": True}      # (no optional array: C02's recorded finding)
    else:
        comps = {"P1": {"type": "object", "required": ["a"], "properties": {"a": {"type": "string"}}},
                 "P2": {"type": "object", "properties": {"b": {"type": "integer"}}},
                 "P3": {"type": "object", "required": ["c"], "properties": {"c": {"type": "string", "format": "date-time"}}, "additionalProperties": False},
                 "M": {"allOf": [ref("P1"), ref("P2"), ref("P3"), {"type": "object", "properties": {"flag": {"type": "boolean"}}}]}}
        expect = {"a": ("str", True), "b": ("int", False), "c": ("datetime", True), "flag": ("bool", False)}
        inst = {"a": "x", "b": 1, "c": "2020-01-02T03:04:05+00:00", "flag": False}
    doc = gen.base_doc({k: comps[k] for k in p["order"]})
    target = "M"
    for comp, title in TITLES.get(p.get("titles"), {}).items():
        doc["components"]["schemas"][comp]["title"] = title
    if p.get("naming"):
        import json
        text = json.dumps(doc)
        for old_, new_ in NAMINGS[p["naming"]].items():
            text = text.replace(f'#/components/schemas/{old_}"', f'#/components/schemas/\u0001{new_}"').replace(f'"{old_}": ', f'"\u0001{new_}": ')
        doc = json.loads(text.replace("\u0001", ""))
        target = NAMINGS[p["naming"]]["M"]
    o = _observe(doc, target)
    if o[0] == "crash":
        return {"skipped_crash": True, "outcome": "crash", "nontrivial": False}
    key = f"{shape}"
    viol = []
    if o[0] != "ok":
        viol.append({"oracle": "shape-not-generated", "site": shape, "key": key, "detail": f"order {p['order']}: {o[0]} {str(o[1])[:200]}"})
    else:
        attrs = o[1]
        for n, (ab, req) in expect.items():
            if n not in attrs:
                viol.append({"oracle": "property-missing", "site": shape, "key": f"{key}/{n}", "detail": f"order {p['order']}: composed class lacks {n}"})
                continue
            got, required, _dj = attrs[n]
            if got != norm_abs(ab):
                viol.append({"oracle": "not-narrowest", "site": shape, "key": f"{key}/{n}", "detail": f"order {p['order']}: {n} is {got!r}, expected {norm_abs(ab)!r}"})
            if (required is True) != req:
                viol.append({"oracle": "requiredness", "site": shape, "key": f"{key}/{n}", "detail": f"order {p['order']}: {n} required={required!r}, expected {req}"})
        rt = _roundtrip(doc, inst, target)
        if rt and ("error" in rt or not K.json_eq(rt.get("encode"), inst)):
            viol.append({"oracle": "roundtrip", "site": shape, "key": key, "detail": f"order {p['order']}: {inst!r} -> {rt}"})
    return {"violations": viol, "outcome": "ok" if not viol else "viol", "nontrivial": True, "steps": 2}


def run_case(p):
    return _pair(p) if p["mode"] == "pair" else _shape(p)
