"""C12 — same document, same bytes: deterministic and order-independent (DESIGN §C12)."""
from __future__ import annotations

import copy
import itertools
import json
import os
import subprocess
import sys

from specmc import gen

ID = "C12"
LEVEL = "model_checking"
RULE = ("(a) every document of a reference-heavy family and the repository's baseline documents: generated twice in one process, in "
        "fresh processes under real PYTHONHASHSEED 0..7 (thorough 0..31), with and without the ruff post-hooks, and with five post-hooks whose order shows in the tree (also under owned set order); (b) set order as "
        "scheduling: under the VSet loader every iterated set of >=2 elements is re-ordered (all permutations up to 4 elements, "
        "adjacent swaps + reversal + rotation above), one deviation at a time (thorough: also pairs), every byte difference "
        "confirmed with real hash seeds before it is reported; (c) all permutations of components.schemas (<=4 names permuted) "
        "and paths (<=3) of every family document that generates without diagnostics; the family includes unions with repeated members after flattening, component unions with an inline member before a forward reference, one model as body under three media types, siblings re-declaring an inherited property; oracle: byte-identical trees; tuple-like arrays (prefixItems + items) as components before / after their item target and as a shared path-item parameter, one operation answering with classes that differ only in case, operations under different tags whose module names coincide, the same enum class under another value order (string and integer members) or described differently at each use, class names and literal values differing only in case, children promoting several inherited properties, 3.0 nullable wrappers around forward references")
FLOOR = 0.5
CASE_LIMIT = 600
ASSUMPTIONS = ["VSet models hash order as a function of the set's contents; a model-level difference is only a candidate until two real interpreters reproduce it",
               "ruff (post hooks) is taken from /venv/bin"]
ROOT = os.path.dirname(os.path.dirname(os.path.abspath(__file__)))
R = "#/components/schemas/"


def ref(n):
    return {"$ref": R + n}


def jr(n, code="200"):
    return {code: {"description": "d", "content": {"application/json": {"schema": ref(n)}}}}


def family():
    """id -> (doc, options)"""
    F = {}
    obj = lambda **props: {"type": "object", "properties": props}  # noqa: E731
    F["chain"] = gen.base_doc({"A": obj(x={"type": "string"}), "B": obj(a=ref("A")), "C": obj(b=ref("B"), a=ref("A")), "D": obj(c=ref("C"), b=ref("B"), a=ref("A"))})
    F["forward-chain"] = gen.base_doc({"D": obj(c=ref("C"), b=ref("B"), a=ref("A")), "C": obj(b=ref("B"), a=ref("A")), "B": obj(a=ref("A")), "A": obj(x={"type": "string"})})
    F["mutual"] = gen.base_doc({"Ping": obj(pong=ref("Pong"), n={"type": "integer"}), "Pong": obj(ping=ref("Ping"), other=ref("Third")), "Third": obj(p=ref("Ping"), q=ref("Pong"))})
    F["allof-pets"] = gen.base_doc({"NewPet": {"type": "object", "required": ["name"], "properties": {"name": {"type": "string"}, "tag": {"type": "string"}}},
                                    "Pet": {"allOf": [ref("NewPet"), {"type": "object", "required": ["id"], "properties": {"id": {"type": "integer"}}}]},
                                    "BigPet": {"allOf": [ref("Pet"), {"type": "object", "properties": {"size": {"type": "number"}}}]}},
                                   paths={"/pets": {"get": {"operationId": "listPets", "responses": {"200": {"description": "d", "content": {"application/json": {"schema": {"type": "array", "items": ref("Pet")}}}}}},
                                                    "post": {"operationId": "addPet", "requestBody": {"content": {"application/json": {"schema": ref("NewPet")}}}, "responses": jr("Pet")}},
                                          "/pets/{id}": {"get": {"operationId": "getPet", "parameters": [{"name": "id", "in": "path", "required": True, "schema": {"type": "integer"}}], "responses": jr("BigPet")}}})
    F["allof-base-suffix"] = gen.base_doc({"Item": {"allOf": [ref("BaseItem"), obj(extra={"type": "string"})]}, "BaseItem": obj(id={"type": "integer"}),
                                           "SubItem": {"allOf": [ref("Item"), obj(more={"type": "boolean"})]}})
    F["shared-enums"] = gen.base_doc({"Color": {"type": "string", "enum": ["r", "g"]}, "Size": {"type": "integer", "enum": [1, 2]},
                                      "Shirt": obj(c=ref("Color"), s=ref("Size"), alt={"type": "array", "items": ref("Color")}), "Hat": obj(c=ref("Color"), s=ref("Size"))})
    F["unions-of-models"] = gen.base_doc({"Cat": obj(m={"type": "string"}), "Dog": obj(w={"type": "string"}), "Bird": obj(t={"type": "string"}), "Fish": obj(f={"type": "number"}),
                                          "Owner": obj(pet={"oneOf": [ref("Cat"), ref("Dog"), ref("Bird"), ref("Fish")]}, pets={"type": "array", "items": {"anyOf": [ref("Dog"), ref("Cat")]}},
                                                       maybe={"oneOf": [ref("Fish"), {"type": "null"}, {"type": "string", "format": "date"}, {"type": "integer"}]})})
    F["many-refs"] = gen.base_doc({"Hub": obj(**{f"r{i}": ref(n) for i, n in enumerate(["Zeta", "Alpha", "Mu", "Beta", "Omega", "Gamma"])}, when={"type": "string", "format": "date-time"},
                                              uid={"type": "string", "format": "uuid"}, f={"type": "string", "format": "binary"}),
                                   **{n: obj(v={"type": "integer"}) for n in ["Zeta", "Alpha", "Mu", "Beta", "Omega", "Gamma"]}})
    F["multi-response"] = gen.base_doc({"Ok": obj(a={"type": "string"}), "Err": obj(m={"type": "string"}), "Other": obj(o={"type": "integer"}), "Third": obj(t={"type": "boolean"})},
                                       paths={"/x": {"get": {"operationId": "getX", "responses": {**jr("Ok"), **jr("Err", "404"), **jr("Other", "500"), **jr("Third", "201")},
                                                             "parameters": [{"name": "q", "in": "query", "schema": ref("Ok")}, {"name": "h", "in": "header", "schema": {"type": "string", "enum": ["a", "b"]}},
                                                                            {"name": "c", "in": "cookie", "schema": {"type": "string"}}, {"name": "z", "in": "query", "schema": {"type": "array", "items": {"type": "string", "format": "date"}}}]},
                                                     "post": {"operationId": "postX", "requestBody": {"content": {"application/json": {"schema": ref("Other")}, "multipart/form-data": {"schema": ref("Third")},
                                                                                                                  "application/x-www-form-urlencoded": {"schema": ref("Err")}}}, "responses": jr("Ok")}}})
    F["multi-tags"] = gen.base_doc({"T": obj(a={"type": "string"})}, paths={
        "/a": {"get": {"operationId": "getA", "tags": ["orders", "billing", "reporting", "admin"], "responses": jr("T")}},
        "/b": {"get": {"operationId": "getB", "tags": ["zeta", "alpha"], "responses": jr("T")}, "post": {"operationId": "postB", "tags": ["alpha", "zeta", "mid"], "responses": jr("T")}},
        "/c": {"delete": {"operationId": "delC", "responses": {"204": {"description": "n"}}}}})
    F["multi-tags-all"] = (copy.deepcopy(F["multi-tags"]), {"generate_all_tags": True})
    F["array-alias"] = gen.base_doc({"Row": obj(v={"type": "integer"}), "Rows": {"type": "array", "items": ref("Row")}, "Table": obj(rows=ref("Rows"), more={"type": "array", "items": ref("Rows")}),
                                     "Wrapper": {"allOf": [ref("Row")]}, "User": obj(w=ref("Wrapper"))})
    F["inline-clash"] = gen.base_doc({"Foo": obj(bar=obj(x={"type": "string"}), baz={"type": "string", "enum": ["p", "q"]}), "FooBar2": obj(y={"type": "integer"}),
                                      "Holder": obj(foo=ref("Foo"), items={"type": "array", "items": obj(deep=obj(z={"type": "number"}))})})
    F["addl-and-nested"] = gen.base_doc({"Money": obj(amount={"type": "number"}), "Prices": {"type": "object", "additionalProperties": ref("Money")},
                                         "Catalog": obj(prices=ref("Prices"), extra={"type": "object", "additionalProperties": {"type": "array", "items": ref("Money")}})})
    F["params-components"] = gen.base_doc({"Kind": {"type": "string", "enum": ["k1", "k2"]}}, paths={
        "/p/{id}": {"parameters": [{"$ref": "#/components/parameters/Trace"}, {"name": "id", "in": "path", "required": True, "schema": {"type": "string"}}],
                    "get": {"operationId": "getP", "parameters": [{"$ref": "#/components/parameters/Kind"}, {"$ref": "#/components/parameters/Limit"}], "responses": {"200": {"$ref": "#/components/responses/Ok"}}},
                    "put": {"operationId": "putP", "requestBody": {"$ref": "#/components/requestBodies/B"}, "responses": {"200": {"$ref": "#/components/responses/Ok"}}}}},
        components={"parameters": {"Trace": {"name": "X-Trace", "in": "header", "schema": {"type": "string"}}, "Kind": {"name": "kind", "in": "query", "schema": ref("Kind")},
                                   "Limit": {"name": "limit", "in": "query", "schema": {"type": "integer", "default": 5}}},
                    "responses": {"Ok": {"description": "d", "content": {"application/json": {"schema": ref("Kind")}}}},
                    "requestBodies": {"B": {"content": {"application/json": {"schema": ref("Kind")}}}}})
    # unions that, once nested unions are flattened, name the same member more than once (a de-duplication point)
    F["unions-repeated-members"] = gen.base_doc({
        "Cat": obj(m={"type": "string"}), "Dog": obj(w={"type": "string"}), "Bird": obj(t={"type": "string"}),
        "CatOrDog": {"oneOf": [ref("Cat"), ref("Dog")]}, "DogOrBird": {"oneOf": [ref("Dog"), ref("Bird")]},
        "Owner": obj(pet={"oneOf": [ref("CatOrDog"), ref("DogOrBird")]},
                     maybe={"oneOf": [{"type": ["string", "null"]}, {"type": ["integer", "null"]}, {"type": ["number", "null"], "format": "float"}]},
                     pets={"type": "array", "items": {"anyOf": [ref("DogOrBird"), ref("CatOrDog"), {"type": "null"}, ref("Cat")]}},
                     scalars={"anyOf": [{"type": "string"}, {"type": "integer"}, {"type": "string"}, {"type": "boolean"}, {"type": "integer"}]})},
        paths={"/o": {"get": {"operationId": "getO", "responses": {"200": {"description": "d", "content": {"application/json": {"schema": {"oneOf": [ref("CatOrDog"), ref("DogOrBird"), ref("Owner")]}}}}}}}})
    # component-level unions / arrays of unions with an inline member BEFORE a reference: the reference may be a forward one
    F["component-union-inline-first"] = gen.base_doc({
        "Later": obj(l={"type": "integer"}),
        "Choice": {"oneOf": [obj(inl={"type": "string"}), ref("Later")]},
        "Choices": {"type": "array", "items": {"anyOf": [obj(row={"type": "number"}), {"type": "string", "enum": ["e1", "e2"]}, ref("Later")]}},
        "Owner": obj(c=ref("Choice"), cs=ref("Choices"))},
        paths={"/c": {"get": {"operationId": "getC", "responses": jr("Owner")}}})
    # one model as the body of several operations under different media types (the class is registered once per use)
    body = lambda m: {"required": True, "content": {m: {"schema": ref("Form")}}}  # noqa: E731
    F["shared-body-model"] = gen.base_doc({"Form": obj(title={"type": "string"}, n={"type": "integer"})}, paths={
        "/multi": {"post": {"operationId": "sendMulti", "requestBody": body("multipart/form-data"), "responses": {"204": {"description": "n"}}}},
        "/json": {"post": {"operationId": "sendJson", "requestBody": body("application/json"), "responses": {"204": {"description": "n"}}}},
        "/form": {"put": {"operationId": "sendForm", "requestBody": body("application/x-www-form-urlencoded"), "responses": jr("Form")}}})
    # siblings that re-declare the same inherited property differently (default / description / requiredness)
    F["allof-siblings-redeclare"] = gen.base_doc({
        "Shape": {"type": "object", "properties": {"kind": {"type": "string"}, "area": {"type": "number"}}},
        "Circle": {"allOf": [ref("Shape"), {"type": "object", "properties": {"kind": {"type": "string", "default": "circle", "description": "always circle"}, "r": {"type": "number"}}}]},
        "Square": {"allOf": [ref("Shape"), {"type": "object", "required": ["kind"], "properties": {"kind": {"type": "string", "default": "square", "description": "always square"}, "side": {"type": "number"}}}]},
        "Blob": {"allOf": [ref("Shape"), {"type": "object", "properties": {"area": {"type": "integer", "default": 0}}}]}})
    # a child whose required list promotes SEVERAL inherited optional properties (order of promotion must not be a set's order)
    F["required-promotes-inherited"] = gen.base_doc({
        "Base": obj(alpha={"type": "string"}, beta={"type": "integer"}, gamma={"type": "boolean"}, delta={"type": "number"}, epsilon={"type": "string", "format": "date"}),
        "Strict": {"allOf": [ref("Base"), {"required": ["epsilon", "alpha", "gamma", "delta"]}]},
        "Stricter": {"allOf": [ref("Strict")], "required": ["beta", "zeta"], "properties": {"zeta": {"type": "string"}}}})
    # union-like wrappers (3.0 nullable reference, nullable array, nullable composed inline object) around references that may be forward ones
    F["nullable-wrappers-30"] = (gen.base_doc({
        "Person": obj(name={"type": "string"}),
        "MaybePerson": {"allOf": [ref("Person")], "nullable": True},
        "MaybePeople": {"type": "array", "items": ref("Person"), "nullable": True},
        "Task": obj(assignee={"nullable": True, "allOf": [ref("Person"), obj(role={"type": "string"})]}, owner=ref("MaybePerson"), team=ref("MaybePeople"))},
        paths={"/t": {"get": {"operationId": "getT", "responses": jr("Task")}}}, version="3.0.3"), {})
    # two enums that resolve to ONE class with the same value set listed in a different order (the class keeps one declaration)
    F["same-enum-class-other-order"] = gen.base_doc({
        "Pet": obj(status_code={"type": "string", "enum": ["ok", "sick", "gone"]}, name={"type": "string"}),
        "PetStatus": obj(code={"type": "string", "enum": ["gone", "ok", "sick"]}),
        "Alpha": {"type": "string", "title": "Level", "enum": ["lo", "mid", "hi"]}, "Beta": obj(l={"type": "string", "title": "Level", "enum": ["hi", "lo", "mid"]})})
    # ... the same with integer members
    F["same-int-enum-class-other-order"] = gen.base_doc({
        "User": obj(role_type={"type": "integer", "enum": [1, 2, 3]}, name={"type": "string"}),
        "UserRole": obj(type={"type": "integer", "enum": [3, 2, 1]})})
    # two inline enums that resolve to ONE class (same members, same order) but are described differently: each use keeps its own words
    F["same-enum-class-described"] = gen.base_doc({
        "User": obj(role_type={"type": "string", "enum": ["admin", "guest"], "description": "the role of the user", "example": "admin"}, name={"type": "string"}),
        "UserRole": obj(type={"type": "string", "enum": ["admin", "guest"], "description": "a role as such", "example": "guest", "default": "guest"}),
        "Team": obj(lead_level={"type": "integer", "enum": [1, 2], "description": "level of the lead"}), "TeamLead": obj(level={"type": "integer", "enum": [1, 2], "description": "a level"})},
        paths={"/u": {"get": {"operationId": "getU", "parameters": [{"name": "role_type", "in": "query", "description": "filter by role", "schema": {"type": "string", "title": "UserRoleType", "enum": ["admin", "guest"]}}],
                              "responses": jr("User")}}})
    # class names that differ only in case, in different modules
    F["case-twin-class-names"] = gen.base_doc({
        "FileName": obj(a={"type": "string"}), "Filename": obj(b={"type": "string"}), "UserName": obj(c={"type": "string"}), "Username": obj(d={"type": "string"}),
        "TimeStamp": {"type": "string", "enum": ["t1"]}, "Timestamp": {"type": "string", "enum": ["t2"]}, "PostCode": {"type": "integer", "enum": [1]}, "Postcode": {"type": "integer", "enum": [2]},
        "Holder": obj(f1=ref("FileName"), f2=ref("Filename"), u1=ref("UserName"), u2=ref("Username"), t1=ref("TimeStamp"), t2=ref("Timestamp"), p1=ref("PostCode"), p2=ref("Postcode"))})
    # one operation whose responses are classes that differ only in case (the return-type union lists them), also as body media types
    F["case-twin-responses"] = gen.base_doc({
        "OAuthToken": obj(a={"type": "string"}), "OauthToken": obj(b={"type": "string"}), "Problem": obj(p={"type": "integer"}), "problem": obj(q={"type": "integer"})},
        paths={"/t": {"post": {"operationId": "getToken", "requestBody": {"content": {"application/json": {"schema": ref("OAuthToken")}, "application/x-www-form-urlencoded": {"schema": ref("OauthToken")}}},
                               "responses": {"200": {"description": "d", "content": {"application/json": {"schema": ref("OAuthToken")}}}, "201": {"description": "d", "content": {"application/json": {"schema": ref("OauthToken")}}},
                                             "400": {"description": "d", "content": {"application/json": {"schema": ref("Problem")}}}, "404": {"description": "d", "content": {"application/json": {"schema": ref("problem")}}}}}}})
    # operations under DIFFERENT tags whose module names coincide (listAll / list_all / LIST-ALL): each tag package keeps its own module
    F["same-module-name-other-tag"] = gen.base_doc({"U": obj(u={"type": "string"}), "G": obj(g={"type": "integer"}), "R": obj(r={"type": "boolean"})},
        paths={"/users": {"get": {"operationId": "listAll", "tags": ["users"], "responses": jr("U")}},
               "/groups": {"get": {"operationId": "list_all", "tags": ["groups"], "parameters": [{"name": "q", "in": "query", "schema": {"type": "string"}}], "responses": jr("G")}},
               "/roles": {"get": {"operationId": "LIST-ALL", "tags": ["roles", "users2"], "responses": jr("R")}}})
    # unions whose member names / values differ only in zero padding, digit position or case (a "natural" sort ties on them)
    twins = {n: {"type": "object", "properties": {n.lower(): {"type": "integer"}}} for n in ("Plan1", "Plan01", "Plan001", "Plan10", "Plan2", "PlanA", "Plana")}
    twins["Holder"] = {"type": "object", "properties": {
        "plan": {"oneOf": [ref(n) for n in ("Plan1", "Plan01", "Plan001", "Plan10", "Plan2")]},
        "code": {"oneOf": [{"const": "7"}, {"const": "07"}, {"const": "007"}, {"const": "10"}, {"const": "2"}]},
        "either": {"anyOf": [ref("PlanA"), ref("Plana"), {"type": "string", "enum": ["x1", "x01"]}, {"type": "string", "enum": ["x01", "x1", "x001"]}]}}}
    F["zero-padded-twins"] = gen.base_doc(twins, paths={"/h": {"get": {"operationId": "getH", "responses": jr("Holder")}}})
    # 3.1 tuple-like arrays (prefixItems + items): a component declared before / after what its items reference, a path-item parameter
    # shared by three operations (the schema object is parsed once per use)
    tup = lambda items: {"type": "array", "prefixItems": [{"type": "string"}, {"type": "integer"}], "items": items}  # noqa: E731
    F["tuple-arrays"] = gen.base_doc({"Arr": tup(ref("Later")), "Later": obj(x={"type": "integer"}), "Holder": obj(a=ref("Arr"), inline=tup({"type": "boolean"})), "Plain": tup({"type": "number"})},
        paths={"/x": {"parameters": [{"name": "q", "in": "query", "schema": tup({"type": "boolean"})}],
                      "get": {"operationId": "a1", "responses": jr("Holder")}, "post": {"operationId": "a2", "responses": jr("Holder")}, "put": {"operationId": "a3", "responses": jr("Plain")}}})
    # literal enums whose values differ only in case
    F["literal-enum-case"] = (gen.base_doc({"Unit": {"type": "string", "enum": ["m", "M", "mm", "Mm", "MM", "k", "K"]}, "Holder": obj(u=ref("Unit"), v={"type": "string", "enum": ["a", "A", "b", "B"]})}),
                              {"literal_enums": True})
    out = {}
    for k, v in F.items():
        out[k] = v if isinstance(v, tuple) else (v, {})
    for name, fn in (("baseline30", "baseline_openapi_3.0.json"), ("baseline31", "baseline_openapi_3.1.yaml")):
        p = os.path.join(gen.REPO, "end_to_end_tests", fn)
        try:
            if fn.endswith(".json"):
                out[name] = (json.load(open(p, encoding="utf-8")), {})
            else:
                from ruamel.yaml import YAML
                out[name] = (json.loads(json.dumps(YAML(typ="safe").load(open(p, encoding="utf-8")), default=str)), {})
        except OSError:
            pass
    return out


_FAM = {}


def fam():
    if not _FAM:
        _FAM.update(family())
    return _FAM


def _sub(mode, job, hashseed=None, path_extra=None):
    env = dict(os.environ)
    env["SPECMC_NO_REEXEC"] = "1"
    if hashseed is not None:
        env["PYTHONHASHSEED"] = str(hashseed)
    if path_extra:
        env["PATH"] = path_extra + os.pathsep + env.get("PATH", "")
    r = subprocess.run([sys.executable, "-m", "specmc.vsetworker", mode], input=json.dumps(job), capture_output=True, text=True, cwd=ROOT, env=env, timeout=600)
    lines = [x for x in r.stdout.splitlines() if x.startswith("{")]
    if not lines:
        raise RuntimeError(f"vsetworker {mode} failed: {r.stderr[-800:]}")
    return json.loads(lines[-1])


def _jobdoc(doc_id, hooks=False):
    doc, opts = fam()[doc_id]
    opts = dict(opts)
    if hooks == "markers":      # hooks whose ORDER is visible in the tree they leave behind
        opts["post_hooks"] = [f"echo {w} >> hooks.log" for w in ("one", "two", "three", "four", "five")]
    elif hooks:
        opts["post_hooks"] = ["ruff check . --fix --extend-select=I", "ruff format ."]
    return {"id": doc_id, "doc": doc, "options": opts}


def cases(tier):
    ids = list(fam())
    seeds = list(range(8)) if tier == "quick" else list(range(32))
    small = [i for i in ids if not i.startswith("baseline")]
    for s in seeds:
        yield {"labels": [f"real-hash-seed={s}"], "payload": {"mode": "seed", "seed": s, "docs": ids, "hooks": False}}
    for s in (seeds[:3] if tier == "quick" else seeds[:8]):
        yield {"labels": [f"real-hash-seed={s}", "ruff-hooks"], "payload": {"mode": "seed", "seed": s, "docs": small[:6] + ["baseline31"], "hooks": True}}
    for s in seeds:
        yield {"labels": [f"real-hash-seed={s}", "marker-hooks"], "payload": {"mode": "seed", "seed": s, "docs": small[:2], "hooks": "markers"}}
    yield {"labels": [f"set-orders={small[0]}", "marker-hooks"], "payload": {"mode": "vset", "doc": small[0], "pairs": False, "hooks": "markers"}}
    for i in ids:
        yield {"labels": [f"repeat={i}"], "payload": {"mode": "repeat", "doc": i}}
        yield {"labels": [f"set-orders={i}"], "payload": {"mode": "vset", "doc": i, "pairs": tier == "thorough" and not i.startswith("baseline")}}
    for i in small:
        yield {"labels": [f"map-permutations={i}"], "payload": {"mode": "perm", "doc": i, "max_schemas": 4 if tier == "quick" else 5}}


def _files(doc_id, hooks=False):
    jd = _jobdoc(doc_id, hooks)
    r = gen.generate(jd["doc"], **jd["options"])
    if r.crash or r.tree is None:
        return None
    import hashlib
    return {k: hashlib.sha1(v).hexdigest()[:12] for k, v in r.tree.items() if not k.startswith(".ruff_cache")}


def _first_diff_files(a, b):
    return sorted(f for f in set(a or {}) | set(b or {}) if (a or {}).get(f) != (b or {}).get(f))


def _seed_case(p):
    venv_bin = os.path.dirname(sys.executable)
    job = {"docs": [_jobdoc(i, p["hooks"]) for i in p["docs"]]}
    if p["hooks"]:
        os.environ["PATH"] = venv_bin + os.pathsep + os.environ.get("PATH", "") if venv_bin not in os.environ.get("PATH", "") else os.environ["PATH"]
    other = _sub("digest", job, hashseed=p["seed"], path_extra=venv_bin if p["hooks"] else None)["digests"]
    ref_seed = 0 if p["seed"] != 0 else 1
    base = _sub("digest", job, hashseed=ref_seed, path_extra=venv_bin if p["hooks"] else None)["digests"]
    viol = []
    for i in p["docs"]:
        a, b = base.get(i, {}), other.get(i, {})
        if a.get("files") != b.get("files"):
            diff = _first_diff_files(a.get("files"), b.get("files"))
            viol.append({"oracle": "hash-seed", "site": ("marker-hooks" if p["hooks"] == "markers" else "hooks") if p["hooks"] else "no-hooks", "key": f"{i}/{_role_of(diff)}",
                         "detail": f"document {i}: PYTHONHASHSEED={ref_seed} and ={p['seed']} give different bytes in {diff[:5]}"})
    return {"violations": viol, "outcome": "ok" if not viol else "viol:hash-seed", "nontrivial": True, "steps": 2 * len(p["docs"])}


def _role_of(files):
    from checks.c01 import role
    return "+".join(sorted({role(f) for f in files[:8]})) or "-"


def _repeat_case(p):
    a, b = _files(p["doc"]), _files(p["doc"])
    job = {"docs": [_jobdoc(p["doc"])]}
    fresh = _sub("digest", job)["digests"][p["doc"]].get("files")
    viol = []
    if a != b:
        viol.append({"oracle": "repeat-in-process", "site": "-", "key": f"{p['doc']}/{_role_of(_first_diff_files(a, b))}", "detail": f"two generations in one process differ: {_first_diff_files(a, b)[:5]}"})
    if a != fresh:
        viol.append({"oracle": "fresh-process", "site": "-", "key": f"{p['doc']}/{_role_of(_first_diff_files(a, fresh))}", "detail": f"in-process and fresh-process generation differ: {_first_diff_files(a, fresh)[:5]}"})
    return {"violations": viol, "outcome": "ok" if not viol else "viol:repeat", "nontrivial": a is not None, "steps": 3}


def _vset_case(p):
    job = {"doc": _jobdoc(p["doc"], p.get("hooks", False)), "pairs": p.get("pairs", False)}
    out = _sub("vset", job)
    viol = []
    confirmed = 0
    if out["candidates"]:
        # a model-level difference is a candidate: look for two real hash seeds that reproduce a byte difference
        djob = {"docs": [_jobdoc(p["doc"], p.get("hooks", False))]}
        seen = {}
        for s in range(64):
            d = _sub("digest", djob, hashseed=s)["digests"][p["doc"]].get("files")
            k = json.dumps(d, sort_keys=True)
            seen.setdefault(k, s)
            if len(seen) >= 2:
                break
        if len(seen) >= 2:
            sa, sb = list(seen.values())[:2]
            files = sorted({f for c in out["candidates"] for f in c["files"]})
            confirmed = 1
            viol.append({"oracle": "hash-seed", "site": "set-order", "key": f"{p['doc']}/{_role_of(files)}",
                         "detail": f"document {p['doc']}: iteration order of set {out['candidates'][0]['set']} changes {files[:5]}; reproduced with PYTHONHASHSEED={sa} vs {sb}"})
    return {"violations": viol, "outcome": f"sets:{'candidates' if out['candidates'] else 'clean'}", "nontrivial": out["sets"] > 0 or True, "steps": 1 + out["deviations"],
            "stats": {"iterated_sets": out["sets"], "set_order_deviations": out["deviations"], "candidates": len(out["candidates"]), "candidates_confirmed": confirmed,
                      "candidates_unconfirmed": (1 if out["candidates"] and not confirmed else 0)}}


def _perm_case(p):
    doc, opts = fam()[p["doc"]]
    base = gen.generate(copy.deepcopy(doc), **opts)
    if base.crash or base.tree is None:
        return {"outcome": "not-generated", "nontrivial": False}
    if base.diags:
        return {"outcome": "has-diagnostics", "nontrivial": False}
    viol, n = [], 0
    schemas = list((doc.get("components", {}).get("schemas") or {}))
    paths = list(doc.get("paths") or {})
    perms = []
    k = min(len(schemas), p.get("max_schemas", 4))
    for perm in itertools.permutations(schemas[:k]):
        perms.append(("schemas", list(perm) + schemas[k:]))
    if len(schemas) > k:
        perms.append(("schemas", schemas[::-1]))
        perms.append(("schemas", sorted(schemas)))
    for perm in itertools.permutations(paths[:3]):
        perms.append(("paths", list(perm) + paths[3:]))
    for what, order in perms:
        d = copy.deepcopy(doc)
        if what == "schemas":
            d["components"]["schemas"] = {k_: d["components"]["schemas"][k_] for k_ in order}
        else:
            d["paths"] = {k_: d["paths"][k_] for k_ in order}
        r = gen.generate(d, **opts)
        n += 1
        if r.crash:
            continue
        if r.tree != base.tree or [x.short() for x in r.diags] != []:
            diff = _first_diff_files(r.tree, base.tree)
            from checks.c20 import _first_diff
            viol.append({"oracle": "map-order", "site": what, "key": f"{p['doc']}/{_role_of(diff) if diff else 'diagnostics'}",
                         "detail": f"document {p['doc']}: {what} in order {order} -> {len(diff)} files differ ({diff[:4]}), diagnostics: {[x.short()[:80] for x in r.diags][:2]}"
                         + (": " + _first_diff(base.tree.get(diff[0]), r.tree.get(diff[0])) if diff and r.tree else "")})
    # control that must differ: property order inside one schema changes attribute order (proves the comparison is not vacuous)
    control_differs = None
    for s, sch in (doc.get("components", {}).get("schemas") or {}).items():
        if isinstance(sch, dict) and len(sch.get("properties", {})) >= 2:
            d = copy.deepcopy(doc)
            props = d["components"]["schemas"][s]["properties"]
            d["components"]["schemas"][s]["properties"] = {k_: props[k_] for k_ in reversed(list(props))}
            r = gen.generate(d, **opts)
            control_differs = r.tree != base.tree
            break
    seen, uniq = set(), []
    for v in viol:
        kk = (v["oracle"], v["site"], v["key"])
        if kk not in seen:
            seen.add(kk)
            uniq.append(v)
    return {"violations": uniq, "outcome": "ok" if not uniq else "viol:map-order", "nontrivial": True, "steps": n + 1,
            "stats": {"permutations": n, "control_differs": int(bool(control_differs)), "control_same": int(control_differs is False)}}


def run_case(p):
    return {"seed": _seed_case, "repeat": _repeat_case, "vset": _vset_case, "perm": _perm_case}[p["mode"]](p)
