"""C01 — every generated client is a valid, importable Python package (DESIGN §C01)."""
from __future__ import annotations

import copy
import itertools
import re
import tomllib

from specmc import gen, trees
from specmc.explorer import explore
from specmc.refmodels import kinds as K
from specmc.refmodels.place import POSITIONS, place
from specmc.sandbox import Sandbox

ID = "C01"
LEVEL = "model_checking"
RULE = ("(a) full product kind x position x required x nullable x literal_enums; (b) full product of kind pairs in one model x "
        "requiredness patterns; (c) deviation-bounded builder (d<=2 quick, d<=3 thorough) over schema / property / operation / tag / "
        "parameter names from the identifier-hostile alphabet, reference-graph shape, parameter location, request and response "
        "media types, metadata flavour, docstrings_on_attributes, literal_enums; (d) every small reference graph (2 schemas x any of the 4 ordered edges, 3 schemas x <=2 (thorough <=3) edges, edge kinds property / items / union member / additionalProperties / allOf parent, forward and reversed declaration, unrelated and suffix/prefix-related names); (e) the core matrix also declared as OpenAPI 3.0.3 where nothing 3.1-only is used, positions include path-item level parameters shared by two operations; (g) every ordered pair (thorough: triple) of 4 related documents regenerated into one directory with overwrite; (f) model pairs x how the model is used (component only, multipart / form body, JSON body of one operation and multipart body of another); non-trivial = accepted without error-level "
        "diagnostic and at least one non-default feature; builder documents also vary the description ending (quote, backslash, apostrophe, newline) and carry date-time / uuid attributes after the named ones")
FLOOR = 0.5
ASSUMPTIONS = ["CPython's compile/import/symtable and tomllib decide validity", "names stay inside the quote-free alphabet C01 states"]

KINDS = K.ATOMS + ["file"]
NAMES_FULL = ["name", "fooBar", "FooBar", "FOO", "foo bar", "foo-bar", "foo.bar", "foo_bar", "_foo", "foo_", "1foo", "1", "-", "",
              "class", "match", "list", "type", "id", "self", "datetime", "é", "ß", "Ω", "ﬁ", "Foo", "foo", "None", "True", "import"]
NAMES_QUICK = ["fooBar", "FOO", "foo bar", "foo-bar", "foo.bar", "_foo", "1foo", "-", "", "class", "match", "list", "self", "datetime",
               "é", "ﬁ", "Foo", "None"]
NAMES = NAMES_QUICK
# spellings of the names the endpoint functions already use for their own arguments / locals
RESERVED_ARGS = ["client", "Client", "CLIENT", "client-", "$client", "url", "URL", "body", "Body", "kwargs", "_kwargs", "headers", "params", "response"]


def _matrix():
    for kind, pos, req, nul, lit in itertools.product(KINDS, POSITIONS, (True, False), (False, True), (False, True)):
        if kind == "file" and pos not in ("multipart", "octet", "prop", "resp", "item"):
            continue
        if kind != "file" and pos == "octet":
            continue
        if lit and "enum" not in kind and kind != "const":
            continue
        if pos == "path" and not req:
            continue
        k = ["nullable", kind, "oneof"] if nul and kind not in ("null", "any") else kind
        if nul and kind in ("null", "any"):
            continue
        doc = place(k, pos, req)
        labels = [f"kind={kind}", f"pos={pos}"] + ([] if req else ["opt"]) + (["nullable"] if nul else []) + (["literal_enums"] if lit else [])
        yield {"labels": labels, "payload": {"doc": doc, "options": {"literal_enums": lit}, "meta": "none",
                                             "key": f"{pos}/{kind}{'?' if nul else ''}"}}
        d30 = gen.as_30(doc)
        if d30 is not None and not lit:        # the same document declared as OpenAPI 3.0.3 (when it uses nothing 3.1-only)
            yield {"labels": labels + ["v=3.0.3"], "payload": {"doc": d30, "options": {"literal_enums": lit}, "meta": "none",
                                                              "key": f"{pos}/{kind}{'?' if nul else ''}"}}


USAGES = {"none": None, "multipart": "multipart/form-data", "form": "application/x-www-form-urlencoded", "json+multipart": "both"}


def _pairs():
    """Two properties in one model x requiredness patterns x how the model is USED (only a component; the multipart / form body of an
    operation; JSON body of one operation and multipart body of another)."""
    pool = K.ATOMS + [["array", "model_ref"], ["array", "date"], ["union", "model_ref", "date"], ["nullable", "int", "t31"], ["union", "int", "str"]]
    for a, b in itertools.product(pool, pool):
        for reqs in ([], ["a"], ["b"], ["a", "b"]):
            for usage, media in USAGES.items():
                if usage != "none" and not (_is_unionish(a) or _is_unionish(b) or "file" in (a, b)) and reqs not in ([], ["a", "b"]):
                    continue      # body usages: all requiredness patterns for union-like / nullable pairs, the two extreme patterns otherwise
                comps = {}
                comps["M"] = {"type": "object", "properties": {"a": K.schema(a, comps), "b": K.schema(b, comps)}}
                if reqs:
                    comps["M"]["required"] = reqs
                paths = {}
                mref = {"$ref": "#/components/schemas/M"}
                ok = {"204": {"description": "n"}}
                if media == "both":
                    paths = {"/j": {"post": {"operationId": "sendJson", "requestBody": {"required": True, "content": {"application/json": {"schema": mref}}}, "responses": ok}},
                             "/m": {"post": {"operationId": "sendMultipart", "requestBody": {"required": True, "content": {"multipart/form-data": {"schema": mref}}}, "responses": ok}}}
                elif media:
                    paths = {"/b": {"post": {"operationId": "sendBody", "requestBody": {"required": True, "content": {media: {"schema": mref}}}, "responses": ok}}}
                yield {"labels": [f"a={K.kstr(a)}", f"b={K.kstr(b)}", "req=" + "".join(reqs)] + ([f"used-as={usage}"] if usage != "none" else []),
                       "payload": {"doc": gen.base_doc(comps, paths=paths), "options": {}, "meta": "none", "key": f"pair/{K.kstr(a)}+{K.kstr(b)}"}}


def _is_unionish(k):
    return isinstance(k, list) and k[0] in ("union", "nullable") or k in ("null", "any")


DEFAULTS = {"str": "dflt", "int": 3, "num": 2.5, "bool": True, "date": "2001-02-03", "datetime": "2001-02-03T04:05:06+00:00",
            "uuid": K.UUID2, "enum_str": "b", "enum_int": -2, "enum_ref": "y", "const": "k", "any": "x"}


def _default_pairs():
    """A property carrying a default next to one that does not, every requiredness pattern, both orders."""
    for a, dv in DEFAULTS.items():
        for b in ("str", "date", "model_ref", ["array", "int"], "enum_str"):
            for reqs in ([], ["a"], ["b"], ["a", "b"]):
                for order in ("ab", "ba"):
                    comps = {}
                    sa = dict(K.schema(a, comps))
                    if "$ref" in sa:
                        sa = {"allOf": [sa], "default": dv}
                    else:
                        sa["default"] = dv
                    props = {"a": sa, "b": K.schema(b, comps)}
                    if order == "ba":
                        props = {"b": props["b"], "a": props["a"]}
                    comps["M"] = {"type": "object", "properties": props}
                    if reqs:
                        comps["M"]["required"] = reqs
                    yield {"labels": [f"a={a}+default", f"b={K.kstr(b)}", "req=" + "".join(reqs), f"order={order}"],
                           "payload": {"doc": gen.base_doc(comps), "options": {}, "meta": "none", "key": f"default-pair/{a}+{K.kstr(b)}"}}


def _build(ch):
    ref = lambda n: {"$ref": f"#/components/schemas/{n}"}  # noqa: E731
    s0 = ch.pick("S0.name", ["Alpha"] + NAMES)
    s1 = ch.pick("S1.name", ["Beta"] + NAMES)
    p0 = ch.pick("S0.p0.name", ["first"] + NAMES)
    p1 = ch.pick("S0.p1.name", ["second"] + NAMES)
    opid = ch.pick("op.id", ["getThing", None] + NAMES)
    tag = ch.pick("op.tag", [None] + NAMES)
    pname = ch.pick("param.name", ["arg"] + NAMES + RESERVED_ARGS)
    ename = ch.pick("E.name", ["Kind"] + NAMES)
    ploc = ch.pick("param.in", ["query", "path", "header", "cookie"])
    shape = ch.pick("refs", ["S0->S1", "none", "S1->S0(forward)", "self", "self-array", "mutual", "allof-parent-first", "allof-child-first",
                             "shared-enum", "union-of-models", "addl-ref", "array-alias", "chain3"])
    body = ch.pick("body", ["none", "json-ref", "json-inline", "form", "multipart", "octet", "json-array"])
    resp = ch.pick("resp", ["json-ref", "none", "text", "octet", "json-array", "json-inline", "json-union", "two-statuses"])
    meta = ch.pick("meta", ["none", "poetry", "pdm", "setup"])
    doa = ch.flag("docstrings_on_attributes")
    lit = ch.flag("literal_enums")
    title = ch.pick("title", ["My API", "1 api", "class", "é-api", "a.b c"])
    # free text whose END touches the closing delimiter of a docstring (quotes inside text are C05's; how text ENDS is about validity)
    desc = ch.pick("description", ["plain words", 'ends with a quote "', "ends with a backslash \\", 'ends with two quotes ""', "ends with an apostrophe '", "multi\nline ends\n"])
    if s0 == s1:
        s1 = s1 + "2"
    while ename in (s0, s1):
        ename = ename + "3"
    if p0 == p1:
        p1 = p1 + "2"
    A = {"type": "object", "description": desc, "properties": {p0: {"type": "string", "format": "date", "description": desc}, p1: {"type": "string", "enum": ["x", "y"], "description": desc}}, "required": [p0]}
    B = {"type": "object", "properties": {"n": {"type": "integer"}}}
    A["properties"]["kind"] = ref(ename)
    A["properties"]["stamp"] = {"type": "string", "format": "date-time"}      # an optional date-typed attribute AFTER the named ones (module names used in annotations)
    A["properties"]["uid"] = {"type": "string", "format": "uuid"}
    E = {"type": "string", "enum": ["k1", "k2"]}
    comps = {s0: A, s1: B, ename: E}
    if shape == "S0->S1":
        A["properties"]["link"] = ref(s1)
    elif shape == "S1->S0(forward)":
        B["properties"]["link"] = ref(s0)
        comps = {s1: B, s0: A, ename: E}
    elif shape == "self":
        A["properties"]["me"] = ref(s0)
    elif shape == "self-array":
        A["properties"]["kids"] = {"type": "array", "items": ref(s0)}
    elif shape == "mutual":
        A["properties"]["link"] = ref(s1)
        B["properties"]["back"] = ref(s0)
    elif shape == "allof-parent-first":
        comps = {s1: B, s0: {"allOf": [ref(s1), A]}, ename: E}
    elif shape == "allof-child-first":
        comps = {ename: E, s0: {"allOf": [ref(s1), A]}, s1: B}
    elif shape == "shared-enum":
        comps["Shared"] = {"type": "string", "enum": ["p", "q"]}
        A["properties"]["e1"] = ref("Shared")
        B["properties"]["e2"] = ref("Shared")
    elif shape == "union-of-models":
        B["properties"]["either"] = {"oneOf": [ref(s0), ref(s1), {"type": "null"}]}
    elif shape == "addl-ref":
        B["additionalProperties"] = ref(s0)
    elif shape == "array-alias":
        comps["Lst"] = {"type": "array", "items": ref(s0)}
        B["properties"]["lst"] = ref("Lst")
    elif shape == "chain3":
        comps["Gamma"] = {"type": "object", "properties": {"b": ref(s1)}}
        B["properties"]["a"] = ref(s0)
    path = "/things/{" + pname + "}" if ploc == "path" else "/things"
    op = {"parameters": [{"name": pname, "in": ploc, "required": ploc == "path", "schema": {"type": "integer"}},
                         {"name": "kindFilter", "in": "query", "required": False, "schema": ref(ename)}], "responses": {}}
    if opid is not None:
        op["operationId"] = opid
    if tag is not None:
        op["tags"] = [tag]
    inline = {"type": "object", "properties": {"v": {"type": "string", "format": "uuid"}, "r": ref(s1)}}
    if body != "none":
        sch = {"json-ref": ref(s0), "json-inline": inline, "form": ref(s1), "multipart": {"type": "object", "properties": {
            "f": {"type": "string", "format": "binary"}, "m": ref(s1)}}, "octet": {"type": "string", "format": "binary"},
            "json-array": {"type": "array", "items": ref(s0)}}[body]
        media = {"json-ref": "application/json", "json-inline": "application/json", "form": "application/x-www-form-urlencoded",
                 "multipart": "multipart/form-data", "octet": "application/octet-stream", "json-array": "application/json"}[body]
        op["requestBody"] = {"required": True, "content": {media: {"schema": sch}}}
    if resp == "none":
        op["responses"]["204"] = {"description": "d"}
    elif resp == "two-statuses":
        op["responses"]["200"] = {"description": "d", "content": {"application/json": {"schema": ref(s0)}}}
        op["responses"]["404"] = {"description": "d", "content": {"application/json": {"schema": ref(s1)}}}
    else:
        sch, media = {"json-ref": (ref(s0), "application/json"), "text": ({"type": "string"}, "text/plain"),
                      "octet": ({"type": "string", "format": "binary"}, "application/octet-stream"),
                      "json-array": ({"type": "array", "items": ref(s1)}, "application/json"), "json-inline": (inline, "application/json"),
                      "json-union": ({"oneOf": [ref(s0), ref(s1)]}, "application/json")}[resp]
        op["responses"]["200"] = {"description": "d", "content": {media: {"schema": sch}}}
    doc = gen.base_doc(comps, paths={path: {"post": op}})
    doc["info"]["title"] = title
    return {"doc": doc, "options": {"docstrings_on_attributes": doa, "literal_enums": lit}, "meta": meta, "key": "builder",
            "names": [n for n in (s0, s1, p0, p1, opid, tag, pname, ename) if n]}


def _graphs(tier):
    """(d) every small reference graph: 2 schemas with any of the 4 possible edges, 3 schemas with <=2 (thorough <=3) edges,
    every edge kind (property, items, union member, additionalProperties, allOf parent), forward and reversed declaration."""
    from specmc.refmodels import graphs as G
    for n, m in ((2, 4), (3, 2 if tier == "quick" else 3)):
        for label, edges, order in G.graphs(n, m):
            kinds = "+".join(sorted({kd for _i, _j, kd in edges})) or "none"
            cyc = "cyclic" if _has_cycle(n, edges) else "acyclic"
            for naming in G.NAMINGS:
                if naming != "plain" and (len(edges) > 2 or not edges):
                    continue        # related names (suffix / prefix of one another): graphs of at most 2 edges
                yield {"labels": ["graph=" + label] + ([f"names={naming}"] if naming != "plain" else []),
                       "payload": {"doc": gen.base_doc(G.components(n, edges, order, naming), paths=G.paths(n, naming)), "options": {}, "meta": "none",
                                   "key": f"graph/{kinds}/{cyc}"}}


def _two_round():
    """(h) components that need two parsing rounds (a member refers to a component declared later) and that carry an inline
    class (enum / object) before or after that member: holder kind x inline kind x inline position x target kind x order."""
    R = "#/components/schemas/"
    inl = {"enum": {"type": "string", "enum": ["p", "q"]}, "object": {"type": "object", "properties": {"k": {"type": "string"}}},
           "enum-array": {"type": "array", "items": {"type": "string", "enum": ["p", "q"]}}}
    targets = {"object": {"type": "object", "properties": {"t": {"type": "integer"}}}, "enum": {"type": "string", "enum": ["x", "y"]},
               "alias": {"$ref": R + "Base"}, "composed": {"allOf": [{"$ref": R + "Base"}, {"type": "object", "properties": {"c": {"type": "integer"}}}]}}
    for hk in ("oneOf", "anyOf", "tuple-array", "properties", "allof-property", "addl"):
        for ik, inline in inl.items():
            for pos in ("inline-first", "inline-last"):
                for tk, target in targets.items():
                    fwd = {"$ref": R + "Later"}
                    members = [inline, fwd] if pos == "inline-first" else [fwd, inline]
                    if hk in ("oneOf", "anyOf"):
                        holder = {hk: members}
                    elif hk == "tuple-array":
                        holder = {"type": "array", "prefixItems": members[:1], "items": members[1]}
                    elif hk == "properties":
                        holder = {"type": "object", "properties": dict(zip(("first", "second"), members))}
                    elif hk == "allof-property":
                        wrapped = [inline, {"type": "object", "allOf": [fwd]}] if pos == "inline-first" else [{"type": "object", "allOf": [fwd]}, inline]
                        holder = {"type": "object", "properties": dict(zip(("first", "second"), wrapped))}
                    else:
                        holder = {"type": "object", "properties": {"first": inline}, "additionalProperties": fwd} if pos == "inline-first" else \
                                 {"type": "object", "additionalProperties": {"oneOf": members}}
                    if hk == "allof-property" and tk == "enum":
                        continue
                    for order in ("holder-first", "holder-last"):
                        comps = {"Shape": holder, "Later": target, "Base": {"type": "object", "properties": {"b": {"type": "string"}}}}
                        if order == "holder-last":
                            comps = {k: comps[k] for k in ("Base", "Later", "Shape")}
                        paths = {"/s": {"post": {"operationId": "postS", "requestBody": {"required": True, "content": {"application/json": {"schema": {"$ref": R + "Shape"}}}},
                                                 "responses": {"200": {"description": "d", "content": {"application/json": {"schema": {"$ref": R + "Shape"}}}}}}}}
                        yield {"labels": [f"two-round={hk}", f"inline={ik}", pos, f"target={tk}", order],
                               "payload": {"doc": gen.base_doc(comps, paths=paths), "options": {}, "meta": "none", "key": f"two-round/{hk}/{ik}"}}


def _type_list_cases():
    """(i) degenerate 3.1 type lists (empty, one member, repeated member, only null) at every place a schema can stand."""
    lists = {"empty": [], "one": ["string"], "repeated": ["string", "string"], "only-null": ["null"], "null-twice": ["null", "null"],
             "object-only": ["object"], "array-only": ["array"]}
    R = "#/components/schemas/"
    for lname, tl in lists.items():
        sch = {"type": tl, **({"items": {"type": "integer"}} if "array" in tl else {})}
        places = {
            "required-property": ({"M": {"type": "object", "required": ["p"], "properties": {"p": sch}}}, None),
            "optional-property": ({"M": {"type": "object", "properties": {"p": sch}}}, None),
            "array-items": ({"M": {"type": "object", "properties": {"p": {"type": "array", "items": sch}}}}, None),
            "additional-properties": ({"M": {"type": "object", "additionalProperties": sch}}, None),
            "component": ({"M": sch}, None),
            "union-member": ({"M": {"type": "object", "required": ["p"], "properties": {"p": {"oneOf": [sch, {"type": "integer"}]}}}}, None),
            "response": ({}, {"/r": {"get": {"operationId": "getR", "responses": {"200": {"description": "d", "content": {"application/json": {"schema": sch}}}}}}}),
            "body": ({}, {"/r": {"post": {"operationId": "postR", "requestBody": {"required": True, "content": {"application/json": {"schema": sch}}}, "responses": {"204": {"description": "n"}}}}}),
            "required-query": ({}, {"/r": {"get": {"operationId": "getR", "parameters": [{"name": "q", "in": "query", "required": True, "schema": sch}], "responses": {"204": {"description": "n"}}}}}),
            "optional-header": ({}, {"/r": {"get": {"operationId": "getR", "parameters": [{"name": "h", "in": "header", "schema": sch}], "responses": {"204": {"description": "n"}}}}}),
        }
        for pname, (comps, paths) in places.items():
            if paths is None:
                paths = {"/m": {"post": {"operationId": "postM", "requestBody": {"required": True, "content": {"application/json": {"schema": {"$ref": R + "M"}}}},
                                         "responses": {"200": {"description": "d", "content": {"application/json": {"schema": {"$ref": R + "M"}}}}}}}}
            yield {"labels": [f"type-list={lname}", f"at={pname}"],
                   "payload": {"doc": gen.base_doc(copy.deepcopy(comps), paths=copy.deepcopy(paths)), "options": {}, "meta": "none", "key": f"type-list/{lname}"}}


SHADOW_NAMES = ["Response", "Union", "Optional", "Any", "Client", "AuthenticatedClient", "Unset", "File", "HTTPStatus", "Type", "TypeVar", "Mapping",
                "Datetime", "BytesIO", "UUID", "Generic", "T", "Literal", "Enum", "Dict", "List", "Cast", "Errors", "Types", "FileTypes", "Attrs", "Define", "Field"]


def _shadow_cases():
    """(j) component names equal to a name the generated modules import for their own use (typing, httpx glue, types.py), as a model and
    as an enum, used as body + response of an operation and as a property of another model."""
    R = "#/components/schemas/"
    for nm in SHADOW_NAMES:
        for kind, sch in (("model", {"type": "object", "properties": {"a": {"type": "string"}}}), ("enum", {"type": "string", "enum": ["x", "y"]})):
            comps = {nm: sch, "Holder": {"type": "object", "properties": {"inner": {"$ref": R + nm}, "many": {"type": "array", "items": {"$ref": R + nm}}}}}
            paths = {"/r": {"post": {"operationId": "postR", "requestBody": {"required": True, "content": {"application/json": {"schema": {"$ref": R + nm}}}},
                                     "parameters": ([{"name": "q", "in": "query", "schema": {"$ref": R + nm}}] if kind == "enum" else []),
                                     "responses": {"200": {"description": "d", "content": {"application/json": {"schema": {"$ref": R + nm}}}}}}},
                     "/h": {"get": {"operationId": "getH", "responses": {"200": {"description": "d", "content": {"application/json": {"schema": {"$ref": R + "Holder"}}}}}}}}
            yield {"labels": [f"shadow-name={nm}", f"kind={kind}"],
                   "payload": {"doc": gen.base_doc(comps, paths=paths), "options": {}, "meta": "none", "key": f"shadow/{nm}/{kind}"}}


def _has_cycle(n, edges):
    adj = {i: {j for a, j, _k in edges if a == i} for i in range(n)}
    def reach(a, b, seen):
        return any(x == b or (x not in seen and reach(x, b, seen | {x})) for x in adj[a])
    return any(reach(i, i, {i}) for i in range(n))


def cases(tier):
    global NAMES
    NAMES = NAMES_QUICK if tier == "quick" else NAMES_FULL
    yield from _matrix()
    yield from _pairs()
    yield from _default_pairs()
    yield from _graphs(tier)
    yield from _regenerations(tier)
    yield from _two_round()
    yield from _type_list_cases()
    yield from _shadow_cases()
    bound = 2 if tier == "quick" else 3
    limit = 30000 if tier == "quick" else 400000
    for labels, payload, _d in explore(_build, bound=bound, limit=limit):
        yield {"labels": labels, "payload": payload}
    cases.info = {"bounds": {"builder_deviations": bound}, "cap_hit": explore.stats["cap_hit"],
                  "caps": (["builder case limit"] if explore.stats["cap_hit"] else [])}


def role(path):
    """File role: the generated-file class a path belongs to (model module, endpoint module, index, ...)."""
    parts = path.split("/")
    if parts[0] == "models":
        return "models/__init__.py" if parts[-1] == "__init__.py" else "models/<model>.py"
    if parts[0] == "api":
        if parts[-1] == "__init__.py":
            return "api/__init__.py"
        return "api/<tag>/<endpoint>.py"
    return path


_NUM = re.compile(r"\d+")


def norm_msg(msg):
    msg = re.sub(r"'[^']*'|\"[^\"]*\"", "", str(msg))
    msg = re.sub(r"gen_\d+(\.[\w.]+)?", "", msg)
    msg = re.sub(r"U\+[0-9A-Fa-f]{4,6}", "", msg)
    words = re.findall(r"[A-Za-z_]+", msg)
    return "_".join(words[:7])


def _raw_name_on_line(src, msg, names, prefix="field_"):
    """Observational mechanism class: the offending line spells a non-identifier document name verbatim."""
    m = re.search(r"line (\d+)", msg)
    if not m or not names:
        return False
    lines = src.decode("utf-8", "replace").splitlines()
    i = int(m.group(1)) - 1
    if not 0 <= i < len(lines):
        return False
    line = lines[i]
    hit = [n for n in names if (not n.isidentifier()) and ((len(n) >= 3 and n in line) or (n and re.search(r"\b" + re.escape(prefix) + re.escape(n) + r"(?!\w)", line)))]
    if not hit:
        return ""
    # the generator's sanitiser lets word characters and the delimiters " ", ".", "-" through: a verbatim name holding anything
    # else was not sanitised at all, which is a different defect from the (recorded) delimiter-keeping fallback
    if any(re.search(r"[^\w .\-]", n) for n in hit):
        return "raw-name-unsanitised/"
    return "raw-name/"


def tree_violations(res, key, do_import=True, names=()):
    """C01's oracle on one generation result; shared with C08/C20."""
    viol = []
    pkg = res.pkg_tree()
    bad_syntax = trees.syntax_errors(pkg)
    for f, msg in bad_syntax:
        cls = _raw_name_on_line(pkg[f], msg, names)
        viol.append({"oracle": "py-syntax", "site": role(f), "key": f"{key}/{cls}{norm_msg(msg)}", "detail": f"{f}: {msg}"})
    if res.tree is not None and res.pkg_prefix:
        for f, src in res.tree.items():      # setup.py lives outside the package directory
            if f.endswith(".py") and not f.startswith(res.pkg_prefix + "/"):
                try:
                    compile(src, f, "exec", dont_inherit=True)
                except (SyntaxError, ValueError) as exc:
                    viol.append({"oracle": "py-syntax", "site": f, "key": f"{key}/{norm_msg(getattr(exc, 'msg', exc))}", "detail": f"{f}: {exc}"})
    for f, src in (res.tree or {}).items():
        if f.endswith("pyproject.toml"):
            try:
                tomllib.loads(src.decode("utf-8"))
            except (tomllib.TOMLDecodeError, UnicodeDecodeError) as exc:
                viol.append({"oracle": "toml", "site": "pyproject.toml", "key": f"{key}/{norm_msg(exc)}", "detail": f"{f}: {exc}"})
    bad_files = {f for f, _ in bad_syntax}
    # observational mechanism class: two generator claims (model/enum classes) share one module file
    mods = [m["module"] for m in list(getattr(res, "models", [])) + list(getattr(res, "enums", []))]
    dups = {m for m in mods if mods.count(m) > 1}

    def collide(text):
        return "module-collision/" if any(f"models/{m}.py" in text or f"models.{m}'" in text or f".{m} import" in text for m in dups) else ""
    for f, kind, detail in trees.closure_problems(pkg):
        if f in bad_files:
            continue
        name = detail.split(" ")[0] if kind == "unbound-name" else ""
        viol.append({"oracle": "closure", "site": role(f), "key": f"{key}/{collide(detail)}{kind}{':' + name if name else ''}", "detail": f"{f}: {kind}: {detail}"})
    if do_import and not bad_syntax:
        with Sandbox(pkg) as sb:
            for rel, exc in sb.import_all():
                f = rel.replace(".", "/")
                viol.append({"oracle": "import", "site": role(f + ".py" if not rel.endswith(("models", "api")) and "/" in f else (f + "/__init__.py" if f else "__init__.py")),
                             "key": f"{key}/{collide(str(exc))}{type(exc).__name__}:{norm_msg(exc)}", "detail": f"import {rel or '<package>'}: {type(exc).__name__}: {exc}"})
    seen, uniq = set(), []
    for v in viol:
        k = (v["oracle"], v["site"], v["key"])
        if k not in seen:
            seen.add(k)
            uniq.append(v)
    return uniq


def _regen_docs():
    ok = lambda n: {"200": {"description": "d", "content": {"application/json": {"schema": {"$ref": "#/components/schemas/" + n}}}}}  # noqa: E731
    obj = lambda **p_: {"type": "object", "properties": p_}  # noqa: E731
    op = lambda oid, tag, model: {"get": {"operationId": oid, "tags": [tag], "responses": ok(model)}}  # noqa: E731
    return {
        "pets": gen.base_doc({"Pet": obj(name={"type": "string"}), "Owner": obj(pet={"$ref": "#/components/schemas/Pet"})}, paths={"/pets": op("listPets", "pets", "Pet"), "/owners": op("listOwners", "owners", "Owner")}),
        "renamed": gen.base_doc({"Animal": obj(name={"type": "string"}), "Owner": obj(animal={"$ref": "#/components/schemas/Animal"})}, paths={"/animals": op("listAnimals", "animals", "Animal"), "/owners": op("listOwners", "owners", "Owner")}),
        "shrunk": gen.base_doc({"Owner": obj(name={"type": "string"})}, paths={"/owners": op("listOwners", "owners", "Owner")}),
        "moved": gen.base_doc({"Pet": obj(name={"type": "string"}), "Owner": obj(pet={"$ref": "#/components/schemas/Pet"})}, paths={"/pets": op("listPets", "owners", "Pet"), "/owners": op("findOwners", "pets", "Owner")}),
    }


def _regenerations(tier):
    """(g) every ordered pair (thorough: triple) of related documents generated one after the other into ONE directory with overwrite:
    the package that is left must be importable and closed, like a fresh one."""
    names = list(_regen_docs())
    for seq in itertools.permutations(names, 2 if tier == "quick" else 3):
        for meta in ("none", "poetry"):
            yield {"labels": ["regenerate=" + ">".join(seq), f"meta={meta}"], "payload": {"mode": "regenerate", "sequence": list(seq), "meta": meta, "key": "regenerate"}}


def _run_regenerate(p):
    import shutil
    docs = _regen_docs()
    out = gen.fresh_dir("regen")
    res = None
    try:
        for i, name in enumerate(p["sequence"]):
            res = gen.generate(docs[name], meta=p["meta"], out=out, overwrite=i > 0, keep_dir=True)
            if res.crash:
                return {"skipped_crash": True, "outcome": f"crash:{res.crash['type']}@{res.crash['where']}", "nontrivial": False}
            if res.rejected or res.has_error:
                return {"outcome": "rejected", "nontrivial": False}
    finally:
        shutil.rmtree(out, ignore_errors=True)
    viol = tree_violations(res, p["key"])
    return {"violations": viol, "outcome": "ok" if not viol else "viol:" + ",".join(sorted({v['oracle'] for v in viol})), "nontrivial": True, "steps": len(p["sequence"])}


def run_case(p):
    if p.get("mode") == "regenerate":
        return _run_regenerate(p)
    res = gen.generate(p["doc"], meta=p.get("meta", "none"), **p.get("options", {}))
    if res.crash:
        return {"skipped_crash": True, "outcome": f"crash:{res.crash['type']}@{res.crash['where']}", "nontrivial": False}
    if res.rejected or res.has_error:
        return {"outcome": "rejected", "nontrivial": False}
    viol = tree_violations(res, p["key"], names=p.get("names", ()))
    n_mod = sum(1 for f in res.tree if f.endswith(".py"))
    return {"violations": viol, "outcome": ("ok" if not viol else "viol:" + ",".join(sorted({v['oracle'] for v in viol}))) + ("+diag" if res.diags else ""),
            "nontrivial": True, "steps": 1 + n_mod, "stats": {"modules": n_mod}}
