"""C06 — every failure is a diagnostic; the generator never crashes or hangs (DESIGN §C06; fault enumeration)."""
from __future__ import annotations

import copy
import itertools
import json
import re
import os
import shutil
from pathlib import Path

from specmc import gen

ID = "C06"
LEVEL = "fault_enumeration"
OWNS_TIMEOUTS = True
CASE_LIMIT = 30
RULE = ("(i) every byte string of length <=3 (thorough <=4) over a 12-symbol JSON/YAML alphabet plus single bytes 0xff, 0x00 and the empty "
        "file, offered as .json and as .yaml, and a list of YAML specials; (ii) every JSON value of depth <=2 over a small atom and key "
        "alphabet offered as the document; (iii) every single node fault (17 junk values, deletion, duplication under a sibling key) of 3 "
        "valid base documents (thorough: pairs on one base) (30 junk values incl. enums of floats/booleans/lists, inf/nan defaults, references urlparse refuses; 4 bases) and cyclic $ref shapes; (iv) every document of the other checks' spaces "
        "(generate only), configuration files (empty / wrong shape / every option x 19 junk values / YAML-only constructs / not UTF-8 / deep), post hooks (single hooks and ordered pairs of succeeds / fails / missing tool x silent / UTF-8 / non-UTF-8 output); seam: the real typer CLI via CliRunner for (i)-(iii); oracle: no escaping exception, termination, exit "
        "status <=> error-level diagnostics (and --fail-on-warning), no output when the document is rejected; (v) YAML-native scalars (dates, timestamps, binary, sets, inf/nan) at 12 value slots, version strings of every JSON shape, YAML alias graphs (cyclic / re-used / deep), every reference graph over 3 (thorough 4) reusable request bodies / responses / parameters (each refers to any of them, is real, or dangles), scalar tags whose constructor fails (!!int / !!float / !!bool / bad timestamps), schemas nested 10..600 levels deep through items / properties / allOf / oneOf / additionalProperties, date and number defaults no Python value can hold, the same YAML-native values (plus a self-containing node and non-UTF-8 bytes) inside schemas / parameters / bodies / responses that are refused and printed back in the diagnostic")
FLOOR = 0.3
ASSUMPTIONS = ["typer's CliRunner reproduces the command's behaviour", "a per-case watchdog (30 s vs ~15 ms typical) detects hangs; a timeout is re-run alone with a tenfold limit by the confirmation step"]

SYMS = ["{", "}", "[", "]", ":", ",", '"', "a", "1", "-", " ", "\n"]
YAML_SPECIALS = [
    "a: &x 1\nb: *x\n", "a: !!binary aGk=\n", "a: !!set {x, y}\n", "base: &b {k: 1}\nd:\n  <<: *b\n", "t: 2001-12-14t21:59:43.10-05:00\n", "a: 1\na: 2\n",
    "? [1, 2]\n: v\n", "1: a\n2.5: b\ntrue: c\nnull: d\n", "a: &a [*a]\n" if False else "a: &a\n  - 1\nb: *a\n",
    "a: &a [x,x,x,x,x,x,x,x,x]\nb: &b [*a,*a,*a,*a,*a,*a,*a,*a,*a]\nc: &c [*b,*b,*b,*b,*b,*b,*b,*b,*b]\nd: &d [*c,*c,*c,*c,*c,*c,*c,*c,*c]\ne: &e [*d,*d,*d,*d,*d,*d,*d,*d,*d]\nf: [*e,*e,*e,*e,*e,*e,*e,*e,*e]\n",
    "openapi: 3.1.0\ninfo: {title: t, version: '1'}\npaths: &p\n  /x: {get: {responses: {'200': {description: d}}}}\nextra: *p\n",
    "a: 2001-13-01\n", 'a: !!int "zz"\n', 'a: !!float "zz"\n', 'a: !!bool "zz"\n', 'a: !!timestamp "zz"\n', 'a: !!null "zz"\n', "a: 2001-02-30T25:61:61Z\n",
    "[" * 200 + "\n", "[" * 5000 + "\n", "{a: " * 3000 + "\n",
    "--- a\n--- b\n", "%YAML 1.1\n---\non: yes\n", "\t\tx", "- - - - - - - - - - x\n", "!!python/object/apply:os.system ['true']\n", "a: !custom v\n", "openapi: 3.1.0\ninfo: !!map {title: t, version: !!str 1}\npaths: !!map {}\n",
]
ATOMS = [None, True, 0, 1.5, "", "3.0.0", "3.1.0", [], {}]
KEYS = ["openapi", "info", "paths", "components", "swagger", "title", "version"]
JUNK = [None, True, 0, -1, 1.5, "", "x", [], [None], {}, {"$ref": "#/components/schemas/Nope"}, {"$ref": "http://remote.example/x.json#/A"},
        {"$ref": "#"}, {"$ref": "#/"}, {"type": "string", "items": {"type": "x"}}, {"enum": []}, {"required": "x", "type": "object"},
        {"type": "array", "items": {"$ref": "#/components/schemas/Nope"}}, {"allOf": [{"$ref": "#/components/schemas/Nope"}]}, [{"a": 1}], "#/components/schemas/Mm", 2**70,
        # enums of unsupported member types (alone, and inside an object), numeric defaults that are not numbers, references that are not URLs
        {"enum": [1.5, 2.5]}, {"enum": [True, False]}, {"enum": [[1], [2]]}, {"type": "object", "properties": {"e": {"enum": [1.5]}, "f": {"type": "array", "items": {"enum": [{"a": 1}]}}}},
        {"type": "integer", "default": "inf"}, {"type": "number", "default": "nan"}, {"type": "integer", "default": 1e400}, {"$ref": "//["}, {"$ref": "http://[::1"},
        {"type": "string", "format": "date", "default": "2020-13-45"}, {"type": "string", "format": "uuid", "default": 5}, {"const": [1]}, {"type": ["integer", "string"], "default": []},
        {"type": "string", "format": "date-time", "default": "9999-12-31T24:00:00"}, {"type": "string", "format": "date", "default": "9999-12-31T24:00:00"},
        {"type": "number", "default": 10 ** 400}, {"type": "number", "default": "inf"}, {"type": "number", "default": "-1e999"}, {"type": "integer", "default": 10 ** 400}]


def _sink():
    """A document that writes every keyword the generator reads at least once, also inside inline allOf / oneOf members, path-item
    parameters, reusable parameters / bodies / responses and security: the node faults then reach every one of them."""
    R = "#/components/schemas/"
    return {
        "openapi": "3.1.0", "info": {"title": "Sink", "version": "1.2.3", "description": "d"}, "servers": [{"url": "https://x.example/v1"}],
        "tags": [{"name": "t", "description": "td"}], "security": [{"key": []}],
        "paths": {"/a/{id}": {
            "parameters": [{"name": "id", "in": "path", "required": True, "schema": {"type": "integer"}}, {"$ref": "#/components/parameters/Trace"}],
            "get": {"operationId": "getA", "tags": ["t"], "summary": "s", "description": "od", "deprecated": False, "security": [{"key": []}, {}],
                    "parameters": [{"name": "q", "in": "query", "required": False, "description": "qd", "schema": {"type": "array", "items": {"type": "string", "enum": ["x", "y"]}, "default": ["x"]}},
                                   {"name": "h", "in": "header", "schema": {"type": "string", "default": "dv"}}, {"name": "c", "in": "cookie", "schema": {"type": "string"}}],
                    "responses": {"200": {"description": "ok", "headers": {"X-Rate": {"schema": {"type": "integer"}}}, "content": {"application/json": {"schema": {"$ref": R + "Child"}}}},
                                  "404": {"$ref": "#/components/responses/NotFound"}, "default": {"description": "other"}}},
            "post": {"operationId": "postA", "requestBody": {"$ref": "#/components/requestBodies/Body"}, "responses": {"204": {"description": "n"}}},
            "put": {"operationId": "putA", "requestBody": {"required": True, "content": {"multipart/form-data": {"schema": {"type": "object", "required": ["f"], "properties": {"f": {"type": "string", "format": "binary"}, "n": {"type": "number"}}}},
                                                                                  "application/x-www-form-urlencoded": {"schema": {"$ref": R + "Base"}}}},
                    "responses": {"200": {"description": "ok", "content": {"text/plain": {"schema": {"type": "string"}}, "application/octet-stream": {"schema": {"type": "string", "format": "binary"}}}}}}}},
        "components": {
            "securitySchemes": {"key": {"type": "apiKey", "in": "header", "name": "X-Key"}},
            "parameters": {"Trace": {"name": "X-Trace", "in": "header", "required": False, "schema": {"type": "string", "format": "uuid"}}},
            "requestBodies": {"Body": {"required": True, "content": {"application/json": {"schema": {"$ref": R + "Base"}}}}},
            "responses": {"NotFound": {"description": "nf", "content": {"application/json": {"schema": {"type": "object", "properties": {"msg": {"type": "string"}}}}}}},
            "schemas": {
                "Base": {"type": "object", "title": "Base", "description": "bd", "required": ["id"], "additionalProperties": {"type": "string"},
                         "properties": {"id": {"type": "integer", "default": 1, "example": 2}, "when": {"type": "string", "format": "date-time"}, "day": {"type": "string", "format": "date"},
                                        "kind": {"type": "string", "enum": ["a", "b", None], "default": "a"}, "k": {"const": "fixed"}, "tags": {"type": "array", "items": {"type": "string"}, "minItems": 0},
                                        "any": {}, "u": {"oneOf": [{"type": "integer"}, {"type": "null"}, {"$ref": R + "Leaf"}]}, "t": {"type": ["string", "null"]},
                                        "tuple": {"type": "array", "prefixItems": [{"type": "string"}, {"type": "integer"}], "items": {"type": "boolean"}}}},
                "Leaf": {"type": "object", "properties": {"v": {"type": "number", "default": 1.5}, "flag": {"type": "boolean", "default": True}}, "additionalProperties": False},
                "Child": {"allOf": [{"$ref": R + "Base"}, {"type": "object", "required": ["own"], "properties": {"own": {"type": "string", "format": "uuid"}, "id": {"type": "integer", "description": "again"}},
                                                            "additionalProperties": True}], "description": "cd"},
                "Alias": {"$ref": R + "Leaf"}, "Wrapped": {"allOf": [{"$ref": R + "Leaf"}], "nullable": True, "default": None},
                "IntE": {"type": "integer", "enum": [1, 2], "default": 2}, "Arr": {"type": "array", "items": {"anyOf": [{"$ref": R + "Leaf"}, {"type": "string"}]}}}}}


def _bases():
    from checks import c05, c08
    return {"c05b1": c05.base1(), "c08b": c08.base_b(), "c08c": c08.base_c(), "c05b2": c05.base2(), "sink": _sink()}


def _nodes(d, path=()):
    out = []
    if isinstance(d, dict):
        for k, v in d.items():
            out.append(path + (k,))
            out += _nodes(v, path + (k,))
    elif isinstance(d, list):
        for i, v in enumerate(d):
            out.append(path + (i,))
            out += _nodes(v, path + (i,))
    return out


def _apply(doc, path, op, junk=None):
    d = copy.deepcopy(doc)
    cur = d
    for p in path[:-1]:
        cur = cur[p]
    last = path[-1]
    if op == "replace":
        cur[last] = copy.deepcopy(junk)
    elif op == "delete":
        if isinstance(cur, list):
            cur.pop(last)
        else:
            del cur[last]
    elif op == "duplicate":
        if isinstance(cur, list):
            cur.append(copy.deepcopy(cur[last]))
        else:
            cur[str(last) + "_copy"] = copy.deepcopy(cur[last])
    return d


def _json_values():
    """All JSON values of depth <= 2 over the atom and key alphabets (bounded width)."""
    out = list(ATOMS)
    level1 = list(ATOMS)
    for k in KEYS:
        for v in level1:
            out.append({k: v})
    for v in level1:
        out.append([v])
    # objects with the three mandatory keys, each holding an atom or a depth-1 value
    fills = [None, "", "3.1.0", {}, [], 0, {"title": "t", "version": "1"}, {"title": None, "version": 1}, {"/x": {}}, {"/x": None}, {"/x": {"get": None}}, {"/x": {"get": {}}}]
    for a, b, c in itertools.product(["3.1.0", "3.0.0", "2.0", "4.0.0", "", None, 3.1, "abc"], fills[:8], fills):
        out.append({"openapi": a, "info": b, "paths": c})
    for sw in ("2.0", None, {}):
        out.append({"swagger": sw, "info": {"title": "t", "version": "1"}, "paths": {}})
    # version strings of every shape, in an otherwise valid document
    for ver in ("3", "3.", "3.0", "3.1", ".1.0", "3..0", "3.x.0", "3.1.x", "3.2.0", "3.10.0", "03.1.0", "3.1.0.0", "3.1.0-rc1", "v3.1.0", " 3.1.0", "3.1.0 ", "4", "2", "1.0.0", "-3.1.0", "3,1,0", "３.１.０",
                3, 3.0, True, [3, 1, 0], {"major": 3}, "9" * 400, "3." + "1" * 400 + ".0"):
        out.append({"openapi": ver, "info": {"title": "t", "version": "1"}, "paths": {}})
    seen, res = set(), []
    for v in out:
        k = json.dumps(v, sort_keys=True)
        if k not in seen:
            seen.add(k)
            res.append(v)
    return res


CYCLES = {
    "schema-self-allof": {"A": {"allOf": [{"$ref": "#/components/schemas/A"}]}},
    "schema-2cycle-allof": {"A": {"allOf": [{"$ref": "#/components/schemas/B"}]}, "B": {"allOf": [{"$ref": "#/components/schemas/A"}]}},
    "schema-3cycle-allof-broken": {"A": {"allOf": [{"$ref": "#/components/schemas/B"}, {"type": "object", "properties": {"x": {"$ref": "#/components/schemas/Nope"}}}]},
                                   "B": {"allOf": [{"$ref": "#/components/schemas/C"}]}, "C": {"allOf": [{"$ref": "#/components/schemas/A"}]}},
    "schema-self-items": {"A": {"type": "array", "items": {"$ref": "#/components/schemas/A"}}},
    "schema-alias-cycle": {"A": {"$ref": "#/components/schemas/B"}, "B": {"$ref": "#/components/schemas/A"}},
    "mutual-models-one-broken": {"A": {"type": "object", "properties": {"b": {"$ref": "#/components/schemas/B"}, "bad": {"$ref": "#/components/schemas/Nope"}}},
                                 "B": {"type": "object", "properties": {"a": {"$ref": "#/components/schemas/A"}}}, "Other": {"type": "object"}},
    "self-model-bad-default": {"A": {"type": "object", "properties": {"me": {"$ref": "#/components/schemas/A"}, "n": {"type": "integer", "default": "x"}}}, "Other": {"type": "object"}},
    "mutual-via-items-broken": {"A": {"type": "object", "properties": {"bs": {"type": "array", "items": {"$ref": "#/components/schemas/B"}}}},
                                "B": {"type": "object", "properties": {"a": {"$ref": "#/components/schemas/A"}, "bad": {"type": "array"}}}},
    "union-cycle": {"A": {"oneOf": [{"$ref": "#/components/schemas/B"}, {"type": "string"}]}, "B": {"oneOf": [{"$ref": "#/components/schemas/A"}, {"type": "integer"}]}},
}
BODY_CYCLES = {
    "body-self": {"A": {"$ref": "#/components/requestBodies/A"}},
    "body-2cycle": {"A": {"$ref": "#/components/requestBodies/B"}, "B": {"$ref": "#/components/requestBodies/A"}},
    "body-3cycle": {"A": {"$ref": "#/components/requestBodies/B"}, "B": {"$ref": "#/components/requestBodies/C"}, "C": {"$ref": "#/components/requestBodies/A"}},
    "body-chain-dangling": {"A": {"$ref": "#/components/requestBodies/B"}, "B": {"$ref": "#/components/requestBodies/Nope"}},
}


def _cycle_docs():
    for name, comps in CYCLES.items():
        yield name, gen.base_doc(copy.deepcopy(comps), paths={"/x": {"get": {"operationId": "getX", "responses": {"200": {"description": "d", "content": {"application/json": {"schema": {"$ref": "#/components/schemas/A"}}}}}}}})
    for name, rbs in BODY_CYCLES.items():
        yield name, gen.base_doc(None, paths={"/x": {"post": {"operationId": "postX", "requestBody": {"$ref": "#/components/requestBodies/A"}, "responses": {"204": {"description": "n"}}}}},
                                 components={"requestBodies": copy.deepcopy(rbs)})
    yield "response-cycle", gen.base_doc(None, paths={"/x": {"get": {"operationId": "getX", "responses": {"200": {"$ref": "#/components/responses/A"}}}}},
                                         components={"responses": {"A": {"$ref": "#/components/responses/B"}, "B": {"$ref": "#/components/responses/A"}}})
    yield "parameter-cycle", gen.base_doc(None, paths={"/x": {"get": {"operationId": "getX", "parameters": [{"$ref": "#/components/parameters/A"}], "responses": {"204": {"description": "n"}}}}},
                                          components={"parameters": {"A": {"$ref": "#/components/parameters/B"}, "B": {"$ref": "#/components/parameters/A"}}})


def _ref_graph_docs(n):
    """Every functional graph over n reusable components of one table (requestBodies / responses / parameters): each component either
    refers to one of the n (itself included), is a real component, or refers to a component that does not exist; the operation enters at A.
    Covers self loops, cycles of every length, cycles reached through a tail, chains ending in a real or a missing component."""
    names = "ABCD"[:n]
    tables = {
        "requestBodies": ({"content": {"application/json": {"schema": {"type": "object"}}}},
                          lambda ref: {"/x": {"post": {"operationId": "postX", "requestBody": ref, "responses": {"204": {"description": "n"}}}}}),
        "responses": ({"description": "d", "content": {"application/json": {"schema": {"type": "string"}}}},
                      lambda ref: {"/x": {"get": {"operationId": "getX", "responses": {"200": ref}}}}),
        "parameters": ({"name": "q", "in": "query", "schema": {"type": "string"}},
                       lambda ref: {"/x": {"get": {"operationId": "getX", "parameters": [ref], "responses": {"204": {"description": "n"}}}}}),
    }
    for table, (real, paths) in tables.items():
        for targets in itertools.product(list(names) + ["real", "missing"], repeat=n):
            comps = {}
            for nm, t in zip(names, targets):
                comps[nm] = copy.deepcopy(real) if t == "real" else {"$ref": f"#/components/{table}/{'Nope' if t == 'missing' else t}"}
            yield f"{table}:" + ",".join(f"{nm}>{t}" for nm, t in zip(names, targets)), gen.base_doc(None, paths=paths({"$ref": f"#/components/{table}/A"}), components={table: comps})


def _schema_ring_docs(n):
    """Every functional graph over n MODEL schemas (each refers to one of the n, itself included, or to nothing) x how the reference is made
    (property, array items, additionalProperties, union member) x one model made to fail in the model-processing pass (dangling $ref
    property, array property without items, allOf of a non-object) or none: rings of every length up to n with a removal to propagate."""
    names = "ABCD"[:n]
    R = "#/components/schemas/"
    faults = {"dangling": {"$ref": R + "Nope"}, "array-no-items": {"type": "array"}, "allof-non-object": {"allOf": [{"$ref": R + "Word"}]}}
    for via in ("prop", "array", "addl", "union"):
        for targets in itertools.product(list(names) + ["none"], repeat=n):
            for fnode in list(names) + [None]:
                for fname, fsch in (faults.items() if fnode else [("-", None)]):
                    comps = {"Word": {"type": "string"}}
                    for nm, t in zip(names, targets):
                        m = {"type": "object", "properties": {"v": {"type": "integer"}}}
                        if t != "none":
                            r = {"$ref": R + t}
                            if via == "prop":
                                m["properties"]["next"] = r
                            elif via == "array":
                                m["properties"]["next"] = {"type": "array", "items": r}
                            elif via == "union":
                                m["properties"]["next"] = {"oneOf": [r, {"type": "integer"}]}
                            else:
                                m["additionalProperties"] = r
                        if nm == fnode:
                            m["properties"]["bad"] = copy.deepcopy(fsch)
                        comps[nm] = m
                    paths = {"/x": {"get": {"operationId": "getX", "responses": {"200": {"description": "d", "content": {"application/json": {"schema": {"$ref": R + "A"}}}}}}}}
                    yield f"ring:{via}:" + ",".join(f"{nm}>{t}" for nm, t in zip(names, targets)) + f":{fnode}:{fname}", gen.base_doc(comps, paths=paths)


def _foreign_docs(tier):
    """(iv) documents of the other checks' spaces, generate only."""
    import importlib
    seen = set()
    names = ["c01", "c02", "c03", "c04", "c07", "c08", "c09", "c10", "c13", "c14", "c15", "c17", "c20"]
    for n in names:
        mod = importlib.import_module(f"checks.{n}")
        if n == "c01" and tier == "quick":
            gens = itertools.chain(mod._matrix(), mod._pairs(), mod._default_pairs(), mod._graphs(tier))
        else:
            gens = mod.cases("quick")
        for c in gens:
            p = c["payload"]
            docs = []
            if isinstance(p.get("doc"), dict):
                docs.append((p["doc"], p.get("options", {})))
            if n == "c08":
                d0 = mod.BASES[p["base"]]()
                dprime = d0
                ok = True
                for bad, pos in p["faults"]:
                    r = mod.insert(dprime, bad, tuple(pos), p["base"])
                    if r is None:
                        ok = False
                        break
                    dprime = r[0]
                if ok:
                    docs.append((dprime, {}))
            if n == "c09" and p.get("mode") in ("pair", "single"):
                names_ = p["names"] if p["mode"] == "pair" else [p["name"]]
                if p["scope"] != "title" or p["mode"] == "single":
                    docs.append((mod._doc(p["scope"], names_), {"field_prefix": p.get("prefix", "field_")}))
            if n == "c10":
                pass
            if n == "c13":
                d = mod._doc(p["kind"], mod.VALUES[p["label"]], p["route"], p["pos"], p["literal_enums"])
                if d:
                    docs.append((d, {"literal_enums": p["literal_enums"]}))
            if n == "c14":
                if p["mode"] == "enum":
                    docs.append((mod._doc(p["values"], p["null"], p["dv"], p["ref"], p["type"]), {"literal_enums": p["style"] == "literal"}))
            if n == "c15" and p.get("mode") == "pair":
                for sw in (False, True):
                    docs.append((mod.build_doc(p["k1"], p["k2"], p["form"], p["req"], p["default"], sw, p.get("pname", "p")), {}))
            if n == "c20":
                if p["part"] == 3:
                    docs.append((mod.insert_malformed(mod.doc_part3(), p["ref"], p["pos"])[0], {}))
                elif p["part"] == 1:
                    docs.append((mod.doc_part1(set(p["as_ref"]), p["chain"], p["version"]), {}))
            if n == "c17" and p.get("mode") in ("nullable", "enum-null", "wrapper"):
                pass
            for d, o in docs:
                k = json.dumps([d, o], sort_keys=False, default=str)      # map order is part of a document's identity
                if k not in seen:
                    seen.add(k)
                    yield n, d, o


NATIVE = {"date": "2020-01-02", "timestamp": "2020-01-02T03:04:05Z", "binary": "!!binary aGVsbG8=", "set": "!!set {a, b}", "inf": ".inf", "nan": ".nan", "neg-inf": "-.inf",
          "octal": "0o17", "sexagesimal": "1:30", "null-tilde": "~", "bool-yes": "yes", "merge": "{<<: {a: 1}, b: 2}",
          # values a JSON encoder cannot write: a node that contains itself, bytes that are not UTF-8
          "self-alias": "&loop [*loop]", "binary-non-utf8": "!!binary /w==",
          "bad-timestamp": "2001-13-01", "bad-int-tag": '!!int "zz"', "bad-float-tag": '!!float "zz"', "bad-bool-tag": '!!bool "zz"'}
NATIVE_SLOTS = {
    # slot name: YAML document template; @V@ is replaced by the native scalar, @O@ by an object holding it, @A@ by an array holding it
    "property-example-scalar": "components: {schemas: {M: {type: object, properties: {p: {type: string, example: @V@}}}}}",
    "property-example-object": "components: {schemas: {M: {type: object, properties: {p: {type: object, example: @O@}}}}}",
    "property-example-array": "components: {schemas: {M: {type: object, properties: {p: {type: array, items: {type: string}, example: @A@}}}}}",
    "schema-example-object": "components: {schemas: {M: {type: object, example: @O@, properties: {p: {type: string}}}}}",
    "property-default": "components: {schemas: {M: {type: object, properties: {p: {type: string, default: @V@}}}}}",
    "any-default-object": "components: {schemas: {M: {type: object, properties: {p: {default: @O@}}}}}",
    "enum-value": "components: {schemas: {E: {type: string, enum: [a, @V@]}}}",
    "const-value": "components: {schemas: {M: {type: object, properties: {p: {const: @V@}}}}}",
    "parameter-example-object": "paths: {/x: {get: {parameters: [{name: q, in: query, example: @O@, schema: {type: string, example: @A@}}], responses: {'200': {description: d}}}}}",
    "body-schema-example": "paths: {/x: {post: {requestBody: {content: {application/json: {schema: {type: object, example: @O@, properties: {a: {type: string, example: @V@}}}}}}, responses: {'200': {description: d}}}}}",
    "response-schema-example": "paths: {/x: {get: {responses: {'200': {description: d, content: {application/json: {schema: {type: array, items: {type: string}, example: @A@}}}}}}}}",
    "info-version": "info2: {version: @V@}",
    # the same values inside a node the generator REFUSES, i.e. one that is printed back as part of a diagnostic
    "refused-schema-example": "components: {schemas: {Good: {type: object}, Bad: {type: array, example: @V@}}}",
    "refused-schema-default-object": "components: {schemas: {Good: {type: object}, Bad: {type: array, default: @O@}}}",
    "refused-property-example-array": "components: {schemas: {M: {type: object, properties: {p: {type: array, example: @A@}}}}}",
    "refused-parameter": "paths: {/x: {get: {parameters: [{name: q, in: query, example: @O@, schema: {type: array, example: @V@}}], responses: {'200': {description: d}}}}}",
    "refused-response": "paths: {/x: {get: {responses: {'200': {description: d, content: {application/json: {schema: {type: array, example: @A@}}}}}}}}",
    "refused-body": "paths: {/x: {post: {requestBody: {content: {application/json: {schema: {type: array, default: @V@}}}}, responses: {'200': {description: d}}}}}",
}


YAML_ALIAS_DOCS = {
    "schema-self-alias": "components:\n  schemas:\n    Node: &node\n      type: object\n      properties:\n        child: *node\n",
    "oneof-self-alias": "components:\n  schemas:\n    U:\n      oneOf: &alts\n        - type: string\n        - oneOf: *alts\n",
    "mutual-alias": "components:\n  schemas:\n    A: &a\n      type: object\n      properties:\n        b: &b\n          type: object\n          properties:\n            a: *a\n    B: *b\n",
    "info-self-alias": "x-loop: &l\n  again: *l\n",
    "paths-alias-cycle": "paths:\n  /x: &p\n    get:\n      responses:\n        '200':\n          description: d\n      x-item: *p\n",
    "alias-reuse-no-cycle": "components:\n  schemas:\n    S: &s {type: string}\n    M: {type: object, properties: {a: *s, b: *s}}\n",
    "deep-nesting": "components:\n  schemas:\n    D: " + "{allOf: [" * 60 + "{type: object}" + "]}" * 60 + "\n",
    "billion-laughs-small": "x-a: &a [x, x]\nx-b: &b [*a, *a]\nx-c: &c [*b, *b]\nx-d: &d [*c, *c]\nx-e: [*d, *d]\n",
}


NEST_KINDS = ("items", "props", "allof", "oneof", "addl", "items-of-objects")
NEST_DEPTHS = (10, 20, 50, 100, 200, 300, 600)


def _nested(kind, n):
    s = {"type": "string"}
    for _ in range(n):
        if kind == "items":
            s = {"type": "array", "items": s}
        elif kind == "props":
            s = {"type": "object", "properties": {"p": s}}
        elif kind == "allof":
            s = {"allOf": [s]}
        elif kind == "oneof":
            s = {"oneOf": [s, {"type": "integer"}]}
        elif kind == "addl":
            s = {"type": "object", "additionalProperties": s}
        else:
            s = {"type": "array", "items": {"type": "object", "properties": {"q": s}}}
    return {"openapi": "3.1.0", "info": {"title": "t", "version": "1"}, "paths": {}, "components": {"schemas": {"D": {"type": "object", "properties": {"q": s}}}}}


def _config_faults():
    """(file name, bytes): configuration files that are empty, of the wrong shape, with keys / values of the wrong type for every
    documented option, with YAML-only constructs (non-string keys, failing scalar tags, aliases), not UTF-8, deeply nested."""
    opts = ["class_overrides", "content_type_overrides", "project_name_override", "package_name_override", "package_version_override", "post_hooks", "field_prefix",
            "http_timeout", "literal_enums", "docstrings_on_attributes", "generate_all_tags", "use_path_prefixes_for_title_model_names"]
    junk = ["5", "-1", "1.5", "true", "null", "'x'", "''", "[]", "[1]", "{}", "{a: 1}", "[[x]]", "{a: {b: [c]}}", "2020-01-02", '!!bool "maybe"', '!!int "zz"', "2001-13-01", "&a [*a]", "!!binary /w=="]
    out = [("empty.yml", b""), ("spaces.yml", b"  \n"), ("list.yml", b"- a\n- b\n"), ("scalar.yml", b"5\n"), ("string.yml", b"just text\n"), ("null.yml", b"~\n"),
           ("intkey.yml", b"2024: notes\n"), ("nullkey.yml", b"~: x\n"), ("boolkey.yml", b"true: x\n"), ("listkey.yml", b"? [a, b]\n: x\n"), ("unknown.yml", b"no_such_option: 1\n"),
           ("dupkey.yml", b"literal_enums: true\nliteral_enums: false\n"), ("notutf8.yml", b"field_prefix: caf\xe9\n"), ("nul.yml", b"field_prefix: a\x00b\n"),
           ("deep.yml", b"post_hooks: " + b"[" * 3000 + b"\n"), ("alias-cycle.yml", b"class_overrides: &a\n  X: *a\n"), ("tab.yml", b"\tfield_prefix: x\n"),
           ("empty.json", b""), ("list.json", b"[1, 2]"), ("scalar.json", b"5"), ("null.json", b"null"), ("broken.json", b'{"literal_enums": tru'), ("notutf8.json", b'{"field_prefix": "caf\xe9"}'),
           ("deep.json", b'{"post_hooks": ' + b"[" * 3000 + b"}"), ("nokey.json", b'{"": 1}')]
    for o in opts:
        for i, j in enumerate(junk):
            out.append((f"{o}-{i}.yml", f"{o}: {j}\n".encode()))
    out.append(("overrides-shape.yml", b"class_overrides:\n  A: x\n  B: [1]\n  C: {class_name: 5, module_name: [x]}\n  D: {unknown: 1}\ncontent_type_overrides:\n  application/x: 5\n  5: application/json\n"))
    return out


HOOKS = {   # name: (shell command, outcome class)
    "ok-silent": ("true", "ok"), "ok-utf8": ("printf 'h\\303\\251llo'", "ok"), "ok-nonutf8-stdout": ("printf '\\377\\376raw'", "ok"),
    "ok-nonutf8-stderr": ("printf '\\377\\376raw' >&2", "ok"), "fail-silent": ("false", "fail"), "fail-utf8": ("ls /nonexistent-c06-dir", "fail"),
    "fail-nonutf8": ("printf '\\377\\376raw' >&2; false", "fail"), "fail-nonutf8-stdout": ("printf '\\377raw'; false", "fail"), "missing-tool": ("no_such_tool_c06 --fix", "missing"),
}


def _nesting_texts():
    """(name, JSON text) - written without json.dumps, which has a recursion limit of its own"""
    for kind in NEST_KINDS:
        for n in NEST_DEPTHS:
            if n <= 200:
                yield f"{kind}/{n}", json.dumps(_nested(kind, n))
            else:
                opener = {"items": '{"type":"array","items":', "props": '{"type":"object","properties":{"p":', "allof": '{"allOf":[', "oneof": '{"oneOf":[',
                          "addl": '{"type":"object","additionalProperties":', "items-of-objects": '{"type":"array","items":{"type":"object","properties":{"q":'}[kind]
                closer = {"items": "}", "props": "}}", "allof": "]}", "oneof": ',{"type":"integer"}]}', "addl": "}", "items-of-objects": "}}}"}[kind]
                inner = opener * n + '{"type":"string"}' + closer * n
                yield f"{kind}/{n}", '{"openapi":"3.1.0","info":{"title":"t","version":"1"},"paths":{},"components":{"schemas":{"D":{"type":"object","properties":{"q":' + inner + "}}}}}"


def _yaml_native_docs():
    for name, body in YAML_ALIAS_DOCS.items():
        yield f"aliases/{name}", "openapi: 3.1.0\ninfo: {title: t, version: '1'}\n" + ("paths: {}\n" if not body.startswith("paths") else "") + body
    for sname, tmpl in NATIVE_SLOTS.items():
        for vname, v in NATIVE.items():
            body = tmpl.replace("@V@", v).replace("@O@", "{k: " + v + ", n: 1}").replace("@A@", "[" + v + ", x]")
            if sname == "info-version":
                text = "openapi: 3.1.0\ninfo: {title: t, version: " + v + "}\npaths: {}\n"
            else:
                text = "openapi: 3.1.0\ninfo: {title: t, version: '1'}\n" + ("paths: {}\n" if not body.startswith("paths") else "") + body + "\n"
            yield f"{sname}/{vname}", text


def cases(tier):
    # (i) bytes
    maxlen = 3 if tier == "quick" else 4
    blobs = [b"", b"\xff", b"\x00", b"\xff\xfe", b"\xef\xbb\xbf{}", b"{}" + b" " * 70000]
    for n in range(1, maxlen + 1):
        for t in itertools.product(SYMS, repeat=n):
            blobs.append("".join(t).encode())
    for y in YAML_SPECIALS:
        blobs.append(y.encode())
    B = 150
    for ext in ("json", "yaml"):
        for i in range(0, len(blobs), B):
            yield {"labels": [f"bytes.{ext}", f"chunk={i // B}"], "payload": {"mode": "bytes", "ext": ext, "blobs": [b.decode("latin-1") for b in blobs[i:i + B]]}}
    # (ii) JSON values as the document
    vals = _json_values()
    for i in range(0, len(vals), 100):
        for fow in (False, True):
            yield {"labels": ["json-values", f"chunk={i // 100}"] + (["fail-on-warning"] if fow else []), "payload": {"mode": "docs", "docs": vals[i:i + 100], "fail_on_warning": fow, "what": "json-value"}}
    # (iii) node faults
    for bname, doc in _bases().items():
        faults = []
        for path in _nodes(doc):
            for j in range(len(JUNK)):
                faults.append([list(path), "replace", j])
            faults.append([list(path), "delete", None])
            faults.append([list(path), "duplicate", None])
        for i in range(0, len(faults), 120):
            yield {"labels": [f"node-faults={bname}", f"chunk={i // 120}"], "payload": {"mode": "faults", "base": bname, "faults": faults[i:i + 120], "fail_on_warning": (i // 120) % 2 == 1}}
        if tier == "thorough" and bname == "c08b":
            nodes = _nodes(doc)
            pairs = []
            for p1, p2 in itertools.combinations(nodes, 2):
                if p1 == p2[:len(p1)]:
                    continue
                for j1, j2 in ((0, 10), (5, 7), (9, 1), (10, 10)):
                    pairs.append([[list(p1), "replace", j1], [list(p2), "replace", j2]])
            for i in range(0, len(pairs), 150):
                yield {"labels": [f"node-fault-pairs={bname}", f"chunk={i // 150}"], "payload": {"mode": "faultpairs", "base": bname, "pairs": pairs[i:i + 150]}}
    cyc = [[n, d] for n, d in _cycle_docs()]
    yield {"labels": ["cyclic-refs"], "payload": {"mode": "docs", "docs": [d for _n, d in cyc], "names": [n for n, _d in cyc], "fail_on_warning": False, "what": "cycle"}}
    rg = list(_ref_graph_docs(3 if tier == "quick" else 4))
    for i in range(0, len(rg), 100):
        yield {"labels": ["reference-graphs", f"chunk={i // 100}"], "payload": {"mode": "docs", "docs": [d for _n, d in rg[i:i + 100]], "names": [n for n, _d in rg[i:i + 100]], "fail_on_warning": False, "what": "ref-graph"}}
    sr = list(_schema_ring_docs(3 if tier == "quick" else 4))
    for i in range(0, len(sr), 160):
        yield {"labels": ["schema-rings", f"chunk={i // 160}"], "payload": {"mode": "docs", "docs": [d for _n, d in sr[i:i + 160]], "names": [n for n, _d in sr[i:i + 160]], "fail_on_warning": False, "what": "schema-ring"}}
    yield {"labels": ["cyclic-refs", "fail-on-warning"], "payload": {"mode": "docs", "docs": [d for _n, d in cyc], "names": [n for n, _d in cyc], "fail_on_warning": True, "what": "cycle"}}
    # YAML documents whose example / default / enum / const values are YAML-native scalars (dates, timestamps, binary, sets, .inf, .nan)
    for kind in NEST_KINDS:
        yield {"labels": [f"nesting-depth={kind}"], "payload": {"mode": "nesting", "kind": kind}}
    yield {"labels": ["yaml-native-values"], "payload": {"mode": "yamlnative", "fail_on_warning": False}}
    yield {"labels": ["yaml-native-values", "fail-on-warning"], "payload": {"mode": "yamlnative", "fail_on_warning": True}}
    # CLI option faults; post hooks: every single hook and ordered pair of {succeeds, fails, missing tool} x {silent, UTF-8, non-UTF-8 output}
    yield {"labels": ["cli-options"], "payload": {"mode": "cli-options"}}
    yield {"labels": ["config-files"], "payload": {"mode": "config-files"}}
    # post hooks: every single hook and every ordered pair of {succeeds, fails, missing tool} x {silent, UTF-8 output, output that is not UTF-8}
    names = list(HOOKS)
    combos = [[h] for h in names] + [[a, b] for a in names for b in names]
    for i in range(0, len(combos), 12):
        yield {"labels": ["post-hooks", f"chunk={i // 12}"], "payload": {"mode": "post-hooks", "combos": combos[i:i + 12], "fail_on_warning": (i // 12) % 2 == 1}}
    # (iv) other checks' documents
    chunk, src = [], None
    for n, d, o in _foreign_docs(tier):
        if src is not None and (n != src or len(chunk) >= 250):
            yield {"labels": [f"foreign={src}", f"first={json.dumps(chunk[0][0])[:40]}"], "payload": {"mode": "foreign", "docs": chunk, "source": src}}
            chunk = []
        src = n
        chunk.append([d, o])
    if chunk:
        yield {"labels": [f"foreign={src}"], "payload": {"mode": "foreign", "docs": chunk, "source": src}}


# ------------------------------------------------------------------------------------------------- execution

_CLI = {}
_CURRENT = ["?"]


def timeout_key(payload):
    return _CURRENT[0]


def _cli():
    if not _CLI:
        from typer.testing import CliRunner
        from openapi_python_client.cli import app
        _CLI["r"], _CLI["app"] = CliRunner(), app
        cfg = gen.scratch_root() / "c06cfg.yml"
        cfg.write_text("post_hooks: []\n")
        _CLI["cfg"] = str(cfg)
    return _CLI["r"], _CLI["app"], _CLI["cfg"]


def _levels(srcpath):
    """Independent reading of the diagnostics' levels: generate() on the same source into another directory."""
    out = gen.fresh_dir("lv")
    try:
        cfg = gen.mkconfig(out, "none", source=Path(srcpath))
        import contextlib
        import io
        with contextlib.redirect_stdout(io.StringIO()):
            errs = gen.opc.generate(config=cfg)
        return [e.level.name for e in errs]
    except Exception:  # noqa: BLE001
        return None
    finally:
        shutil.rmtree(out, ignore_errors=True)


def run_cli(srcpath, fail_on_warning=False, extra=(), key="?"):
    """One CLI run on a source file; -> violations."""
    runner, app, cfg = _cli()
    out = gen.fresh_dir("cli")
    args = ["generate", "--path", str(srcpath), "--meta", "none", "--config", cfg, "--output-path", str(out)] + (["--fail-on-warning"] if fail_on_warning else []) + list(extra)
    viol = []
    _CURRENT[0] = key.split(" <- ")[0][:120]
    try:
        r = runner.invoke(app, args)
        if r.exception is not None and not isinstance(r.exception, SystemExit):
            info = gen.crash_info(r.exception)
            return [{"oracle": "crash", "site": info["where"], "key": f"{info['type']}", "detail": f"{key}: {info['type']}: {info['msg']}"}], "crash"
        levels = _levels(srcpath)
        written = out.exists()
        if levels is not None:
            has_error = "ERROR" in levels
            expect_fail = has_error or (fail_on_warning and len(levels) > 0)
            if (r.exit_code != 0) != expect_fail:
                viol.append({"oracle": "exit-status", "site": "cli", "key": f"exit{r.exit_code}/{'error' if has_error else ('warning' if levels else 'clean')}{'/fail-on-warning' if fail_on_warning else ''}",
                             "detail": f"{key}: exit {r.exit_code} but diagnostics levels are {sorted(set(levels))} (fail_on_warning={fail_on_warning})"})
            if has_error and written:
                viol.append({"oracle": "output-on-rejection", "site": "cli", "key": "written", "detail": f"{key}: document rejected with an error-level diagnostic but {sorted(os.listdir(out))[:5]} was written"})
            if not has_error and not written:
                viol.append({"oracle": "no-output", "site": "cli", "key": "missing", "detail": f"{key}: no error-level diagnostic but nothing was written"})
            if levels and "encountered while generating" not in (r.output or ""):
                viol.append({"oracle": "diagnostic-not-printed", "site": "cli", "key": "silent", "detail": f"{key}: {len(levels)} diagnostics but none printed"})
        outcome = f"exit{r.exit_code}:" + ("rejected" if levels and "ERROR" in levels else ("warn" if levels else "clean"))
        return viol, outcome
    finally:
        shutil.rmtree(out, ignore_errors=True)


def _write(name, data: bytes):
    p = gen.scratch_root() / name
    p.write_bytes(data)
    return p


def run_case(p):
    import collections
    mode = p["mode"]
    viol, outcomes, steps = [], collections.Counter(), 0
    if mode == "bytes":
        for i, s in enumerate(p["blobs"]):
            b = s.encode("latin-1")
            src = _write(f"c06in.{p['ext']}", b)
            v, o = run_cli(src, key=f"{p['ext']} bytes {b[:40]!r}")
            viol += v
            outcomes[o] += 1
            steps += 1
    elif mode in ("docs",):
        for i, d in enumerate(p["docs"]):
            name = (p.get("names") or [None] * len(p["docs"]))[i]
            src = _write("c06in.json", json.dumps(d).encode())
            v, o = run_cli(src, p.get("fail_on_warning", False), key=f"{p['what']} {name or json.dumps(d)[:80]}")
            for x in v:
                if name:
                    x["key"] += f"/{name}"
            viol += v
            outcomes[o] += 1
            steps += 1
    elif mode == "nesting":
        for name, text in _nesting_texts():
            if not name.startswith(p["kind"] + "/"):
                continue
            src = _write("c06in.json", text.encode("utf-8"))
            v, o = run_cli(src, False, key=f"nesting {name}")
            for x in v:
                x["key"] += f"/nesting:{p['kind']}"
            viol += v
            outcomes[o] += 1
            steps += 1
    elif mode == "yamlnative":
        for name, text in _yaml_native_docs():
            src = _write("c06in.yaml", text.encode("utf-8"))
            v, o = run_cli(src, p.get("fail_on_warning", False), key=f"yaml-native {name}")
            for x in v:
                x["key"] += f"/{name}"
            viol += v
            outcomes[o] += 1
            steps += 1
    elif mode in ("faults", "faultpairs"):
        base = _bases()[p["base"]]
        items = [[f] for f in p["faults"]] if mode == "faults" else p["pairs"]
        for fs in items:
            d = base
            try:
                for path, op, j in fs:
                    d = _apply(d, tuple(path), op, JUNK[j] if j is not None else None)
            except (KeyError, IndexError, TypeError):
                continue
            src = _write("c06in.json", json.dumps(d).encode())
            v, o = run_cli(src, p.get("fail_on_warning", False), key=f"{p['base']} " + "; ".join(f"{op} {'/'.join(map(str, path))}" + (f" <- {json.dumps(JUNK[j])[:40]}" if j is not None else "") for path, op, j in fs))
            viol += v
            outcomes[o] += 1
            steps += 1
    elif mode == "post-hooks":
        from checks import c05
        src = _write("c06in.json", json.dumps(c05.base1()).encode())
        runner, app, _cfg = _cli()
        for combo in p["combos"]:
            cfgp = gen.scratch_root() / "c06hooks.yml"
            cfgp.write_text("post_hooks: " + json.dumps([HOOKS[h][0] for h in combo]) + "\n")
            out = gen.fresh_dir("cli")
            fow = p.get("fail_on_warning", False)
            name = "+".join(combo)
            _CURRENT[0] = f"post-hooks {name}"
            try:
                r = runner.invoke(app, ["generate", "--path", str(src), "--meta", "none", "--config", str(cfgp), "--output-path", str(out)] + (["--fail-on-warning"] if fow else []))
                steps += 1
                classes = [HOOKS[h][1] for h in combo]
                if r.exception is not None and not isinstance(r.exception, SystemExit):
                    info = gen.crash_info(r.exception)
                    viol.append({"oracle": "crash", "site": info["where"], "key": f"{info['type']}/post-hook:{'+'.join(sorted(set(combo)))}", "detail": f"post hooks {combo}: {info['type']}: {info['msg']}"})
                    outcomes["hooks:crash"] += 1
                    continue
                expect_fail = "fail" in classes or (fow and "missing" in classes)
                if (r.exit_code != 0) != expect_fail:
                    viol.append({"oracle": "exit-status", "site": "cli", "key": f"post-hooks/exit{r.exit_code}/{'+'.join(sorted(set(classes)))}{'/fail-on-warning' if fow else ''}",
                                 "detail": f"post hooks {combo}: exit {r.exit_code}, expected {'non-zero' if expect_fail else '0'} (fail_on_warning={fow})"})
                if not (out / "client.py").exists():
                    viol.append({"oracle": "no-output", "site": "cli", "key": "post-hooks/missing", "detail": f"post hooks {combo}: the client was not written"})
                for h, c in zip(combo, classes):
                    tool = HOOKS[h][0].split(" ")[0]
                    if c == "fail" and f"{tool} failed" not in (r.output or ""):
                        viol.append({"oracle": "diagnostic-not-printed", "site": "cli", "key": f"post-hooks/{c}", "detail": f"post hooks {combo}: failing hook {h} is not reported: {(r.output or '')[-200:]!r}"})
                    if c == "missing" and "is not in PATH" not in (r.output or ""):
                        viol.append({"oracle": "diagnostic-not-printed", "site": "cli", "key": f"post-hooks/{c}", "detail": f"post hooks {combo}: missing tool of {h} is not reported"})
                outcomes[f"hooks:exit{r.exit_code}"] += 1
            finally:
                shutil.rmtree(out, ignore_errors=True)
    elif mode == "config-files":
        from checks import c05
        src = _write("c06in.json", json.dumps(c05.base1()).encode())
        runner, app, _cfg = _cli()
        for fname, data in _config_faults():
            cfgp = gen.scratch_root() / ("c06cfg-" + fname.split(".")[-1] + "." + fname.split(".")[-1])
            cfgp.write_bytes(data)
            out = gen.fresh_dir("cli")
            _CURRENT[0] = f"config {fname}"
            try:
                r = runner.invoke(app, ["generate", "--path", str(src), "--meta", "none", "--config", str(cfgp), "--output-path", str(out)])
                steps += 1
                if r.exception is not None and not isinstance(r.exception, SystemExit):
                    info = gen.crash_info(r.exception)
                    cls = re.sub(r"-\d+\.", ".", fname)
                    viol.append({"oracle": "crash", "site": info["where"], "key": f"{info['type']}/config:{cls}", "detail": f"--config {fname} ({data[:60]!r}): {info['type']}: {info['msg']}"})
                    outcomes["config:crash"] += 1
                    continue
                if r.exit_code != 0 and out.exists():
                    viol.append({"oracle": "output-on-rejection", "site": "cli", "key": "config/written", "detail": f"--config {fname}: exit {r.exit_code} but {sorted(os.listdir(out))[:4]} was written"})
                if r.exit_code == 0 and not out.exists():
                    viol.append({"oracle": "no-output", "site": "cli", "key": "config/missing", "detail": f"--config {fname}: exit 0 but nothing was written"})
                outcomes[f"config:exit{r.exit_code}"] += 1
            finally:
                shutil.rmtree(out, ignore_errors=True)
    elif mode == "cli-options":
        from checks import c05
        src = _write("c06in.json", json.dumps(c05.base1()).encode())
        for extra in (["--file-encoding", "utf-16"], ["--file-encoding", "utf-8-sig"], ["--file-encoding", "latin-1"], ["--file-encoding", "ascii"], ["--file-encoding", "nope"],
                      ["--meta", "bogus"], ["--custom-template-path", "/nonexistent"], ["--url", "http://127.0.0.1:9/x"], ["--config", "/nonexistent.yml"]):
            runner, app, cfg = _cli()
            out = gen.fresh_dir("cli")
            args = ["generate", "--path", str(src), "--meta", "none", "--output-path", str(out)] + ([] if "--config" in extra else ["--config", cfg]) + extra
            try:
                r = runner.invoke(app, args)
                steps += 1
                if r.exception is not None and not isinstance(r.exception, SystemExit):
                    info = gen.crash_info(r.exception)
                    viol.append({"oracle": "crash", "site": info["where"], "key": f"{info['type']}/{'+'.join(extra[:1])}={extra[1]}", "detail": f"cli {extra}: {info['type']}: {info['msg']}"})
                outcomes[f"opt:{extra[0]}:{r.exit_code}"] += 1
            finally:
                shutil.rmtree(out, ignore_errors=True)
        # a document source that cannot be read at all: missing file, a directory, an unreadable name, URLs httpx refuses before sending
        missing = gen.fresh_dir("nosuch")
        adir = gen.fresh_dir("adir")
        os.makedirs(adir)
        sources = [["--path", str(missing)], ["--path", str(adir)], ["--path", str(missing) + "/x/y.json"], ["--path", "x" * 300 + ".json"], ["--path", str(src) + "/child.json"]] + \
                  [["--url", u] for u in ("http://[::1", "http://", "http://exa mple.com/x", "ftp://127.0.0.1/x", "nope", "http://127.0.0.1:99999/x", "//x", "http://\udcff/x", "")]
        try:
            for source in sources:
                runner, app, cfg = _cli()
                out = gen.fresh_dir("cli")
                try:
                    r = runner.invoke(app, ["generate", "--meta", "none", "--output-path", str(out), "--config", cfg] + source)
                    steps += 1
                    if r.exception is not None and not isinstance(r.exception, SystemExit):
                        info = gen.crash_info(r.exception)
                        viol.append({"oracle": "crash", "site": info["where"], "key": f"{info['type']}/unreadable-source", "detail": f"cli {source}: {info['type']}: {info['msg']}"})
                    elif r.exit_code == 0:
                        viol.append({"oracle": "exit-status", "site": "cli", "key": "unreadable-source", "detail": f"cli {source}: exit 0 for a source that cannot be read"})
                    elif out.exists():
                        viol.append({"oracle": "output-on-rejection", "site": "cli", "key": "unreadable-source", "detail": f"cli {source}: exit {r.exit_code} but {sorted(os.listdir(out))[:4]} was written"})
                    outcomes[f"source:{source[0]}:{r.exit_code}"] += 1
                finally:
                    shutil.rmtree(out, ignore_errors=True)
        finally:
            shutil.rmtree(adir, ignore_errors=True)
        for body, ctype, status in ((b"", "application/json", 200), (b"{", "application/json", 200), (b"x: [", "text/yaml", 200), (b"nope", None, 404), (b'{"openapi": "3.1.0"', "application/json", 200),
                                    (b"5", "application/json", 200), (b"null", "application/yaml", 200)):
            url = gen.serve("/c06doc", body, ctype, status)
            runner, app, cfg = _cli()
            out = gen.fresh_dir("cli")
            try:
                r = runner.invoke(app, ["generate", "--url", url, "--meta", "none", "--config", cfg, "--output-path", str(out)])
                steps += 1
                if r.exception is not None and not isinstance(r.exception, SystemExit):
                    info = gen.crash_info(r.exception)
                    viol.append({"oracle": "crash", "site": info["where"], "key": f"{info['type']}/url", "detail": f"url source {body!r} {ctype} {status}: {info['type']}: {info['msg']}"})
                elif r.exit_code == 0 and status == 404:
                    viol.append({"oracle": "exit-status", "site": "cli", "key": "url-404", "detail": "a 404 document source gave exit 0"})
                outcomes[f"url:{status}:{r.exit_code}"] += 1
            finally:
                shutil.rmtree(out, ignore_errors=True)
    elif mode == "foreign":
        for d, o in p["docs"]:
            _CURRENT[0] = f"document of {p['source']}'s space"
            res = gen.generate(d, **o)
            steps += 1
            if res.crash:
                viol.append({"oracle": "crash", "site": res.crash["where"], "key": f"{res.crash['type']}/{p['source']}", "detail": f"document of {p['source']}'s space: {res.crash['type']}: {res.crash['msg']}  doc={json.dumps(d)[:400]}"})
                outcomes["crash"] += 1
            else:
                outcomes["rejected" if res.rejected else ("diag" if res.diags else "clean")] += 1
    seen, uniq = set(), []
    for v in viol:
        k = (v["oracle"], v["site"], v["key"])
        if k not in seen:
            seen.add(k)
            uniq.append(v)
    top = outcomes.most_common(1)[0][0] if outcomes else "none"
    return {"violations": uniq, "outcome": f"{mode}:{top}" + (":viol" if uniq else ""), "nontrivial": steps > 0, "steps": steps, "units": steps, "stats": {f"out_{k}": v for k, v in outcomes.items()}}
