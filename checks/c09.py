"""C09 — derived names are valid identifiers and never merge silently (DESIGN §C09)."""
from __future__ import annotations

import ast
import itertools
import keyword
import unicodedata

from specmc import gen, trees

ID = "C09"
LEVEL = "model_checking"
RULE = ("(1b) seam injectivity under single-character substitution: every pattern of length 1..5 over {lower, upper, digit, delimiter}, each non-delimiter position replaced by 4 characters of its class, through snake_case / pascal_case / kebab_case / PythonIdentifier / ClassName; (1) exhaustive sweep: every one of the 1,114,112 code points c in the names c, c+'a', 'a'+c, 'a'+c+'b' through the real "
        "PythonIdentifier / ClassName / snake_case seam, both field_prefix values; (2) end to end: representatives of every "
        "behavioural class found, in every scope; (3) all unordered pairs of a collision alphabet per scope (model attributes, "
        "operation parameters, schema classes+modules, enum members, operations of one tag, tags) x field_prefix; (4) a component and an inline class of another component deriving the same class name (3 holders x 3 properties x 4 spellings x kinds x order); scopes also include attributes inherited from several allOf parents / one parent, names include renamed reserved names (client, client_query, client_header); non-trivial = "
        "a sweep chunk, or a document that was generated and whose scope was counted on the AST; nested inline objects under delimiter-only property names, parameters split between operation and path item, enum values spelling the positional member names (VALUE_1, 2, -)")
FLOOR = 0.5
ASSUMPTIONS = ["str.isidentifier / keyword.iskeyword / unicodedata.normalize('NFKC') decide identifier validity and identity"]

CHUNK = 0x4000
PREFIXES = ["field_", "f"]
PAIR_NAMES = ["name", "client", "client_query", "client_header", "VALUE_1", "value 1", "2", "-", "+ab", "ab!", "a b", "a_b", "a-b", "a.b", "aB", "AB", "Ab", "ab", "A_B", "a__b", "_ab", "ab_", "1a", "_1a", "a1", "A1", "ﬁ", "fi",
              "é", "É", "class", "Class", "class_", "list", "List", "self", "", "-", "_", "match", "type_", "type"]
PAIR_NAMES = list(dict.fromkeys(PAIR_NAMES))        # a name listed twice would pair with itself (two identical names are one name, not a merge)
RESERVED = ["client", "Client", "CLIENT", "url", "URL", "body", "Body", "$client", "client-"]
CHAIN_NAMES = ["a_b", "aB", "a$B", "a-b", "a!B", "A_B", "a B", "a_B", "AB"]
END2END = ["a²", "٣x", "x٣", "௰", "a௰", "ﱠ", "aﱠb", "·a", "a·", "℘", "ªb", "x́", "́x", "𝒳", "ǅ", "a‍b", "ß", "ſ", "İ", "ı",
           "a\ud800b", "\U000e0041", "Ⅷ", "a　b"]


def cases(tier):
    # (1) seam sweep
    for lo in range(0, 0x110000, CHUNK):
        yield {"labels": [f"sweep={lo:06X}-{min(lo + CHUNK, 0x110000) - 1:06X}"], "payload": {"mode": "sweep", "lo": lo, "hi": min(lo + CHUNK, 0x110000)}}
    # (1b) single-character substitutions at the seam: every pattern of length 1..5 over {lower, upper, digit, delimiter}
    pats = ["".join(p) for n in range(1, 6) for p in itertools.product("lUd_", repeat=n)]
    for i in range(0, len(pats), 256):
        yield {"labels": [f"substitution-patterns={i}-{min(i + 256, len(pats)) - 1}"], "payload": {"mode": "substitution", "patterns": pats[i:i + 256]}}
    # (2) representatives end to end
    for name in END2END:
        for scope in SCOPES:
            yield {"labels": [f"name={name!r}", f"scope={scope}"], "payload": {"mode": "single", "name": name, "scope": scope, "prefix": "field_"}}
    # (2b) COUNTS: the names the generated functions use for their own arguments, as the ONLY parameter, one of two, one of three
    for name in RESERVED:
        for scope in ("query", "header", "query-body", "query-pathitem"):
            yield {"labels": [f"name={name!r}", f"scope={scope}", "reserved-alone"], "payload": {"mode": "single", "name": name, "scope": scope, "prefix": "field_"}}
            for others in (["zq"], ["zq", "zr"]):
                for pos in range(len(others) + 1):
                    names_ = others[:pos] + [name] + others[pos:]
                    yield {"labels": [f"names={names_!r}", f"scope={scope}", "reserved-among-others"], "payload": {"mode": "pair", "names": names_, "scope": scope, "prefix": "field_"}}
    # (3) pairs per scope
    names = PAIR_NAMES if tier == "thorough" else PAIR_NAMES[:35]
    for a, b in itertools.combinations(names, 2):
        for scope in SCOPES:
            for prefix in (PREFIXES if tier == "thorough" or scope in ("attr", "query") else PREFIXES[:1]):
                yield {"labels": [f"a={a!r}", f"b={b!r}", f"scope={scope}"] + ([f"field_prefix={prefix}"] if prefix != "field_" else []),
                       "payload": {"mode": "pair", "names": [a, b], "scope": scope, "prefix": prefix}}
    # (4) a component and an inline class (property of another component) that derive the same class name
    for holder in ("Pet", "pet", "A"):
        for prop in ("status", "Status", "b"):
            for joined in (holder + prop, holder + "_" + prop, (holder + prop).lower(), holder[0].upper() + holder[1:] + prop[0].upper() + prop[1:]):
                for ckind, ikind in itertools.product(("object", "enum"), repeat=2):
                    for first in ("component-first", "holder-first"):
                        yield {"labels": [f"component={joined!r}", f"holder={holder!r}", f"prop={prop!r}", f"kinds={ckind}/{ikind}", first],
                               "payload": {"mode": "inline-clash", "joined": joined, "holder": holder, "prop": prop, "ckind": ckind, "ikind": ikind, "first": first}}
    # (5) an inline object nested in an inline object under a property name that adds nothing to the derived class name
    for pname in ("_", "-", "$", "", "__", " ", "."):
        for where in ("response", "body", "component-property", "array-items"):
            yield {"labels": [f"nested-name={pname!r}", f"where={where}"], "payload": {"mode": "nested-name", "pname": pname, "where": where}}
    # (6) chains: three spellings of one identifier in every order (the second rename's fallback name may already be held)
    fam = CHAIN_NAMES if tier == "thorough" else CHAIN_NAMES[:6]
    for a, b, c in itertools.permutations(fam, 3):
        for scope in (("attr", "attr-inherited", "query", "header", "schema") if tier == "thorough" else ("attr", "attr-inherited", "query")):
            yield {"labels": [f"a={a!r}", f"b={b!r}", f"c={c!r}", f"scope={scope}", "chain"],
                   "payload": {"mode": "pair", "names": [a, b, c], "scope": scope, "prefix": "field_"}}
    if tier == "thorough":
        for a, b, c in itertools.combinations(PAIR_NAMES[:16], 3):
            for scope in ("attr", "query", "schema"):
                yield {"labels": [f"a={a!r}", f"b={b!r}", f"c={c!r}", f"scope={scope}"],
                       "payload": {"mode": "pair", "names": [a, b, c], "scope": scope, "prefix": "field_"}}


SCOPES = ["attr", "attr-parents", "attr-inherited", "query", "query-pathitem", "header", "schema", "enum", "operation", "tag", "title"]


# ------------------------------------------------------------------------------------------------- seam sweep

def _cat(c):
    try:
        return unicodedata.category(c)
    except TypeError:
        return "??"


def _sweep(lo, hi):
    try:
        from openapi_python_client import utils
        PI, CN = utils.PythonIdentifier, utils.ClassName
    except (ImportError, AttributeError):
        return {"outcome": "seam-renamed", "nontrivial": False}
    bad = {}
    n = 0
    classes = {}
    for cp in range(lo, hi):
        c = chr(cp)
        for pos, name in (("alone", c), ("lead", c + "a"), ("trail", "a" + c), ("inner", "a" + c + "b")):
            for prefix in PREFIXES:
                for fn_name, fn in (("PythonIdentifier", lambda v, p=prefix: PI(v, p)), ("ClassName", lambda v, p=prefix: CN(v, p))):
                    n += 1
                    try:
                        r = str(fn(name))
                        ok = r.isidentifier() and not keyword.iskeyword(r)
                        why = "not-identifier" if not r.isidentifier() else "keyword"
                    except Exception as exc:  # noqa: BLE001
                        ok, why, r = False, f"raises-{type(exc).__name__}", ""
                    if not ok:
                        k = (fn_name, why, _cat(c), pos)
                        slot = bad.setdefault(k, [0, f"U+{cp:04X} name={name!r} -> {r!r} (prefix {prefix!r})"])
                        slot[0] += 1
        # behavioural class census (PythonIdentifier, inner position)
        try:
            r = str(PI("a" + c + "b", "field_"))
            cls = "stripped" if r == "ab" else ("delimiter" if r == "a_b" else ("kept" if c.lower() in r or c in r else "mapped"))
        except Exception:  # noqa: BLE001
            cls = "raises"
        classes[cls] = classes.get(cls, 0) + 1
    viol = [{"oracle": "seam-identifier", "site": fn, "key": f"{why}/{cat}/{pos}/{lo:06X}", "detail": f"{cnt} names, first: {ex}"}
            for (fn, why, cat, pos), (cnt, ex) in sorted(bad.items())]
    return {"violations": viol, "outcome": "sweep:" + ("clean" if not viol else "bad"), "nontrivial": True, "steps": n,
            "stats": {"names_swept": n, **{f"class_{k}": v for k, v in classes.items()}}}


SUB_CLASSES = {"l": "abxy", "U": "ABXY", "d": "1290"}


def _substitution(patterns):
    """Seam-level injectivity under single-character substitution: two names that differ in exactly ONE character, replaced by another
    character of the same class (lower-case letter, upper-case letter, digit) at the same position, are never mapped to one identifier
    by any naming function.  Patterns are all strings of length 1..5 over {l, U, d, _} (delimiter positions are not substituted)."""
    try:
        from openapi_python_client import utils
    except ImportError:
        return {"outcome": "seam-renamed", "nontrivial": False}
    fns = {"snake_case": utils.snake_case, "pascal_case": utils.pascal_case, "kebab_case": utils.kebab_case,
           "PythonIdentifier": lambda v: str(utils.PythonIdentifier(v, "field_")), "ClassName": lambda v: str(utils.ClassName(v, "field_"))}
    bad, n = {}, 0
    for pat in patterns:
        base = "".join("_" if t == "_" else SUB_CLASSES[t][0] for t in pat)
        for i, t in enumerate(pat):
            if t == "_":
                continue
            variants = [base[:i] + ch + base[i + 1:] for ch in SUB_CLASSES[t]]
            for fname, fn in fns.items():
                seen = {}
                for v in variants:
                    n += 1
                    try:
                        r = fn(v)
                    except Exception as exc:  # noqa: BLE001
                        r = f"<raises {type(exc).__name__}>"
                    if r in seen and seen[r] != v:
                        k = (fname, t, "before-" + (pat[i + 1] if i + 1 < len(pat) else "end"))
                        slot = bad.setdefault(k, [0, f"{seen[r]!r} and {v!r} -> {r!r}"])
                        slot[0] += 1
                    seen.setdefault(r, v)
    viol = [{"oracle": "seam-substitution", "site": fn, "key": f"{cls}/{ctx}", "detail": f"{cnt} pairs of names differing in one {cls!r} character map to one identifier, first: {ex}"}
            for (fn, cls, ctx), (cnt, ex) in sorted(bad.items())]
    return {"violations": viol, "outcome": "substitution:" + ("clean" if not viol else "bad"), "nontrivial": True, "steps": n, "stats": {"names_substituted": n}}


# ------------------------------------------------------------------------------------------------- end to end

def _doc(scope, names):
    ok = {"200": {"description": "d"}}
    if scope == "attr":
        return gen.base_doc({"M": {"type": "object", "properties": {n: {"type": "integer"} for n in names}}})
    if scope == "attr-parents":      # one model's attributes, each inherited from a different allOf parent
        comps = {f"Parent{i}": {"type": "object", "properties": {n: {"type": "integer"}}} for i, n in enumerate(names)}
        comps["M"] = {"allOf": [{"$ref": f"#/components/schemas/Parent{i}"} for i in range(len(names))]}
        return gen.base_doc(comps)
    if scope == "attr-inherited":    # the first inherited, the others declared by the model itself
        comps = {"Parent0": {"type": "object", "properties": {names[0]: {"type": "integer"}}},
                 "M": {"allOf": [{"$ref": "#/components/schemas/Parent0"}, {"type": "object", "properties": {n: {"type": "integer"} for n in names[1:]}}]}}
        return gen.base_doc(comps)
    if scope in ("query", "header"):
        return gen.base_doc(None, paths={"/x": {"get": {"operationId": "theOp", "parameters": [
            {"name": n, "in": scope, "schema": {"type": "integer"}} for n in names], "responses": ok}}})
    if scope == "query-body":          # the operation also has a request body (the generated functions take it as `body`)
        return gen.base_doc(None, paths={"/x": {"post": {"operationId": "theOp", "parameters": [{"name": n, "in": "query", "schema": {"type": "integer"}} for n in names],
                                                          "requestBody": {"required": True, "content": {"application/json": {"schema": {"type": "object", "properties": {"a": {"type": "string"}}}}}}, "responses": ok}}})
    if scope == "query-pathitem":      # one operation's parameters, the first declared by the operation, the others by its path item
        return gen.base_doc(None, paths={"/x": {"parameters": [{"name": n, "in": "query", "schema": {"type": "integer"}} for n in names[1:]],
                                                "get": {"operationId": "theOp", "parameters": [{"name": names[0], "in": "query", "schema": {"type": "integer"}}], "responses": ok}}})
    if scope == "schema":
        return gen.base_doc({n: {"type": "object", "properties": {"v": {"type": "integer"}}} for n in names})
    if scope == "enum":
        return gen.base_doc({"E": {"type": "string", "enum": list(names)}})
    if scope == "operation":
        return gen.base_doc(None, paths={f"/p{i}": {"get": {"operationId": n, "tags": ["tg"], "responses": ok}} for i, n in enumerate(names)})
    if scope == "tag":
        return gen.base_doc(None, paths={f"/p{i}": {"get": {"operationId": f"op{i}", "tags": [n], "responses": ok}} for i, n in enumerate(names)})
    if scope == "title":
        d = gen.base_doc({"M": {"type": "object"}})
        d["info"]["title"] = names[0]
        return d
    raise ValueError(scope)


def nfkc(s):
    return unicodedata.normalize("NFKC", s)


def _scope_names(scope, res):
    """Python names the generated scope holds (counted on the AST / the tree)."""
    pkg = res.pkg_tree()
    if scope.startswith("attr"):
        m = next((x for x in res.models if x["name"] == "/components/schemas/M"), None)
        if m is None or f"models/{m['module']}.py" not in pkg:
            return None
        mod = ast.parse(pkg[f"models/{m['module']}.py"])
        for node in mod.body:
            if isinstance(node, ast.ClassDef):
                return [st.target.id for st in node.body if isinstance(st, ast.AnnAssign) and isinstance(st.target, ast.Name)
                        and st.target.id != "additional_properties"]
        return []
    if scope in ("query", "header", "query-pathitem", "query-body"):
        if not res.endpoints:
            return None
        ep = res.endpoints[0]
        f = f"api/{ep['tag']}/{ep['module']}.py"
        if f not in pkg:
            return None
        mod = ast.parse(pkg[f])
        for node in mod.body:
            if isinstance(node, ast.FunctionDef) and node.name == "sync_detailed":
                return [a.arg for a in node.args.args + node.args.kwonlyargs if a.arg != "client" and not (scope == "query-body" and a.arg == "body")]
        return []
    if scope == "schema":
        files = [k[len("models/"):-3] for k in pkg if k.startswith("models/") and k.endswith(".py") and not k.endswith("__init__.py")]
        classes = []
        for k in pkg:
            if k.startswith("models/") and not k.endswith("__init__.py") and k.endswith(".py"):
                for node in ast.parse(pkg[k]).body:
                    if isinstance(node, ast.ClassDef):
                        classes.append(node.name)
        return {"modules": files, "classes": classes}
    if scope == "enum":
        e = res.enums[0] if res.enums else None
        if e is None or f"models/{e['module']}.py" not in pkg:
            return None
        mod = ast.parse(pkg[f"models/{e['module']}.py"])
        for node in mod.body:
            if isinstance(node, ast.ClassDef):
                return [st.targets[0].id for st in node.body if isinstance(st, ast.Assign) and isinstance(st.targets[0], ast.Name)]
        return []
    if scope == "operation":
        return [k.split("/")[-1][:-3] for k in pkg if k.startswith("api/") and k.count("/") == 2 and not k.endswith("__init__.py")]
    if scope == "tag":
        return sorted({k.split("/")[1] for k in pkg if k.startswith("api/") and k.count("/") == 2})
    if scope == "title":
        return [res_dirname(res)]
    return None


def res_dirname(res):
    return res.title_dir


def _ident_problem(stem):
    """None if ``stem`` is a valid non-keyword identifier, else a reason class."""
    if keyword.iskeyword(stem):
        return "keyword"
    if stem.isidentifier():
        return None
    if not stem:
        return "empty"
    for i, ch in enumerate(stem):
        probe = ("a" + ch) if i else ch
        if not probe.isidentifier():
            return f"char-{_cat(ch)}" + ("-lead" if i == 0 and ("a" + ch).isidentifier() else "")
    return "other"


def _path_components_ok(res):
    bad = []
    for k in res.pkg_tree():
        for comp in k.split("/"):
            stem = comp[:-3] if comp.endswith(".py") else comp
            if comp in ("py.typed",):
                continue
            why = _ident_problem(stem)
            if why:
                bad.append((k, why))
    return bad


_DELIMS = " ._-"


def diffclass(names):
    """Document-side class of what distinguishes the names (no generator knowledge); for more than two names, the class of
    the closest pair."""
    if len(names) > 2:
        cs = [diffclass([x, y]) for x, y in itertools.combinations(names, 2)]
        return next((c for c in cs if c != "other"), "other")
    a, b = names[0], names[1]
    if nfkc(a) == nfkc(b):
        return "nfkc"
    flags = []
    sa, sb = a.strip(_DELIMS), b.strip(_DELIMS)
    if sa != a or sb != b:
        if sa == sb:
            return "edge-delims"
        flags.append("edge-delims")
    ia = "".join(ch for ch in sa if ch not in _DELIMS)
    ib = "".join(ch for ch in sb if ch not in _DELIMS)
    if ia == ib:
        return "+".join(flags + ["inner-delims"])
    if ia.lower() == ib.lower():
        return "+".join(flags + (["inner-delims"] if (ia != sa or ib != sb) else []) + ["case"])
    pa = "".join(ch for ch in ia if ch.isalnum()).lower()
    pb = "".join(ch for ch in ib if ch.isalnum()).lower()
    if pa == pb:
        return "+".join(flags + ["punct"])
    return "other"


def _nested_name(p):
    inner = {"type": "object", "properties": {"deep": {"type": "string"}}}
    outer = {"type": "object", "properties": {"top": {"type": "integer"}, p["pname"]: inner}}
    ok = {"200": {"description": "d"}}
    comps, paths = None, {}
    if p["where"] == "response":
        paths = {"/x": {"get": {"operationId": "theOp", "responses": {"200": {"description": "d", "content": {"application/json": {"schema": outer}}}}}}}
    elif p["where"] == "body":
        paths = {"/x": {"post": {"operationId": "theOp", "requestBody": {"required": True, "content": {"application/json": {"schema": outer}}}, "responses": ok}}}
    elif p["where"] == "component-property":
        comps = {"Holder": {"type": "object", "properties": {"held": outer}}}
    else:
        comps = {"Holder": {"type": "object", "properties": {"rows": {"type": "array", "items": outer}}}}
    res = gen.generate(gen.base_doc(comps, paths=paths))
    if res.crash:
        return {"skipped_crash": True, "outcome": f"crash:{res.crash['type']}@{res.crash['where']}", "nontrivial": False}
    if res.rejected:
        return {"outcome": "rejected", "nontrivial": True}
    viol = []
    key = f"nested-name/{p['where']}"
    # two object schemas are described (outer, inner) [+ the holder]: each has a class of its own holding its own attributes, or a diagnostic exists
    if not res.diags:
        pkg = res.pkg_tree()
        attr_sets = []
        for k, b in pkg.items():
            if k.startswith("models/") and not k.endswith("__init__.py"):
                for node in ast.parse(b).body:
                    if isinstance(node, ast.ClassDef):
                        attr_sets.append((node.name, sorted(st.target.id for st in node.body if isinstance(st, ast.AnnAssign) and isinstance(st.target, ast.Name) and st.target.id != "additional_properties")))
        has_inner = any(a == ["deep"] for _n, a in attr_sets)
        has_outer = any("top" in a for _n, a in attr_sets)
        if not (has_inner and has_outer):
            viol.append({"oracle": "silent-merge", "site": "schema", "key": f"{key}/classes",
                         "detail": f"outer {{top, {p['pname']!r}}} and inner {{deep}} objects -> classes {attr_sets!r} and no diagnostic"})
    for f, msg in trees.syntax_errors(res.pkg_tree()):
        viol.append({"oracle": "invalid-identifier", "site": role(f), "key": f"{key}/{norm_msg(msg)}", "detail": f"{f}: {msg}"})
    return {"violations": viol, "outcome": "ok" if not viol else "viol:" + ",".join(sorted({v['oracle'] for v in viol})), "nontrivial": True, "steps": 2}


def _inline_clash(p):
    mk = {"object": lambda tag: {"type": "object", "properties": {tag: {"type": "integer"}}}, "enum": lambda tag: {"type": "string", "enum": [tag + "1", tag + "2"]}}
    comp = mk[p["ckind"]]("c")
    holder = {"type": "object", "properties": {p["prop"]: mk[p["ikind"]]("i"), "n": {"type": "integer"}}}
    comps = {p["joined"]: comp, p["holder"]: holder} if p["first"] == "component-first" else {p["holder"]: holder, p["joined"]: comp}
    if p["joined"] == p["holder"]:
        return {"outcome": "n/a", "nontrivial": False}
    user = {"type": "object", "properties": {"c": {"$ref": "#/components/schemas/" + p["joined"]}, "h": {"$ref": "#/components/schemas/" + p["holder"]}}}
    comps["UserOfBoth"] = user
    res = gen.generate(gen.base_doc(comps))
    if res.crash:
        return {"skipped_crash": True, "outcome": f"crash:{res.crash['type']}@{res.crash['where']}", "nontrivial": False}
    if res.rejected:
        return {"outcome": "rejected", "nontrivial": True}
    viol = []
    key = f"inline-clash/{p['ckind']}+{p['ikind']}"
    from checks.c01 import tree_violations
    got = _scope_names("schema", res)
    classes = got["classes"] if got else []
    # 4 classes are described (component, holder, the holder's inline class, the user); fewer classes than that without a diagnostic is a silent merge
    dc = diffclass([p["joined"], p["holder"] + "_" + p["prop"]])      # how the component's spelling differs from the inline class's derived name
    if not res.diags and len(set(classes)) < 4:
        viol.append({"oracle": "silent-merge", "site": "schema", "key": f"classes/merged/{dc}",
                     "detail": f"component {p['joined']!r} ({p['ckind']}) and the inline {p['ikind']} {p['holder']}.{p['prop']} -> classes {sorted(classes)!r} and no diagnostic"})
    if not res.diags and len(set(got["modules"])) < 4:
        viol.append({"oracle": "silent-merge", "site": "schema", "key": f"modules/merged/{dc}",
                     "detail": f"component {p['joined']!r} and the inline class of {p['holder']}.{p['prop']} -> modules {sorted(got['modules'])!r} and no diagnostic"})
    if not viol:
        for v in tree_violations(res, key):      # a broken package is the visible consequence of an unreported merge
            if v["oracle"] in ("import", "closure"):
                viol.append(dict(v, oracle="merge-breaks-package"))
    seen, uniq = set(), []
    for v in viol:
        k = (v["oracle"], v["site"], v["key"])
        if k not in seen:
            seen.add(k)
            uniq.append(v)
    return {"violations": uniq, "outcome": "ok" if not uniq else "viol:" + ",".join(sorted({v['oracle'] for v in uniq})), "nontrivial": True, "steps": 2}


def _e2e(p):
    from checks.c01 import norm_msg, role
    names = p["names"] if p["mode"] == "pair" else [p["name"]]
    scope = p["scope"]
    if scope == "title" and p["mode"] == "pair":
        return {"outcome": "n/a", "nontrivial": False}
    if scope == "header" and any(not n.isascii() or not n for n in names):
        return {"outcome": "n/a", "nontrivial": False}       # HTTP header names are ASCII tokens
    doc = _doc(scope, names)
    import os
    out = gen.fresh_dir("t")
    os.makedirs(out)
    cwd = os.getcwd()
    try:
        if scope == "title":
            os.chdir(out)
            res = gen.generate(doc, out=None, field_prefix=p["prefix"], meta="poetry", _cwd_default=True) if False else _gen_default_dir(doc, p["prefix"], out)
        else:
            res = gen.generate(doc, field_prefix=p["prefix"])
    finally:
        os.chdir(cwd)
        import shutil
        shutil.rmtree(out, ignore_errors=True)
    if res.crash:
        return {"skipped_crash": True, "outcome": f"crash:{res.crash['type']}@{res.crash['where']}", "nontrivial": False}
    if res.rejected:
        return {"outcome": "rejected", "nontrivial": True}
    viol = []
    key = f"{scope}"
    syn = trees.syntax_errors(res.pkg_tree())
    from checks.c01 import _raw_name_on_line
    for f, msg in syn:
        raw = _raw_name_on_line(res.pkg_tree()[f], msg, names, p["prefix"])
        viol.append({"oracle": "invalid-identifier", "site": role(f), "key": f"{key}/{raw}{norm_msg(msg)}", "detail": f"{f}: {msg}"})
    for k, why in _path_components_ok(res):
        viol.append({"oracle": "invalid-path-component", "site": role(k), "key": f"{key}/{why}", "detail": f"path {k!r} has a component that is not an identifier ({why})"})
    if scope == "title":
        for comp in res.title_components:
            why = _ident_problem(comp.replace("-", "_"))
            if why:
                viol.append({"oracle": "invalid-path-component", "site": "project-dir", "key": f"{key}/{why}", "detail": f"directory {comp!r} derived from title {names[0]!r} ({why})"})
    if not syn and p["mode"] == "pair":
        got = _scope_names(scope, res)
        diag = res.diag_text()
        n = len(names)
        if got is not None:
            sets = got if isinstance(got, dict) else {"names": got}
            for what, lst in sets.items():
                distinct = {nfkc(x) for x in lst}
                if scope == "tag":
                    continue      # two tags sharing one package lose nothing; tags are not one of C09's scopes
                if len(distinct) < n and not res.diags:
                    cls = "nfkc-equal" if len(set(lst)) >= n else "merged"
                    viol.append({"oracle": "silent-merge", "site": scope, "key": f"{what}/{cls}/{diffclass(names)}",
                                 "detail": f"{n} document names {names!r} -> {what} {sorted(lst)!r} and no diagnostic"})
                elif len(distinct) < n and not all(x in diag for x in names if x):
                    pass        # a diagnostic exists; 'names the clash' is judged leniently (C07 owns precise naming)
    seen, uniq = set(), []
    for v in viol:
        k = (v["oracle"], v["site"], v["key"])
        if k not in seen:
            seen.add(k)
            uniq.append(v)
    return {"violations": uniq, "outcome": "ok" if not uniq else "viol:" + ",".join(sorted({v['oracle'] for v in uniq})), "nontrivial": True, "steps": 2}


def _gen_default_dir(doc, prefix, cwd):
    """Generate with the output directory derived from the title (package / project directory scope)."""
    import contextlib
    import io
    import os
    res = gen.GenResult()
    res.title_components, res.title_dir = [], ""
    try:
        cfg = gen.mkconfig(None, "poetry", field_prefix=prefix)
        with contextlib.redirect_stdout(io.StringIO()):
            data = gen.GeneratorData.from_dict(doc, config=cfg)
            if isinstance(data, gen.GeneratorError):
                res.rejected = True
                res.diags = [gen.Diag(data)]
                return res
            gen._record_claims(res, data, cfg)
            proj = gen.Project(openapi=data, config=cfg)
            errs = proj.build()
        res.diags = [gen.Diag(e) for e in errs]
        res.tree = gen.read_tree(proj.project_dir)
        res.pkg_prefix = os.path.relpath(proj.package_dir, proj.project_dir)
        res.title_components = [os.path.basename(str(proj.project_dir)), res.pkg_prefix]
        res.title_dir = res.pkg_prefix
        inside = os.path.realpath(str(proj.project_dir)).startswith(os.path.realpath(str(cwd)) + os.sep)
        if not inside:
            res.title_components.append("<escapes cwd>" + str(proj.project_dir))
    except Exception as exc:  # noqa: BLE001
        res.crash = gen.crash_info(exc)
    return res


def run_case(p):
    if p["mode"] == "sweep":
        return _sweep(p["lo"], p["hi"])
    if p["mode"] == "inline-clash":
        return _inline_clash(p)
    if p["mode"] == "substitution":
        return _substitution(p["patterns"])
    if p["mode"] == "nested-name":
        return _nested_name(p)
    return _e2e(p)
