"""C08 — a bad piece of the document never damages unrelated output (DESIGN §C08; fault enumeration, differential)."""
from __future__ import annotations

import copy
import itertools

from specmc import gen
from specmc.refmodels import deps

ID = "C08"
LEVEL = "fault_enumeration"
RULE = ("[base E: inline schemas named by title alone (use_path_prefixes off), bad pieces carrying the title of a healthy inline enum / object] every single insertion (thorough: every pair) of each of 11 bad-piece kinds at every position (new component; property / "
        "array item / union member / additionalProperties of each object schema; parameter / body / response of each operation) "
        "of 3 valid base documents whose units are linked by every kind of $ref edge (a fourth base holds several operations per path owning inline classes and shared path-item parameters that some operations re-declare: the bad piece is also inserted into the shared parameter, carried only by the operations that inherit it), plus every single under every permutation "
        "of components.schemas of one base; oracle: modules outside the reverse-dependency cone byte-identical to those of the "
        "cone-free document, remaining tree importable and closed, diagnostics present, nothing invented; non-trivial = the "
        "faulted document was generated and compared; bases include reference cycles; piece kinds include a bad shared path-item parameter and a bad second media type next to a healthy referenced body; a generator crash caused by the piece while the cone-free document generates is reported as damage")
FLOOR = 0.6
ASSUMPTIONS = ["RM-deps (reverse reachability over $ref edges, through component parameters/responses/request bodies) defines the cone",
               "what happens inside the cone is not pinned, only that it is diagnosed and importable"]

R = "#/components/schemas/"


def ref(n):
    return {"$ref": R + n}


def jresp(n):
    return {"200": {"description": "ok", "content": {"application/json": {"schema": ref(n)}}}}


def base_a():
    S = {"A": {"type": "object", "properties": {"x": {"type": "string"}}},
         "B": {"type": "object", "properties": {"a": ref("A")}},
         "C": {"type": "object", "properties": {"bs": {"type": "array", "items": ref("B")}, "e": ref("E")}},
         "D": {"allOf": [ref("A"), {"type": "object", "properties": {"y": {"type": "integer"}}}]},
         "U": {"type": "object", "properties": {"u": {"type": "integer"}, "w": {"oneOf": [ref("E"), {"type": "integer"}]}}},
         "E": {"type": "string", "enum": ["p", "q"]}}
    P = {"/u": {"get": {"operationId": "getU", "responses": jresp("U")}},
         "/c": {"get": {"operationId": "getC", "responses": jresp("C")},
                "post": {"operationId": "postD", "requestBody": {"content": {"application/json": {"schema": ref("D")}}}, "responses": {"204": {"description": "n"}}}},
         "/e/{e}": {"get": {"operationId": "getE", "parameters": [{"name": "e", "in": "path", "required": True, "schema": ref("E")}],
                            "responses": {"200": {"description": "ok"}}}}}
    return gen.base_doc(S, paths=P)


def base_b():
    S = {"X": {"type": "object", "properties": {"v": {"type": "integer"}}},
         "P1": {"type": "object", "properties": {"x": ref("X"), "n": {"type": "string"}}},
         "P2": {"type": "object", "properties": {"xs": {"type": "array", "items": ref("X")}}},
         "P3": {"type": "object", "properties": {"u": {"oneOf": [ref("X"), {"type": "integer"}]}}},
         "P4": {"type": "object", "additionalProperties": ref("X")},
         "P5": {"allOf": [ref("X"), {"type": "object", "properties": {"own": {"type": "string"}}}]},
         "Q": {"type": "object", "properties": {"p": ref("P1"), "m": ref("P4")}},
         "Lst": {"type": "array", "items": ref("X")},
         "Hold": {"type": "object", "properties": {"l": ref("Lst")}},
         "W": {"type": "object", "properties": {"w": {"type": "string", "format": "date"}, "k": ref("K")}},
         "K": {"type": "integer", "enum": [1, 2]},
         "V": {"type": "object", "properties": {"ws": {"type": "array", "items": ref("W")}}}}
    P = {"/w": {"get": {"operationId": "getW", "tags": ["keep"], "responses": jresp("W")}},
         "/v": {"get": {"operationId": "getV", "tags": ["keep"], "responses": jresp("V")}},
         "/q": {"get": {"operationId": "getQ", "responses": jresp("Q")}},
         "/lst": {"get": {"operationId": "getLst", "responses": jresp("Lst")}},
         "/x": {"post": {"operationId": "postX", "requestBody": {"content": {"application/json": {"schema": ref("X")}}}, "responses": {"204": {"description": "n"}}}},
         "/p5": {"put": {"operationId": "putP5", "requestBody": {"content": {"application/json": {"schema": ref("P5")}}}, "responses": jresp("P2")}}}
    return gen.base_doc(S, paths=P)


def base_c():
    S = {"S": {"type": "object", "required": ["id"], "properties": {"id": {"type": "integer"}, "kind": ref("Kind")}},
         "T": {"type": "object", "properties": {"s": ref("S"), "extra": {"type": "object", "properties": {"deep": ref("S")}}}},
         "Kind": {"type": "string", "enum": ["k1", "k2"]},
         "Z": {"type": "object", "properties": {"z": {"type": "number"}}}}
    comps = {"parameters": {"Pq": {"name": "kind", "in": "query", "schema": ref("Kind")}, "Pz": {"name": "zed", "in": "header", "schema": {"type": "string"}}},
             "responses": {"Rs": {"description": "d", "content": {"application/json": {"schema": ref("S")}}},
                           "Rz": {"description": "d", "content": {"application/json": {"schema": ref("Z")}}}},
             "requestBodies": {"Rb": {"content": {"application/json": {"schema": ref("T")}}}}}
    P = {"/s": {"get": {"operationId": "getS", "parameters": [{"$ref": "#/components/parameters/Pq"}], "responses": {"200": {"$ref": "#/components/responses/Rs"}}},
                "post": {"operationId": "postT", "requestBody": {"$ref": "#/components/requestBodies/Rb"}, "responses": {"200": {"$ref": "#/components/responses/Rz"}}}},
         "/z": {"parameters": [{"$ref": "#/components/parameters/Pz"}],
                "get": {"operationId": "getZ", "responses": {"200": {"$ref": "#/components/responses/Rz"}, "404": {"description": "nf"}}}}}
    return gen.base_doc(S, paths=P, version="3.0.3", components=comps)


def base_d():
    """Path items with several operations, each owning inline classes (inline enum parameter, inline object body / response)."""
    S = {"Item": {"type": "object", "properties": {"id": {"type": "integer"}, "state": ref("State")}}, "State": {"type": "string", "enum": ["on", "off"]},
         # reference cycles: a bad piece inside one takes the cycle (and its dependants) away, nothing else
         "TreeNode": {"type": "object", "properties": {"v": {"type": "integer"}, "children": {"type": "array", "items": ref("TreeNode")}}},
         "Folder": {"type": "object", "properties": {"name": {"type": "string"}, "entries": {"type": "array", "items": ref("Entry")}}},
         "Entry": {"type": "object", "properties": {"parent": ref("Folder"), "size": {"type": "integer"}}},
         "Shelf": {"type": "object", "properties": {"top": ref("Folder")}},
         # COUNT: arrays with two or more item schemas (3.1 prefixItems, with and without items) referring to other models
         "Pair": {"type": "object", "properties": {"both": {"type": "array", "prefixItems": [ref("Entry"), {"type": "integer"}], "items": ref("Item")},
                                                   "solo": {"type": "array", "prefixItems": [ref("TreeNode"), ref("Shelf")]},
                                                   "named": {"type": "object", "additionalProperties": {"type": "array", "prefixItems": [ref("State"), {"type": "string"}]}}}}}
    iobj = lambda **p: {"type": "object", "properties": p}  # noqa: E731
    ok = lambda sch: {"200": {"description": "ok", "content": {"application/json": {"schema": sch}}}}  # noqa: E731
    sort = lambda: {"name": "sort", "in": "query", "schema": {"type": "string", "enum": ["asc", "desc"]}}  # noqa: E731
    P = {"/items": {"get": {"operationId": "listItems", "parameters": [sort()], "responses": ok(iobj(items={"type": "array", "items": ref("Item")}, total={"type": "integer"}))},
                    "put": {"operationId": "replaceItems", "requestBody": {"content": {"application/json": {"schema": iobj(all={"type": "array", "items": ref("Item")})}}}, "responses": {"204": {"description": "n"}}},
                    "post": {"operationId": "createItem", "requestBody": {"content": {"application/json": {"schema": iobj(name={"type": "string"}, mode={"type": "string", "enum": ["m1", "m2"]})}}},
                             "responses": ok(ref("Item"))},
                    "delete": {"operationId": "purgeItems", "parameters": [{"name": "older", "in": "query", "schema": {"type": "string", "enum": ["day", "week"]}}], "responses": {"204": {"description": "n"}}}},
         "/items/{id}": {"parameters": [{"name": "id", "in": "path", "required": True, "schema": {"type": "integer"}}],
                         "get": {"operationId": "getItem", "responses": ok(iobj(item=ref("Item"), etag={"type": "string"}))},
                         "patch": {"operationId": "patchItem", "requestBody": {"content": {"application/json": {"schema": iobj(state=ref("State"))}}}, "responses": ok(ref("Item"))}},
         "/plain": {"get": {"operationId": "getPlain", "responses": {"204": {"description": "n"}}}},
         # operations that are ALONE in their tag (a fault in one empties the tag)
         "/solo": {"get": {"operationId": "getSolo", "tags": ["solo"], "responses": ok(ref("Item"))}},
         "/tree": {"get": {"operationId": "getTree", "responses": ok(ref("TreeNode"))}},
         "/shelf": {"get": {"operationId": "getShelf", "responses": ok(ref("Shelf"))}},
         "/pair": {"get": {"operationId": "getPair", "responses": ok(ref("Pair"))}},
         "/duo": {"post": {"operationId": "postDuo", "tags": ["duo", "extra"], "requestBody": {"content": {"application/json": {"schema": ref("Item")}}}, "responses": {"204": {"description": "n"}}}},
         # shared path-item parameters: inherited by one operation, re-declared (same name and location) by the others
         "/shared": {"parameters": [{"name": "q", "in": "query", "schema": {"type": "string"}}, {"name": "X-T", "in": "header", "schema": {"type": "string"}}],
                     "get": {"operationId": "listShared", "responses": ok(ref("Item"))},
                     "post": {"operationId": "createShared", "parameters": [{"name": "q", "in": "query", "schema": {"type": "boolean"}}],
                              "requestBody": {"content": {"application/json": {"schema": iobj(note={"type": "string"})}}}, "responses": {"204": {"description": "n"}}},
                     "delete": {"operationId": "purgeShared", "parameters": [{"name": "q", "in": "query", "required": True, "schema": {"type": "integer"}},
                                                                              {"name": "X-T", "in": "header", "schema": {"type": "string", "enum": ["a", "b"]}}],
                                "responses": {"204": {"description": "n"}}}}}
    return gen.base_doc(S, paths=P)


def base_e():
    """Generated with use_path_prefixes_for_title_model_names off: inline schemas are named by their TITLE alone, so titled inline
    enums / objects in different operations and components share class names (identical ones share the class).  A refused piece that
    carries one of those titles must not take the name away from the healthy uses, whichever is declared first."""
    mode = lambda: {"type": "string", "title": "SharedMode", "enum": ["on", "off", "auto"]}  # noqa: E731
    box = lambda t: {"type": "object", "title": t, "properties": {"w": {"type": "integer"}}}  # noqa: E731   (objects never share a class)
    ok = lambda sch: {"200": {"description": "ok", "content": {"application/json": {"schema": sch}}}}  # noqa: E731
    S = {"Lamp": {"type": "object", "properties": {"mode": mode(), "box": box("LampBox"), "n": {"type": "integer"}}}, "Kind2": {"type": "string", "enum": ["k1", "k2"]},
         "Room": {"type": "object", "properties": {"lamp": ref("Lamp"), "kind": ref("Kind2")}}}
    P = {"/first": {"get": {"operationId": "getFirst", "responses": ok(mode())}},
         "/light": {"get": {"operationId": "getLight", "parameters": [{"name": "m", "in": "query", "schema": mode()}], "responses": ok(ref("Lamp"))},
                    "post": {"operationId": "setLight", "requestBody": {"content": {"application/json": {"schema": box("LightBox")}}}, "responses": {"204": {"description": "n"}}}},
         "/room": {"get": {"operationId": "getRoom", "responses": ok(ref("Room"))}},
         "/last": {"put": {"operationId": "putLast", "requestBody": {"content": {"application/json": {"schema": {"type": "object", "properties": {"mode": mode()}}}}}, "responses": ok(box("LastBox"))}}}
    return gen.base_doc(S, paths=P)


BASES = {"A": base_a, "B": base_b, "C": base_c, "D": base_d, "E": base_e}
OPTIONS = {"E": {"use_path_prefixes_for_title_model_names": False}}
ENUM_OF = {"A": "E", "B": "K", "C": "Kind", "D": "State", "E": "Kind2"}
TITLED_BAD = {   # bad pieces that carry the title of a healthy inline schema of base E (same derived class name)
    "titled-enum-bad-default": {"type": "string", "title": "SharedMode", "enum": ["on", "off"], "default": "dim"},
    "titled-enum-mixed": {"title": "SharedMode", "enum": ["on", 1]},
    "titled-enum-other-values-bad-default": {"type": "string", "title": "SharedMode", "enum": ["on", "off", "auto"], "default": "dim"},
}
MARKERS = {"dangling-ref": "Nope", "remote-ref": "remote.example", "bad-default": "zz"}

BAD_SCHEMAS = {
    "array-no-items": {"type": "array"},
    "dangling-ref": {"$ref": R + "Nope"},
    "remote-ref": {"$ref": "http://remote.example/x.json#/components/schemas/Z"},
    "bad-default": {"type": "integer", "default": "zz"},
    "mixed-enum": {"enum": ["a", 1]},
    "allof-non-object": {"allOf": [{"$ref": R + "<ENUM>"}, {"type": "object", "properties": {"k": {"type": "string"}}}]},
    "allof-incompatible": {"allOf": [{"type": "object", "properties": {"k": {"type": "string"}}}, {"type": "object", "properties": {"k": {"type": "integer"}}}]},
}
OP_FAULTS = ["optional-path-param", "duplicate-params", "unparseable-body", "unsupported-response"]


def _object_schemas(doc):
    return [k for k, v in doc["components"]["schemas"].items() if isinstance(v, dict) and v.get("type") == "object" and "properties" in v]


def _ops(doc):
    return [(m, p) for p, item in doc["paths"].items() for m in item if m in deps.METHODS]


def insert(doc, bad_name, pos, base="A"):
    """Return (faulted document, carriers) or None if not applicable."""
    d = copy.deepcopy(doc)
    kind = pos[0]
    # in a PAIR of faults the first one may have renamed the path (optional-path-param) or removed what this position names
    if kind in ("param", "resp", "body", "op", "media2") and (pos[2] not in d["paths"] or pos[1] not in d["paths"][pos[2]]):
        return None
    if kind == "itemparam" and (pos[1] not in d["paths"] or len(d["paths"][pos[1]].get("parameters", [])) <= pos[2]):
        return None
    if kind in ("prop", "item", "union", "addl") and pos[1] not in d["components"]["schemas"]:
        return None
    if bad_name in TITLED_BAD and base != "E":
        return None
    if bad_name in BAD_SCHEMAS or bad_name in TITLED_BAD:
        import json
        bad = json.loads(json.dumps({**BAD_SCHEMAS, **TITLED_BAD}[bad_name]).replace("<ENUM>", ENUM_OF[base]))
        if kind == "new":
            d["components"]["schemas"]["Znew"] = bad
            return d, {("schema", "Znew")}
        if kind in ("prop", "item", "union", "addl"):
            s = d["components"]["schemas"][pos[1]]
            if kind == "prop":
                s["properties"]["bad"] = bad
            elif kind == "item":
                s["properties"]["bad"] = {"type": "array", "items": bad}
            elif kind == "union":
                s["properties"]["bad"] = {"oneOf": [bad, {"type": "string"}]}
            else:
                s["additionalProperties"] = bad
            return d, {("schema", pos[1])}
        if kind == "media2":
            # a SECOND media type of a request body that already has a healthy one: only that media type is the bad piece
            m, p = pos[1], pos[2]
            op = d["paths"][p][m]
            if "requestBody" not in op or "$ref" in op["requestBody"]:
                return None
            content = op["requestBody"]["content"]
            if not all(isinstance(v, dict) and "$ref" in v.get("schema", {}) for v in content.values()):
                return None        # inline body classes are named after the NUMBER of declared media types: not a removal-stable shape
            extra = "application/x-www-form-urlencoded" if "application/x-www-form-urlencoded" not in content else "application/vnd.other+json"
            content[extra] = {"schema": bad}
            return d, set()
        if kind == "itemparam":
            # the schema of the i-th path-item level parameter: carried by the operations that INHERIT it (do not re-declare name+location)
            p, i = pos[1], pos[2]
            item = d["paths"][p]
            prm = item["parameters"][i]
            prm["schema"] = bad
            carriers = set()
            for m in item:
                if m in deps.METHODS and not any(isinstance(q, dict) and q.get("name") == prm["name"] and q.get("in") == prm["in"] for q in item[m].get("parameters", [])):
                    carriers.add(("op", m, p))
            return d, carriers
        m, p = pos[1], pos[2]
        op = d["paths"][p][m]
        if kind == "param":
            op.setdefault("parameters", []).append({"name": "bp", "in": "query", "schema": bad})
        elif kind == "resp":
            op["responses"]["404"] = {"description": "x", "content": {"application/json": {"schema": bad}}}
        elif kind == "body":
            if "requestBody" in op:
                return None
            op["requestBody"] = {"content": {"application/json": {"schema": bad}}}
        return d, {("op", m, p)}
    if kind != "op":
        return None
    m, p = pos[1], pos[2]
    op = d["paths"][p][m]
    if bad_name == "optional-path-param":
        newp = p.rstrip("/") + "/{opt}"
        item = d["paths"].pop(p)
        op = item[m]
        op.setdefault("parameters", []).append({"name": "opt", "in": "path", "required": False, "schema": {"type": "string"}})
        if len([x for x in item if x in deps.METHODS]) > 1:
            return None
        d["paths"][newp] = item
        return d, {("op", m, newp)}
    if bad_name == "duplicate-params":
        op.setdefault("parameters", []).extend([{"name": "dup", "in": "query", "schema": {"type": "string"}},
                                                {"name": "dup", "in": "query", "schema": {"type": "integer"}}])
    elif bad_name == "unparseable-body":
        if "requestBody" in op:
            return None
        op["requestBody"] = {"content": {"application/xml": {"schema": {"type": "string"}}}}
    elif bad_name == "unsupported-response":
        op["responses"]["418"] = {"description": "t", "content": {"application/xml": {"schema": {"type": "string"}}}}
    return d, {("op", m, p)}


def positions(doc):
    pos = [("new",)]
    for s in _object_schemas(doc):
        pos += [("prop", s), ("item", s), ("union", s), ("addl", s)]
    for m, p in _ops(doc):
        pos += [("param", m, p), ("resp", m, p), ("body", m, p), ("op", m, p), ("media2", m, p)]
    for p, item in doc["paths"].items():
        for i, prm in enumerate(item.get("parameters", [])):
            if isinstance(prm, dict) and "schema" in prm and prm.get("in") != "path":
                pos.append(("itemparam", p, i))
    return pos


def pos_name(pos):
    return pos[0] + ":" + ("/".join(map(str, pos[1:])) if len(pos) > 1 else "Znew")


def cases(tier):
    for bname, mk in BASES.items():
        doc = mk()
        singles = []
        for pos in positions(doc):
            for bad in list(BAD_SCHEMAS) + list(TITLED_BAD) + OP_FAULTS:
                if (bad in OP_FAULTS) != (pos[0] == "op"):
                    continue
                r = insert(doc, bad, pos, bname)
                if r is None:
                    continue
                singles.append((bad, pos))
                yield {"labels": [f"base={bname}", f"bad={bad}", f"at={pos_name(pos)}"],
                       "payload": {"base": bname, "faults": [[bad, list(pos)]], "order": None, "key": f"{bname}/{bad}@{pos[0]}"}}
        if bname in ("A", "D"):
            # history: the clean document was generated into the directory first, the faulted one overwrites it
            for bad, pos in singles:
                yield {"labels": [f"base={bname}", f"bad={bad}", f"at={pos_name(pos)}", "history=clean-then-faulted"],
                       "payload": {"base": bname, "faults": [[bad, list(pos)]], "order": None, "history": True, "key": f"{bname}/{bad}@{pos[0]}/over-clean"}}
        if bname == "B":
            # order must not matter: every single fault under rotations / reversal of components.schemas (thorough: all of a 5-name subset)
            names = list(doc["components"]["schemas"])
            orders = [names[::-1], names[3:] + names[:3], sorted(names), sorted(names, reverse=True)]
            if tier == "thorough":
                orders += [list(p_) + [n for n in names if n not in p_] for p_ in itertools.permutations(["X", "P1", "Q", "Lst", "Hold"])]
            for oi, order in enumerate(orders):
                for bad, pos in singles:
                    if tier == "quick" and bad not in ("array-no-items", "dangling-ref", "bad-default"):
                        continue
                    yield {"labels": [f"base={bname}", f"bad={bad}", f"at={pos_name(pos)}", f"schema-order={oi}"],
                           "payload": {"base": bname, "faults": [[bad, list(pos)]], "order": order, "key": f"{bname}/{bad}@{pos[0]}/reordered"}}
        if tier == "thorough":
            for (b1, p1), (b2, p2) in itertools.combinations(singles, 2):
                if p1 == p2:
                    continue
                yield {"labels": [f"base={bname}", f"bad={b1}", f"at={pos_name(p1)}", f"bad2={b2}", f"at2={pos_name(p2)}"],
                       "payload": {"base": bname, "faults": [[b1, list(p1)], [b2, list(p2)]], "order": None, "key": f"{bname}/{b1}@{p1[0]}+{b2}@{p2[0]}"}}


def _over_clean(p, d0, dprime, fresh, opts):
    """The faulted document regenerated (overwrite) into the directory that holds the clean document's client: what is left is
    exactly what a fresh generation of the faulted document gives (nothing of a removed piece survives, nothing else is lost)."""
    import shutil
    from checks.c01 import role
    out = gen.fresh_dir("c08hist")
    try:
        first = gen.generate(copy.deepcopy(d0), out=out, keep_dir=True, **opts)
        second = gen.generate(copy.deepcopy(dprime), out=out, overwrite=True, keep_dir=True, **opts)
    finally:
        shutil.rmtree(out, ignore_errors=True)
    if fresh.crash or fresh.rejected or first.crash or first.rejected or second.crash or second.rejected:
        return {"outcome": "n/a", "nontrivial": False}
    viol = []
    for f in sorted(set(fresh.tree) | set(second.tree)):
        a, b = fresh.tree.get(f), second.tree.get(f)
        if a == b:
            continue
        what = "survives from the clean generation" if a is None else ("is missing" if b is None else "differs")
        viol.append({"oracle": "overwrite-differs-from-fresh", "site": role(f), "key": p["key"], "detail": f"{f} {what} after the faulted document overwrote the clean client"})
    seen, uniq = set(), []
    for v in viol:
        k = (v["oracle"], v["site"])
        if k not in seen:
            seen.add(k)
            uniq.append(v)
    return {"violations": uniq, "outcome": "ok" if not uniq else "viol:overwrite", "nontrivial": True, "steps": 3}


def is_index(f):
    return f.endswith("__init__.py")


def run_case(p):
    from checks.c01 import role, tree_violations
    d0 = BASES[p["base"]]()
    if p.get("order"):
        s = d0["components"]["schemas"]
        d0["components"]["schemas"] = {k: s[k] for k in p["order"]}
    dprime, carriers = d0, set()
    for bad, pos in p["faults"]:
        r = insert(dprime, bad, tuple(pos), p["base"])
        if r is None:
            return {"outcome": "n/a", "nontrivial": False}
        dprime, c = r
        carriers |= c
    key = p["key"]
    opts = OPTIONS.get(p["base"], {})
    r1 = gen.generate(copy.deepcopy(dprime), **opts)
    if p.get("history"):
        return _over_clean(p, d0, dprime, r1, opts)
    if r1.crash:
        # the bad piece takes EVERYTHING away (no output at all) although the document without its cone generates: that is damage to unrelated output
        cone_ = deps.cone(dprime, carriers)
        rfree = gen.generate(deps.remove_units(dprime, cone_), **opts)
        if not rfree.crash and not rfree.rejected and rfree.tree:
            return {"violations": [{"oracle": "bad-piece-crashes-generation", "site": "-", "key": key,
                                    "detail": f"the generator raised {r1.crash['type']} at {r1.crash['where']} and produced nothing; without the piece and its cone {len(rfree.tree)} files are generated"}],
                    "outcome": "viol:crash", "nontrivial": True, "steps": 2}
        return {"skipped_crash": True, "outcome": f"crash:{r1.crash['type']}@{r1.crash['where']}", "nontrivial": False}
    if r1.rejected:
        return {"violations": [{"oracle": "whole-document-rejected", "site": "-", "key": key, "detail": r1.diags[0].short()}], "outcome": "rejected"}
    cone = deps.cone(dprime, carriers)
    dout = deps.remove_units(dprime, cone)
    for bad, pos in p["faults"]:
        if pos[0] == "media2":        # the document without the bad piece: the same body without that media type
            if pos[1] not in dout["paths"].get(pos[2], {}):
                continue              # the operation already went with the cone of the other bad piece
            content = dout["paths"][pos[2]][pos[1]]["requestBody"]["content"]
            for k_ in ("application/x-www-form-urlencoded", "application/vnd.other+json"):
                if k_ in content and list(content).index(k_) == len(content) - 1:
                    del content[k_]
                    break
        if pos[0] == "itemparam" and pos[1] in dout["paths"]:      # the shared parameter goes with the operations that inherited it
            prm = dout["paths"][pos[1]]["parameters"]
            dout["paths"][pos[1]]["parameters"] = [q for j, q in enumerate(prm) if j != pos[2]]
    r2 = gen.generate(dout, **opts)
    r0 = gen.generate(copy.deepcopy(d0), **opts)
    viol = []
    if r2.crash or r2.rejected or r0.crash or r0.rejected:
        return {"harness_error": "cone-free or base document did not generate", "outcome": "HARNESS"}
    if r2.diags:
        # the cone-free document must be valid by construction: otherwise the model (not the generator) is wrong
        return {"harness_error": f"cone-free document has diagnostics: {[d.short() for d in r2.diags][:2]}", "outcome": "HARNESS"}
    t1, t2, t0 = r1.tree, r2.tree, r0.tree
    for f, b in sorted(t2.items()):
        if is_index(f):
            continue
        if f not in t1:
            viol.append({"oracle": "outside-cone-missing", "site": role(f), "key": key, "detail": f"{f} is generated without the cone but missing when the bad piece is present (cone: {sorted(map(str, cone))})"})
        elif t1[f] != b:
            viol.append({"oracle": "outside-cone-changed", "site": role(f), "key": key, "detail": f"{f} differs from the cone-free generation"})
    for f in sorted(t1):
        if f not in t0 and not is_index(f):
            viol.append({"oracle": "invented-output", "site": role(f), "key": key, "detail": f"{f} is generated only when the bad piece is present"})
    if not r1.diags:
        viol.append({"oracle": "no-diagnostic", "site": "-", "key": key, "detail": "the faulted document generated without any diagnostic"})
    else:
        text = r1.diag_text()
        for u in carriers:
            nm = u[1] if u[0] == "schema" else u[2]
            alt = u[1].upper() if u[0] == "op" else nm
            marks = [MARKERS[b] for b, _pos in p["faults"] if b in MARKERS]
            if nm not in text and alt not in text and not any(mk in text for mk in marks):
                viol.append({"oracle": "carrier-not-named", "site": "-", "key": key, "detail": f"no diagnostic names the carrier {u}: {[d.short()[:80] for d in r1.diags][:3]}"})
    for v in tree_violations(r1, key):
        viol.append(v)
    seen, uniq = set(), []
    for v in viol:
        k = (v["oracle"], v["site"], v["key"])
        if k not in seen:
            seen.add(k)
            uniq.append(v)
    return {"violations": uniq, "outcome": "ok" if not uniq else "viol:" + ",".join(sorted({v['oracle'] for v in uniq})),
            "nontrivial": True, "steps": 3, "stats": {"cone_units": len(cone)}}
