"""Run the repo's baseline suite in a given checkout and compare with BASELINE.json stable_pass."""
import json, subprocess, sys, os, xml.etree.ElementTree as ET, time
repo=sys.argv[1]
base=json.load(open("/root/.vp/BASELINE.json")); want=set(base["stable_pass"])
xmlp=f"/dev/shm/junit_{os.getpid()}.xml"
t=time.time()
env=dict(os.environ, PYTHONPATH=repo)
r=subprocess.run(["/venv/bin/python","-m","pytest","-q","-p","no:cacheprovider","--timeout=900","--continue-on-collection-errors",f"--junitxml={xmlp}"],cwd=repo,capture_output=True,text=True,env=env)
passed=set()
for tc in ET.parse(xmlp).getroot().iter("testcase"):
    if not any(ch.tag in("failure","error","skipped") for ch in tc): passed.add(f"{tc.get('classname')}::{tc.get('name')}")
os.unlink(xmlp)
missing=want-passed
print(f"{repo}: passed {len(passed)}; stable_pass {len(want)}; stable tests not passing: {len(missing)}; time {time.time()-t:.0f}s")
for m in sorted(missing)[:10]: print("   FAIL", m)
