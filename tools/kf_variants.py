#!/venv/bin/python
"""Extend C18 known-finding families with spelling variants reported by the thorough tier.

A signature  C18:<oracle>:<shape>:variant-of:<scope>/<V>  is admitted to a family only when that family already lists
C18:<oracle>:<shape>:<scope>/<B>  with  B == PythonIdentifier(V)  (the generator maps both spellings to the same Python
name, so the generated code is the same defect); anything else is left for review.  Developer tool: never run by a check."""
import json, re, subprocess, sys
sys.path.insert(0, "/repo")
from openapi_python_client.utils import PythonIdentifier

out = subprocess.run(["/venv/bin/python", "-m", "specmc", "triage", "C18", "--tier", "thorough"], capture_output=True, text=True, cwd="/verif").stdout
new = [m.group(1) for m in re.finditer(r"^\[NEW\] (\S+)", out, re.M)]
kf = json.load(open("/verif/known_findings.json"))
fams = [e for e in kf["findings"] if e["property"] == "C18" and e["status"] == "open"]
left = []
for sig in new:
    m = re.match(r"(C18:[^:]+:[^:]+):variant-of:(.+)/([^/]+)$", sig)
    if not m:
        left.append(sig); continue
    head, scope, v = m.groups()
    base = f"{head}:{scope}/{PythonIdentifier(v, 'field_')}"
    for e in fams:
        sigs = e["signature"] if isinstance(e["signature"], list) else [e["signature"]]
        if base in sigs:
            sigs.append(sig); e["signature"] = sorted(set(sigs))
            if v not in e.get("witness", {}).get("names", []):
                e.setdefault("witness", {}).setdefault("names", []).append(v)
            break
    else:
        left.append(sig)
json.dump(kf, open("/verif/known_findings.json", "w"), indent=1, ensure_ascii=False)
print("admitted", len(new) - len(left), "left for review", len(left))
for s in left:
    print("  ", s)
