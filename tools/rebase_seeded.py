#!/venv/bin/python
"""Rebase seeded patches that no longer apply to /repo's HEAD (after a fix: commit) with a 3-way merge in a scratch
worktree, then re-confirm them (demo passes without / fails with the patch, pinned suite green) through confirm_seeded.py.

    tools/rebase_seeded.py            # every seeded/<id>/patch.diff that fails `git apply --check`
"""
import json, os, shutil, subprocess, sys, tempfile
ROOT = os.path.dirname(os.path.dirname(os.path.abspath(__file__)))


def run(cmd, **kw):
    return subprocess.run(cmd, capture_output=True, text=True, **kw)


def main():
    names = sys.argv[1:] or sorted(os.listdir(os.path.join(ROOT, "seeded")))
    for name in names:
        d = os.path.join(ROOT, "seeded", name)
        patch = os.path.join(d, "patch.diff")
        if not os.path.exists(patch) or run(["git", "-C", "/repo", "apply", "--check", patch]).returncode == 0:
            continue
        wt = tempfile.mkdtemp(prefix="rebwt-", dir="/dev/shm"); os.rmdir(wt)
        tmp = tempfile.mkdtemp(prefix="reb-", dir="/dev/shm")
        try:
            run(["git", "-C", "/repo", "worktree", "add", "-q", "--detach", wt, "HEAD"])
            r = run(["git", "-C", wt, "apply", "--3way", patch])
            if r.returncode != 0 or run(["git", "-C", wt, "diff", "--name-only", "--diff-filter=U"]).stdout.strip():
                print(f"{name}: 3-way merge FAILED: {r.stderr.strip()[-300:]}")
                continue
            new = run(["git", "-C", wt, "diff", "HEAD"]).stdout
            open(os.path.join(tmp, "patch.diff"), "w").write(new)
            shutil.copy(os.path.join(d, "demo.py"), os.path.join(tmp, "demo.py"))
            shutil.copy(os.path.join(d, "meta.json"), os.path.join(tmp, "meta.json"))
        finally:
            run(["git", "-C", "/repo", "worktree", "remove", "--force", wt]); shutil.rmtree(wt, ignore_errors=True)
        old_meta = json.load(open(os.path.join(d, "meta.json")))
        r = run(["/venv/bin/python", os.path.join(ROOT, "tools", "confirm_seeded.py"), tmp, name + ".rebased"])
        ok = "CONFIRMED ->" in r.stdout
        print(f"{name}: rebased, {'re-confirmed' if ok else 'NOT CONFIRMED: ' + r.stdout.strip()[-400:]}")
        nd = os.path.join(ROOT, "seeded", name + ".rebased")
        if ok:
            shutil.copy(os.path.join(nd, "patch.diff"), patch)
            m = json.load(open(os.path.join(nd, "meta.json")))
            for k in ("detected_by", "detected_by_checks"):
                if k in old_meta:
                    m[k] = old_meta[k]
            m["rebased_onto"] = run(["git", "-C", "/repo", "rev-parse", "--short", "HEAD"]).stdout.strip()
            json.dump(m, open(os.path.join(d, "meta.json"), "w"), indent=1)
        shutil.rmtree(nd, ignore_errors=True); shutil.rmtree(tmp, ignore_errors=True)


if __name__ == "__main__":
    main()
