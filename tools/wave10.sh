#!/bin/bash
# confirm a second-wave agent result and run its own property's check (plus extra checks given as further args)
id=$1; shift
cd "$(dirname "$0")/.."
for k in a b; do
  /venv/bin/python tools/confirm_seeded.py /tmp/mut/out10/$id/$k $id-w10$k 2>&1 | tail -2
  [ -d seeded/$id-w10$k ] && /venv/bin/python tools/matrix.py $id-w10$k 2>&1 | grep -v MISSED
done
git -C /repo worktree remove --force /tmp/mut/wt10-$id 2>/dev/null
