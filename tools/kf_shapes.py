#!/venv/bin/python
"""Extend C18 known-finding families to NEW SHAPES: a signature  C18:<oracle>:<shape>:<scope>/<name>  reported by triage is admitted
to a family that already lists the same <scope>/<name> (same captured name in the same role) under another shape; anything else is
left for review.  Developer tool: never run by a check."""
import json, re, subprocess, sys
tier = sys.argv[1] if len(sys.argv) > 1 else "quick"
out = subprocess.run(["/venv/bin/python", "-m", "specmc", "triage", "C18", "--tier", tier], capture_output=True, text=True, cwd="/verif").stdout
new = [m.group(1) for m in re.finditer(r"^\[NEW\] (\S+)", out, re.M)]
kf = json.load(open("/verif/known_findings.json"))
fams = [e for e in kf["findings"] if e["property"] == "C18" and e["status"] == "open"]
left = []
for sig in new:
    m = re.match(r"C18:([^:]+):([^:]+):(.+/[^/]+)$", sig)
    if not m:
        left.append(sig); continue
    _oracle, _shape, tail = m.groups()
    for e in fams:
        sigs = e["signature"] if isinstance(e["signature"], list) else [e["signature"]]
        if any(re.match(r"C18:[^:]+:[^:]+:" + re.escape(tail) + "$", x) for x in sigs):
            sigs.append(sig); e["signature"] = sorted(set(sigs)); break
    else:
        left.append(sig)
json.dump(kf, open("/verif/known_findings.json", "w"), indent=1, ensure_ascii=False)
print("admitted", len(new) - len(left), "left for review", len(left))
for s in left:
    print("  ", s)
