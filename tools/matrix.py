#!/venv/bin/python
"""Run every seeded mutant against its own property's check (default) or against a list of checks.
    tools/matrix.py [--all] [ids...]   -> prints a table and updates seeded/<id>/meta.json:detected_by
"""
import json, os, subprocess, sys
ROOT = os.path.dirname(os.path.dirname(os.path.abspath(__file__)))
ALL = [f"C{i:02d}" for i in range(1, 21)]

def main():
    args = [a for a in sys.argv[1:] if not a.startswith("--")]
    every = "--all" in sys.argv
    seeded = sorted(d for d in os.listdir(os.path.join(ROOT, "seeded")) if os.path.isdir(os.path.join(ROOT, "seeded", d)))
    if args:
        seeded = [s for s in seeded if s in args or s.split("-")[0] in args]
    rows = []
    for s in list(seeded):
        try:
            if json.load(open(os.path.join(ROOT, "seeded", s, "meta.json"))).get("superseded"):
                print(f"{s}: superseded by a repair of the tree (no longer breaks the property), skipped", flush=True)
                seeded.remove(s)
        except Exception:
            pass
    for s in seeded:
        prop = s.split("-")[0]
        checks = ALL if every else [prop]
        r = subprocess.run(["/venv/bin/python", os.path.join(ROOT, "tools", "mutant.py"), os.path.join(ROOT, "seeded", s)] + checks, capture_output=True, text=True)
        line = [l for l in r.stdout.splitlines() if l.startswith("RESULT")]
        res = line[-1] if line else "RESULT ?" + r.stdout[-300:]
        det = [x.split("=")[0] for x in res.split()[1:] if x.endswith("=DETECTED")]
        err = [x.split("=")[0] for x in res.split()[1:] if x.endswith("=ERROR")]
        rows.append((s, det, err))
        print(f"{s}: detected by {det or '-'}" + (f"  ERRORS: {err}" if err else ""), flush=True)
        mp = os.path.join(ROOT, "seeded", s, "meta.json")
        try:
            meta = json.load(open(mp))
        except Exception:
            meta = {}
        old = set(meta.get("detected_by_checks", []))
        meta["detected_by_checks"] = sorted(old | set(det)) if not every else sorted(det)
        json.dump(meta, open(mp, "w"), indent=1)
    missed = [s for s, det, _ in rows if s.split("-")[0] not in det]
    print("MISSED by own check:", missed)

if __name__ == "__main__":
    main()
