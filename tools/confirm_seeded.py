#!/venv/bin/python
"""Confirm a sub-agent's mutant independently and store it under /verif/seeded/<ID>-<k>/.

    tools/confirm_seeded.py /tmp/mut/out/C03/a C03-a
Checks, in a fresh scratch worktree of /repo (removed afterwards): the patch applies, the package
imports, the pinned suite still passes (403 stable tests), demo.py exits 0 without and non-zero with
the patch.  Only then the directory is copied.
"""
import json
import os
import shutil
import subprocess
import sys
import tempfile

ROOT = os.path.dirname(os.path.dirname(os.path.abspath(__file__)))


def run(cmd, **kw):
    return subprocess.run(cmd, capture_output=True, text=True, **kw)


def main():
    src, name = sys.argv[1], sys.argv[2]
    patch = os.path.abspath(os.path.join(src, "patch.diff"))
    demo = os.path.abspath(os.path.join(src, "demo.py"))
    base = "/dev/shm" if os.path.isdir("/dev/shm") else tempfile.gettempdir()
    wt = tempfile.mkdtemp(prefix="confwt-", dir=base)
    os.rmdir(wt)
    try:
        run(["git", "-C", "/repo", "worktree", "add", "-q", "--detach", wt, "HEAD"])
        env = dict(os.environ, PYTHONPATH=wt)
        r0 = run(["/venv/bin/python", demo], env=env, cwd=wt, timeout=600)
        a = run(["git", "-C", wt, "apply", patch])
        if a.returncode != 0:
            # written against an earlier commit (a fix: landed meanwhile): 3-way merge, and store the merged diff
            a = run(["git", "-C", wt, "apply", "--3way", patch])
            if a.returncode != 0 or run(["git", "-C", wt, "diff", "--name-only", "--diff-filter=U"]).stdout.strip():
                print("PATCH DOES NOT APPLY", a.stderr)
                return 1
            run(["git", "-C", wt, "reset", "-q"])
            merged = os.path.join(wt, ".rebased.diff")
            open(merged, "w").write(run(["git", "-C", wt, "diff", "HEAD"]).stdout)
            patch = merged
            print("(patch rebased onto HEAD by 3-way merge)")
        imp = run(["/venv/bin/python", "-c", "import openapi_python_client"], env=env, cwd=wt)
        suite = run(["/venv/bin/python", os.path.join(ROOT, "tools", "runbase.py"), wt])
        r1 = run(["/venv/bin/python", demo], env=env, cwd=wt, timeout=600)
        suite_line = suite.stdout.strip().splitlines()[0] if suite.stdout.strip() else suite.stderr[-300:]
        ok = r0.returncode == 0 and r1.returncode != 0 and imp.returncode == 0 and "stable tests not passing: 0" in suite_line
        print(f"{name}: demo unpatched exit={r0.returncode} patched exit={r1.returncode} import={imp.returncode} suite: {suite_line}")
        if not ok:
            print("NOT CONFIRMED")
            print(r0.stdout[-500:], r0.stderr[-500:])
            return 1
        dst = os.path.join(ROOT, "seeded", name)
        os.makedirs(dst, exist_ok=True)
        shutil.copy(patch, os.path.join(dst, "patch.diff"))
        if os.path.exists(os.path.join(dst, "patch.diff")) and ".rebased.diff" in open(os.path.join(dst, "patch.diff")).read():
            pass
        shutil.copy(demo, os.path.join(dst, "demo.py"))
        meta = {}
        try:
            meta = json.load(open(os.path.join(src, "meta.json")))
        except Exception:  # noqa: BLE001
            pass
        meta["confirmed"] = {"demo_unpatched_exit": r0.returncode, "demo_patched_exit": r1.returncode, "suite": suite_line,
                             "ran": ["PYTHONPATH=<scratch worktree> /venv/bin/python demo.py (before and after git apply patch.diff)",
                                     "/venv/bin/python tools/runbase.py <scratch worktree> (pinned 403-test suite vs BASELINE.json)"]}
        meta.setdefault("detected_by", [])
        with open(os.path.join(dst, "meta.json"), "w") as f:
            json.dump(meta, f, indent=1)
        print("CONFIRMED ->", dst)
        return 0
    finally:
        run(["git", "-C", "/repo", "worktree", "remove", "--force", wt])
        shutil.rmtree(wt, ignore_errors=True)


if __name__ == "__main__":
    sys.exit(main())
