#!/bin/bash
# run every quick (or $2=thorough) check once with VERIF_SEED=$1; evidence goes to a scratch dir unless KEEP=1
seed=${1:-0}; tier=${2:-quick}
cd "$(dirname "$0")/.."
if [ -z "$KEEP" ]; then export SPECMC_EVIDENCE_DIR=/dev/shm/allquick-ev-$seed SPECMC_REPLAY_DIR=/dev/shm/allquick-rp-$seed; fi
for i in $(seq -w 1 20); do
  out=$(VERIF_SEED=$seed /venv/bin/python -m specmc check C$i --tier $tier 2>&1); rc=$?
  echo "seed=$seed rc=$rc $(echo "$out" | grep -E '^\[C' | tail -1 | cut -c1-170)"
  if [ $rc -ne 0 ]; then echo "$out" | grep -v KNOWN-FINDING | head -20; fi
done
