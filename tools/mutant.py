#!/venv/bin/python
"""Run checks against a mutant WITHOUT touching /repo: the patch is applied to a scratch git worktree
(removed afterwards) and the engine is pointed at it with SPECMC_REPO.

    tools/mutant.py <patch.diff | seeded/<id> dir> C03 [C11 ...] [--tier quick] [--suite]
Evidence and replays of mutant runs go to a scratch directory, never to /verif/evidence.
"""
import os
import shutil
import subprocess
import sys
import tempfile

ROOT = os.path.dirname(os.path.dirname(os.path.abspath(__file__)))


def main():
    args = [a for a in sys.argv[1:] if not a.startswith("--")]
    tier = "quick"
    if "--tier" in sys.argv:
        tier = sys.argv[sys.argv.index("--tier") + 1]
        args.remove(tier)
    patch = args[0]
    if os.path.isdir(patch):
        patch = os.path.join(patch, "patch.diff")
    patch = os.path.abspath(patch)
    checks = args[1:]
    base = "/dev/shm" if os.path.isdir("/dev/shm") else tempfile.gettempdir()
    wt = tempfile.mkdtemp(prefix="mutwt-", dir=base)
    os.rmdir(wt)
    scratch = tempfile.mkdtemp(prefix="mutev-", dir=base)
    rc_all = {}
    try:
        subprocess.run(["git", "-C", "/repo", "worktree", "add", "-q", "--detach", wt, "HEAD"], check=True)
        r = subprocess.run(["git", "-C", wt, "apply", patch], capture_output=True, text=True)
        if r.returncode != 0:
            print("patch does not apply:", r.stderr)
            return 3
        if "--suite" in sys.argv:
            r = subprocess.run(["/venv/bin/python", os.path.join(ROOT, "tools", "runbase.py"), wt], capture_output=True, text=True)
            print(r.stdout.strip())
        env = dict(os.environ, SPECMC_REPO=wt, SPECMC_EVIDENCE_DIR=os.path.join(scratch, "evidence"),
                   SPECMC_REPLAY_DIR=os.path.join(scratch, "replays"))
        for c in checks:
            r = subprocess.run(["/venv/bin/python", "-m", "specmc", "check", c, "--tier", tier], cwd=ROOT, env=env,
                               capture_output=True, text=True)
            out = r.stdout.strip().splitlines()
            shown = [l for l in out if not l.startswith("KNOWN-FINDING")]
            print(f"--- {c}: exit={r.returncode}")
            for l in shown[:14]:
                print("   ", l[:400])
            if r.returncode not in (0, 1):
                print("    STDERR:", r.stderr[-1500:])
            rc_all[c] = r.returncode
    finally:
        subprocess.run(["git", "-C", "/repo", "worktree", "remove", "--force", wt], capture_output=True)
        shutil.rmtree(wt, ignore_errors=True)
        shutil.rmtree(scratch, ignore_errors=True)
    print("RESULT", " ".join(f"{c}={'DETECTED' if rc == 1 else ('silent' if rc == 0 else 'ERROR')}" for c, rc in rc_all.items()))
    return 0


if __name__ == "__main__":
    sys.exit(main())
